"""
Regenerates lean/PedalModel/Gen/ProxyPlans.lean from pedal/sandbox/result.py of the tree under test.

Every method of `SandboxResult` whose name is one of the dunders of the C16 families becomes a forwarding `Plan`
(PedalModel/Proxy.lean): which expression it evaluates on the unwrapped operand(s) (the Python operator itself / a
dunder called by hand / a builtin), an optional fallback taken when that gave NotImplemented, whether it prints,
whether the result is wrapped again, whether a proxied other operand is unwrapped.  The plan is derived from what the
method DOES, from two independent sources that must agree:

READING (primary).  The method body is EXECUTED SYMBOLICALLY, path by path, by a small interpreter for the Python
subset such code is written in (`Reader`): the receiver is a proxy of an unknown value S, the other operand an
unknown plain value O in one scenario and a proxy of O in a second one, optional further parameters (`*modulo`,
`*ndigits`, `format_spec`) absent / present (the modulus plain and proxied).  Locals, tuple unpacking, early returns,
if/else, `not`/`and`/`or`, conditional expressions, for-loops and comprehensions over argument tuples, list building,
lambdas, nested functions and calls of private helpers - module-level functions and methods of the class, inlined
with their arguments bound - are followed; `isinstance(x, SandboxResult)`, `hasattr(x, "__actual_class__")`,
`x.__actual_class__ == SandboxResult`, `type(x)` are decided from what x IS in the scenario; a condition the reader
cannot decide (a test on the student's value) forks the path and BOTH branches are followed.  Every operation applied
to an unknown value (operator, dunder call, builtin, `operator.*`, `math.*`, subscript, `in`, `print`) is recorded as
an effect.  A scenario's paths must all end in the same effect list and the same return value (the only accepted
difference: the `result is/== NotImplemented` retry of a by-hand dispatch, which becomes the plan's fallback); the
scenarios must describe ONE expression over (self value, other value) - then that is the plan, `unwrapOther` says
whether the proxied other operand reached the operation unwrapped, `wrap` whether what is returned is a fresh
SandboxResult of the operation's result.  What attribute access on a proxy means (`.value`, `._actual_value`,
`.__actual_class__`, `.__class__`, which methods are reachable through `__getattribute__`, the constructor) is
MEASURED on the real class (proxy_probe.measure_semantics), never assumed from names.
Three outcomes: a plan; `not a forwarding plan` (the reader followed the code and it does something a plan cannot
express: different operations on different paths / scenarios, the proxy itself used as operand, two operations,
nothing returned ...) - definite, the entry is `opaque`; or `cannot follow` (a construct outside the subset).

MEASUREMENT (cross-check and fallback).  harness/proxy_probe.py calls the real method on instrumented operands that
log every dunder applied to them, in modes accept / decline / raise / subclass-first / missing-dunder, other operand
plain and proxied, and compares all observations with a Python rendering of the Lean `runPlan` of a plan.

COMBINATION, per method: reading = plan P and the measurement is identical to P -> P.  Reading = P but the
measurement differs -> `opaque` (never guess).  Reading = not a forwarding plan -> `opaque`.  Reading cannot follow
-> the plan space is searched for the plan the measurement is identical to; exactly one -> that plan (noted
"probed"); none or several -> `opaque`.  The same rule gives `spoofsClass` (reading: `__getattribute__` run
symbolically for the name "__class__"), `powForwardsModulo` (the modulus scenarios of `__pow__`) and
`lenFnDelegates` (the module-level replacement `len` run on a plain value); an unestablished flag is `false`, which
makes the Lean obligation fail.  A dunder that is not defined at all is simply absent from the table (the protocol
model then does what CPython does without it).
"""
import ast
import hashlib
import math
import operator as _operator
import os

from common import LEAN_DIR, REPO, write_if_changed

DUNDERS = {  # python name -> Lean constructor
    "__add__": "add", "__radd__": "radd", "__sub__": "sub", "__rsub__": "rsub", "__mul__": "mul", "__rmul__": "rmul",
    "__matmul__": "matmul", "__rmatmul__": "rmatmul", "__truediv__": "truediv", "__rtruediv__": "rtruediv",
    "__floordiv__": "floordiv", "__rfloordiv__": "rfloordiv", "__mod__": "mod", "__rmod__": "rmod",
    "__divmod__": "divmod", "__rdivmod__": "rdivmod", "__pow__": "pow", "__rpow__": "rpow", "__lshift__": "lshift",
    "__rlshift__": "rlshift", "__rshift__": "rshift", "__rrshift__": "rrshift", "__and__": "and_", "__rand__": "rand",
    "__xor__": "xor", "__rxor__": "rxor", "__or__": "or_", "__ror__": "ror",
    "__lt__": "lt", "__le__": "le", "__gt__": "gt", "__ge__": "ge", "__eq__": "eq", "__ne__": "ne",
    "__neg__": "neg", "__pos__": "pos", "__abs__": "abs", "__invert__": "invert",
    "__len__": "len", "__hash__": "hash", "__bool__": "bool", "__str__": "str", "__repr__": "repr",
    "__format__": "format", "__int__": "int", "__float__": "float", "__complex__": "complex", "__round__": "round",
    "__trunc__": "trunc", "__floor__": "floor", "__ceil__": "ceil", "__index__": "index",
    "__iter__": "iter", "__reversed__": "reversed", "__contains__": "contains", "__getitem__": "getitem",
}
AST_BINOP = {ast.Add: "add", ast.Sub: "sub", ast.Mult: "mul", ast.MatMult: "matmul", ast.Div: "truediv",
             ast.FloorDiv: "floordiv", ast.Mod: "mod", ast.Pow: "pow", ast.LShift: "lshift", ast.RShift: "rshift",
             ast.BitAnd: "and_", ast.BitXor: "xor", ast.BitOr: "or_"}
AST_CMP = {ast.Lt: "lt", ast.LtE: "le", ast.Gt: "gt", ast.GtE: "ge", ast.Eq: "eq", ast.NotEq: "ne"}
AST_UNARY = {ast.USub: "neg", ast.UAdd: "pos", ast.Invert: "invert"}
BUILTIN_CONV = {"repr": "repr", "str": "str", "hash": "hash", "bool": "bool", "int": "int", "float": "float",
                "complex": "complex", "len": "len", "iter": "iter", "reversed": "reversed", "abs": "abs",
                "format": "format", "round": "round"}
MATH_CONV = {"trunc": "trunc", "floor": "floor", "ceil": "ceil"}
OPERATOR_INFIX = {"add": "add", "sub": "sub", "mul": "mul", "matmul": "matmul", "truediv": "truediv",
                  "floordiv": "floordiv", "mod": "mod", "pow": "pow", "lshift": "lshift", "rshift": "rshift",
                  "and_": "and_", "xor": "xor", "or_": "or_", "lt": "lt", "le": "le", "gt": "gt", "ge": "ge",
                  "eq": "eq", "ne": "ne"}
OPERATOR_CONV = {"neg": "neg", "pos": "pos", "invert": "invert", "inv": "invert", "abs": "abs", "index": "index",
                 "truth": "bool"}
BINARY_LEAN = ("add radd sub rsub mul rmul matmul rmatmul truediv rtruediv floordiv rfloordiv mod rmod divmod rdivmod "
               "pow rpow lshift rlshift rshift rrshift and_ rand xor rxor or_ ror lt le gt ge eq ne").split()
BINARY_DUNDERS = [d for d in DUNDERS if DUNDERS[d] in BINARY_LEAN]
CLASS_NAME = "SandboxResult"
MAX_DEPTH = 10
MAX_PATHS = 256


class Unknown(Exception):
    """the reading cannot follow the code"""


class Definite(Exception):
    """the reading followed the code: it is not a forwarding plan"""


# ----------------------------------------------------------------------------------------------------------
# symbolic values

class V:
    __slots__ = ()

    def _key(self):
        return (type(self).__name__,) + tuple(getattr(self, s) for s in self.__slots__)

    def __eq__(self, other):
        return type(other) is type(self) and self._key() == other._key()

    def __ne__(self, other):
        return not self == other

    def __hash__(self):
        return hash(self._key())

    def __repr__(self):
        return "%s(%s)" % (type(self).__name__, ", ".join(repr(getattr(self, s)) for s in self.__slots__))


def _mk(name, fields):
    fields = fields.split()

    def init(self, *args):
        assert len(args) == len(fields), (name, args)
        for f, a in zip(fields, args):
            object.__setattr__(self, f, a)
    return type(name, (V,), {"__slots__": tuple(fields), "__init__": init})


Atom = _mk("Atom", "tag")                 # an unknown value that is not a proxy: S (wrapped in self), O, K (further argument)
Prox = _mk("Prox", "inner origin")        # a SandboxResult; origin: self | other | extra | new
OpRes = _mk("OpRes", "idx")               # what effect number idx produced
ClassOf = _mk("ClassOf", "of")            # the class of an unknown value
Meta = _mk("Meta", "of which")            # context id / sandbox stored in a proxy
Func = _mk("Func", "node closure")        # a function of the module under translation (closure: frozen env or None)
Bound = _mk("Bound", "recv func")
ValMethod = _mk("ValMethod", "recv name")  # `<unknown value>.<name>`
Builtin = _mk("Builtin", "name")
Module = _mk("Module", "name")
ListV = _mk("ListV", "items")             # a list built by the code (items: tuple)
DictV = _mk("DictV", "pairs")             # a dict display with constant keys (pairs: tuple of (key, value))
CondV = _mk("CondV", "key neg")           # an undecided boolean
Opaque = _mk("Opaque", "why")
ClassSR = _mk("ClassSR", "")
NotImpl = _mk("NotImpl", "")
CLASS_SR = ClassSR()
NI = NotImpl()
SYMBOLIC = (Atom, Prox, OpRes)


class St:
    """One path: the effects so far and the undecided conditions taken."""
    __slots__ = ("effects", "conds")

    def __init__(self, effects=(), conds=()):
        self.effects = effects
        self.conds = conds

    def effect(self, e):
        for x in e:
            check_operand(x)
        return OpRes(len(self.effects)), St(self.effects + (e,), self.conds)

    def decide(self, key):
        for k, b in self.conds:
            if k == key:
                return [(b, self)]
        return [(True, St(self.effects, self.conds + ((key, True),))),
                (False, St(self.effects, self.conds + ((key, False),)))]


def check_operand(x):
    if isinstance(x, Opaque):
        raise Unknown("operand is %s" % x.why)
    if isinstance(x, (CondV, Func, Bound, ValMethod, Builtin, Module, ClassOf, Meta, ClassSR)):
        raise Unknown("operand %r" % (x,))
    if isinstance(x, tuple):
        for y in x:
            check_operand(y)


RET, FALL = "ret", "fall"
PY_BUILTINS = ("isinstance hasattr getattr type print divmod pow tuple list object issubclass callable "
               + " ".join(BUILTIN_CONV)).split()


class Reader:
    def __init__(self, tree, sem):
        self.sem = sem
        self.genv = {}
        self.cls = None
        self.methods = {}          # name -> Func, as CPython finds them on SandboxResult (own body, then bases)
        self.unread = {}           # name -> why the class-level definition could not be followed
        self.defined = []          # names bound in the class bodies, in order
        self.class_consts = {}
        self.module_classes = {}
        self.paths = 0
        for node in tree.body:
            self._module_stmt(node)
        if self.cls is not None:
            self._collect_class(self.cls, set())

    # ---- module level ------------------------------------------------------------------------------------
    def _module_stmt(self, node):
        if isinstance(node, (ast.Import, ast.ImportFrom)):
            for a in node.names:
                name = (a.asname or a.name).split(".")[0]
                if isinstance(node, ast.Import) and a.name in ("math", "operator", "functools"):
                    self.genv[name] = Module(a.name)
                elif isinstance(node, ast.ImportFrom) and node.module in ("math", "operator", "functools"):
                    self.genv[name] = self._module_attr(Module(node.module), a.name)
                else:
                    self.genv[name] = Opaque("imported name %s" % name)
        elif isinstance(node, ast.FunctionDef):
            self.genv[node.name] = Func(node, None)
        elif isinstance(node, ast.ClassDef):
            self.module_classes[node.name] = node
            if node.name == CLASS_NAME:
                self.cls = node
                self.genv[node.name] = CLASS_SR
            else:
                self.genv[node.name] = Opaque("class %s" % node.name)
        elif isinstance(node, ast.Assign) and len(node.targets) == 1 and isinstance(node.targets[0], ast.Name):
            v = node.value
            if isinstance(v, ast.Name):
                self.genv[node.targets[0].id] = self._global(v.id)
            else:
                try:
                    self.genv[node.targets[0].id] = self._const(ast.literal_eval(v))
                except (ValueError, SyntaxError):
                    try:
                        got = list(self.ev(v, {}, St(), 0))
                        if len(got) != 1 or got[0][1].effects:
                            raise Unknown("module-level expression")
                        self.genv[node.targets[0].id] = got[0][0]
                    except Exception:       # noqa
                        self.genv[node.targets[0].id] = Opaque("module variable %s" % node.targets[0].id)

    def _collect_class(self, node, seen):
        """Bind the class-level names of SandboxResult: base classes of the module first (right to left), then the
        own body; `def`s (with their decorators applied), `name = <expression>` (aliases, functions made by a
        factory, lambdas, constants)."""
        if node.name in seen:
            return
        seen.add(node.name)
        for b in reversed(node.bases):
            if isinstance(b, ast.Name) and b.id in self.module_classes:
                self._collect_class(self.module_classes[b.id], seen)
            elif not (isinstance(b, ast.Name) and b.id == "object"):
                self.unread["<bases>"] = "base class %s" % ast.dump(b)[:40]
        cenv = {}
        for n in node.body:
            names = []
            try:
                if isinstance(n, ast.FunctionDef):
                    names = [n.name]
                    val = self.make_function(n, cenv, None, 0)
                elif isinstance(n, ast.Assign) and all(isinstance(t, ast.Name) for t in n.targets):
                    names = [t.id for t in n.targets]
                    try:
                        val = self._const(ast.literal_eval(n.value))
                    except (ValueError, SyntaxError):
                        got = list(self.ev(n.value, cenv, St(), 0))
                        if len(got) != 1 or got[0][1].effects:
                            raise Unknown("class-level expression")
                        val = got[0][0]
                elif isinstance(n, (ast.Expr, ast.Pass)):
                    continue
                else:
                    for sub in ast.walk(n):
                        if isinstance(sub, ast.Name) and isinstance(sub.ctx, ast.Store):
                            names.append(sub.id)
                    raise Unknown("class-level %s" % type(n).__name__)
            except Exception as e:       # noqa  (Unknown, Definite, RecursionError, reader gaps)
                for name in names:
                    self.unread[name] = str(e) or type(e).__name__
                    self.methods.pop(name, None)
                    cenv.pop(name, None)
                    if name not in self.defined:
                        self.defined.append(name)
                continue
            for name in names:
                cenv[name] = val
                self.unread.pop(name, None)
                if name not in self.defined:
                    self.defined.append(name)
                if isinstance(val, Func):
                    self.methods[name] = val
                else:
                    self.methods.pop(name, None)
                    if isinstance(val, Opaque):
                        self.unread[name] = val.why
                    else:
                        self.class_consts[name] = val

    def make_function(self, node, env, closure, depth):
        """A `def` with its decorators applied (bottom up)."""
        f = Func(node, closure)
        for dec in reversed(node.decorator_list):
            got = list(self.ev(dec, env, St(), depth))
            if len(got) != 1 or got[0][1].effects:
                raise Unknown("decorator")
            applied = list(self.apply(got[0][0], [f], {}, St(), depth))
            if len(applied) != 1 or applied[0][1].effects or not isinstance(applied[0][0], Func):
                raise Unknown("decorator result")
            f = applied[0][0]
        return f

    def _const(self, x):
        if isinstance(x, list):
            return ListV(tuple(self._const(y) for y in x))
        if isinstance(x, tuple):
            return tuple(self._const(y) for y in x)
        if isinstance(x, (set, frozenset)):
            return tuple(sorted((self._const(y) for y in x), key=repr))     # only ever used for membership tests
        if x is None or isinstance(x, (bool, int, float, str, complex, bytes)):
            return x
        return Opaque("constant")

    def _global(self, name):
        if name in self.genv:
            return self.genv[name]
        if name == "NotImplemented":
            return NI
        if name in PY_BUILTINS or name in ("str", "int", "float", "bool", "complex", "dict", "set", "bytes",
                                           "staticmethod"):
            return Builtin(name)
        return Opaque("name %s" % name)

    def _module_attr(self, mod, attr):
        if mod.name == "math":
            if not hasattr(math, attr):
                return Builtin("missing:math." + attr)
            if attr in MATH_CONV:
                return Builtin("math." + attr)
        if mod.name == "operator":
            if attr in OPERATOR_INFIX or attr in OPERATOR_CONV or attr in ("getitem", "contains"):
                return Builtin("operator." + attr)
        if mod.name == "functools" and attr in ("wraps", "partial", "partialmethod"):
            return Builtin("functools." + attr)
        return Opaque("%s.%s" % (mod.name, attr))

    # ---- expressions ---------------------------------------------------------------------------------------
    def ev(self, n, env, st, depth):
        """yield (value, st) for every way the expression can evaluate"""
        if isinstance(n, ast.Constant):
            yield n.value, st
        elif isinstance(n, ast.Name):
            yield (env[n.id] if n.id in env else self._global(n.id)), st
        elif isinstance(n, ast.Attribute):
            for base, st1 in self.ev(n.value, env, st, depth):
                yield self.attr(base, n.attr), st1
        elif isinstance(n, ast.Call):
            yield from self.ev_call(n, env, st, depth)
        elif isinstance(n, ast.BinOp):
            if type(n.op) not in AST_BINOP:
                raise Unknown("operator")
            for l, st1 in self.ev(n.left, env, st, depth):
                for r, st2 in self.ev(n.right, env, st1, depth):
                    yield self.infix(AST_BINOP[type(n.op)], l, r, st2)
        elif isinstance(n, ast.UnaryOp):
            for v, st1 in self.ev(n.operand, env, st, depth):
                if isinstance(n.op, ast.Not):
                    yield self.negate(v, st1)
                elif isinstance(v, SYMBOLIC):
                    yield st1.effect(("builtin", AST_UNARY[type(n.op)], v, ()))
                elif isinstance(v, (int, float)) and not isinstance(v, bool):
                    yield {ast.USub: -v, ast.UAdd: +v}.get(type(n.op), Opaque("~const")), st1
                else:
                    raise Unknown("unary operator on %r" % (v,))
        elif isinstance(n, ast.Compare):
            if len(n.ops) != 1:
                raise Unknown("chained comparison")
            for l, st1 in self.ev(n.left, env, st, depth):
                for r, st2 in self.ev(n.comparators[0], env, st1, depth):
                    yield self.compare(n.ops[0], l, r, st2)
        elif isinstance(n, ast.BoolOp):
            yield from self.ev_boolop(isinstance(n.op, ast.And), n.values, env, st, depth)
        elif isinstance(n, ast.IfExp):
            for c, st1 in self.ev(n.test, env, st, depth):
                for b, st2 in self.truth(c, st1):
                    yield from self.ev(n.body if b else n.orelse, env, st2, depth)
        elif isinstance(n, (ast.Tuple, ast.List)):
            for items, st1 in self.ev_seq(n.elts, env, st, depth):
                yield (tuple(items) if isinstance(n, ast.Tuple) else ListV(tuple(items))), st1
        elif isinstance(n, ast.Subscript):
            for base, st1 in self.ev(n.value, env, st, depth):
                if isinstance(n.slice, ast.Slice):
                    raise Unknown("slice")
                for idx, st2 in self.ev(n.slice, env, st1, depth):
                    yield self.subscript(base, idx, st2)
        elif isinstance(n, (ast.ListComp, ast.GeneratorExp)):
            yield from self.ev_comp(n, env, st, depth)
        elif isinstance(n, ast.Lambda):
            yield Func(n, freeze(env)), st
        elif isinstance(n, ast.Dict):
            if any(k is None for k in n.keys):
                raise Unknown("dict unpacking")
            for keys, st1 in self.ev_seq(list(n.keys), env, st, depth):
                if any(isinstance(k, V) or isinstance(k, tuple) for k in keys):
                    raise Unknown("dict key")
                for vals, st2 in self.ev_seq(list(n.values), env, st1, depth):
                    yield DictV(tuple(zip(keys, vals))), st2
        elif isinstance(n, ast.NamedExpr) and isinstance(n.target, ast.Name):
            for v, st1 in self.ev(n.value, env, st, depth):
                env[n.target.id] = v
                yield v, st1
        elif isinstance(n, ast.Starred):
            raise Unknown("starred expression here")
        else:
            raise Unknown("expression %s" % type(n).__name__)

    def ev_seq(self, nodes, env, st, depth):
        """evaluate a list of expressions left to right (Starred ones are spliced in)"""
        if not nodes:
            yield [], st
            return
        head, rest = nodes[0], nodes[1:]
        if isinstance(head, ast.Starred):
            for v, st1 in self.ev(head.value, env, st, depth):
                items = self.as_items(v)
                for more, st2 in self.ev_seq(rest, env, st1, depth):
                    yield items + more, st2
        else:
            for v, st1 in self.ev(head, env, st, depth):
                for more, st2 in self.ev_seq(rest, env, st1, depth):
                    yield [v] + more, st2

    def as_items(self, v):
        if isinstance(v, tuple):
            return list(v)
        if isinstance(v, ListV):
            return list(v.items)
        raise Unknown("iteration over %r" % (v,))

    def ev_boolop(self, is_and, values, env, st, depth):
        head, rest = values[0], values[1:]
        for v, st1 in self.ev(head, env, st, depth):
            if not rest:
                yield v, st1
                continue
            for b, st2 in self.truth(v, st1):
                if b != is_and:
                    yield (v if not isinstance(v, CondV) else b), st2      # short circuit
                else:
                    yield from self.ev_boolop(is_and, rest, env, st2, depth)

    def ev_comp(self, n, env, st, depth):
        if len(n.generators) != 1 or n.generators[0].is_async:
            raise Unknown("comprehension")
        g = n.generators[0]
        for seq, st1 in self.ev(g.iter, env, st, depth):
            items = self.as_items(seq)

            def go(i, acc, stx):
                if i == len(items):
                    yield acc, stx
                    return
                env2 = dict(env)
                self.bind(g.target, items[i], env2)
                yield from self.filtered(g.ifs, env2, stx, depth, lambda sty: self.ev(n.elt, env2, sty, depth),
                                         lambda v, sty: go(i + 1, acc + [v], sty), lambda sty: go(i + 1, acc, sty))
            for acc, st2 in go(0, [], st1):
                yield ListV(tuple(acc)), st2

    def filtered(self, ifs, env, st, depth, produce, then, skip):
        if not ifs:
            for v, st1 in produce(st):
                yield from then(v, st1)
            return
        for c, st1 in self.ev(ifs[0], env, st, depth):
            for b, st2 in self.truth(c, st1):
                if b:
                    yield from self.filtered(ifs[1:], env, st2, depth, produce, then, skip)
                else:
                    yield from skip(st2)

    def negate(self, v, st):
        """`not v` -> (value, st); the truth of an unknown value is the `bool` operation applied to it"""
        if isinstance(v, CondV):
            return CondV(v.key, not v.neg), st
        if isinstance(v, (Atom, OpRes)):
            r, st1 = st.effect(("builtin", "bool", v, ()))
            return CondV(("truth", r), True), st1
        if isinstance(v, ListV):
            return (not v.items), st
        if isinstance(v, NotImpl):
            return False, st
        if isinstance(v, V):
            raise Unknown("not %r" % (v,))
        return (not v), st

    def truth(self, v, st):
        """[(bool, st)]"""
        if isinstance(v, CondV):
            return [(b != v.neg, s) for b, s in st.decide(v.key)]
        if isinstance(v, (Atom, OpRes)):
            r, st1 = st.effect(("builtin", "bool", v, ()))
            return st1.decide(("truth", r))
        if isinstance(v, ListV):
            return [(bool(v.items), st)]
        if isinstance(v, NotImpl):
            return [(True, st)]
        if isinstance(v, V):
            raise Unknown("truth of %r" % (v,))
        return [(bool(v), st)]

    def infix(self, op, l, r, st):
        if isinstance(l, SYMBOLIC) or isinstance(r, SYMBOLIC):
            return st.effect(("infix", op, l, r))
        if op == "add" and isinstance(l, ListV) and isinstance(r, ListV):
            return ListV(l.items + r.items), st
        if op == "add" and isinstance(l, tuple) and isinstance(r, tuple):
            return l + r, st
        if not isinstance(l, V) and not isinstance(r, V) and not isinstance(l, tuple) and not isinstance(r, tuple):
            try:
                if op == "divmod":
                    raise Unknown("constant expression")
                return getattr(_operator, op)(l, r), st
            except Exception:       # noqa
                raise Unknown("constant expression")
        raise Unknown("operator %s on %r, %r" % (op, l, r))

    def compare(self, opnode, l, r, st):
        t = type(opnode)
        if t in (ast.Is, ast.IsNot, ast.Eq, ast.NotEq):
            neg = t in (ast.IsNot, ast.NotEq)
            for a, b in ((l, r), (r, l)):
                # identity / equality with NotImplemented, None, or between classes: a test, not an operation
                if isinstance(b, NotImpl) or (b is None and t in (ast.Is, ast.IsNot)):
                    kind = "isNI" if isinstance(b, NotImpl) else "isNone"
                    if isinstance(a, Atom) and a.tag == "K" and kind == "isNone":
                        return neg, st      # a further argument that was given (its absence is a scenario of its own)
                    if isinstance(a, (Atom, OpRes)):
                        return CondV((kind, a), neg), st
                    if isinstance(a, Prox):
                        if t in (ast.Eq, ast.NotEq):
                            break       # == on a proxy is its __eq__
                        return neg, st
                    if isinstance(a, Opaque):
                        raise Unknown("test on %s" % a.why)
                    same = isinstance(a, NotImpl) if kind == "isNI" else a is None
                    return same != neg, st
            classes = (ClassSR, ClassOf, Builtin)
            if isinstance(l, classes) and isinstance(r, classes):
                if isinstance(l, ClassSR) and isinstance(r, ClassSR):
                    return not neg, st
                if isinstance(l, ClassSR) or isinstance(r, ClassSR):
                    return neg, st          # an unwrapped value's class is not SandboxResult
                if l == r:
                    return not neg, st
                return CondV(("class-eq", l, r), neg), st
        if t in AST_CMP and (isinstance(l, SYMBOLIC) or isinstance(r, SYMBOLIC)):
            return st.effect(("infix", AST_CMP[t], l, r))
        if t in (ast.In, ast.NotIn):
            if isinstance(r, (Atom, OpRes, Prox)):
                if t is ast.NotIn:
                    raise Unknown("not in")
                return st.effect(("isIn", l, r))
            if isinstance(r, (ListV, tuple)) and not isinstance(l, V):
                items = r.items if isinstance(r, ListV) else r
                if all(not isinstance(x, V) for x in items):
                    return (l in items) != (t is ast.NotIn), st
            if isinstance(r, str) and isinstance(l, str):
                return (l in r) != (t is ast.NotIn), st
            raise Unknown("membership test")
        if not isinstance(l, (V, tuple)) and not isinstance(r, (V, tuple)):
            try:
                fn = {ast.Eq: _operator.eq, ast.NotEq: _operator.ne, ast.Lt: _operator.lt, ast.LtE: _operator.le,
                      ast.Gt: _operator.gt, ast.GtE: _operator.ge, ast.Is: _operator.is_, ast.IsNot: _operator.is_not}[t]
                return fn(l, r), st
            except Exception:       # noqa
                raise Unknown("constant comparison")
        if t in (ast.Eq, ast.NotEq) and isinstance(l, (tuple, ListV)) and isinstance(r, (tuple, ListV)):
            li = l.items if isinstance(l, ListV) else l
            ri = r.items if isinstance(r, ListV) else r
            if type(l) is type(r) and len(li) != len(ri):
                return t is ast.NotEq, st
        raise Unknown("comparison of %r and %r" % (l, r))

    def subscript(self, base, idx, st):
        if isinstance(base, (tuple, ListV)):
            items = base.items if isinstance(base, ListV) else base
            if isinstance(idx, int) and not isinstance(idx, bool) and -len(items) <= idx < len(items):
                return items[idx], st
            raise Unknown("index into a built sequence")
        if isinstance(base, DictV):
            if isinstance(idx, (V, tuple)):
                raise Unknown("dict lookup with %r" % (idx,))
            for k, v in base.pairs:
                if type(k) is type(idx) and k == idx:
                    return v, st
            raise Unknown("dict lookup misses")
        if isinstance(base, SYMBOLIC):
            return st.effect(("subscript", base, idx))
        raise Unknown("subscript of %r" % (base,))

    # ---- attributes ------------------------------------------------------------------------------------------
    def attr(self, base, name):
        sem = self.sem
        if isinstance(base, Prox):
            if name in sem["inner"]:
                return base.inner
            if name in sem["actual_class"]:
                return CLASS_SR
            if name == "__class__":
                if sem["spoof"] is True:
                    return ClassOf(base.inner)
                if sem["spoof"] is False:
                    return CLASS_SR
                return Opaque("__class__ of a proxy")
            if name in sem["meta"]:
                return Meta(base, name)
            if name in sem["methods"] and name in self.methods:
                return Bound(base, self.methods[name])
            return Opaque("attribute %s of a proxy" % name)
        if isinstance(base, ClassSR):
            if name in self.class_consts:
                return self.class_consts[name]
            if name in self.methods:
                return self.methods[name]
            return Opaque("class attribute %s" % name)
        if isinstance(base, (Atom, OpRes)):
            if name == "__class__":
                return ClassOf(base)
            if name in DUNDERS:
                return ValMethod(base, name)
            if name in sem.get("plain_lacks", ()):
                return Opaque("attribute %s of a plain value (AttributeError)" % name)
            return Opaque("attribute %s of a student value" % name)
        if isinstance(base, Module):
            return self._module_attr(base, name)
        if isinstance(base, Builtin) and base.name == "object" and name in ("__getattribute__",):
            return Builtin("object." + name)
        if isinstance(base, ListV) and name == "append":
            raise Unknown("list.append outside a statement")
        return Opaque("attribute %s of %r" % (name, base))

    def raw_attr(self, base, name):
        """object.__getattribute__(base, name)"""
        if isinstance(base, Prox):
            if name == "value" and self.sem["raw_inner"]:
                return base.inner
            if name == "__class__":
                return CLASS_SR
            if name in ("_actual_context_id", "_actual_sandbox"):
                return Meta(base, name)
            if name in self.methods:
                return Bound(base, self.methods[name])
            if name in self.class_consts:
                return self.class_consts[name]
        return Opaque("raw attribute %s of %r" % (name, base))

    # ---- calls -----------------------------------------------------------------------------------------------
    def ev_call(self, n, env, st, depth):
        if any(k.arg is None for k in n.keywords):
            raise Unknown("**kwargs")
        for f, st1 in self.ev(n.func, env, st, depth):
            for args, st2 in self.ev_seq(list(n.args), env, st1, depth):
                for kwvals, st3 in self.ev_seq([k.value for k in n.keywords], env, st2, depth):
                    kwargs = dict(zip([k.arg for k in n.keywords], kwvals))
                    yield from self.apply(f, args, kwargs, st3, depth)

    def apply(self, f, args, kwargs, st, depth):
        if isinstance(f, Bound):
            yield from self.apply(f.func, [f.recv] + args, kwargs, st, depth)
        elif isinstance(f, Func):
            yield from self.call_func(f, args, kwargs, st, depth)
        elif isinstance(f, ClassSR):
            # constructing a proxy: the first argument is what it wraps (measured: sem["ctor"], sem["inner"])
            if not self.sem["ctor"] or not self.sem["inner"]:
                raise Unknown("constructor semantics not established")
            val = args[0] if args else kwargs.get("value", Opaque("no value"))
            if isinstance(val, Opaque):
                raise Unknown("proxy of %s" % val.why)
            for x in list(args[1:]) + [v for k, v in kwargs.items() if k != "value"]:
                if isinstance(x, Opaque):
                    raise Unknown("constructor argument %s" % x.why)
            yield Prox(val, "new"), st
        elif isinstance(f, ValMethod):
            lean = DUNDERS[f.name]
            if kwargs:
                raise Unknown("keyword arguments to a dunder")
            if f.name in BINARY_DUNDERS or f.name in ("__contains__", "__getitem__"):
                if f.name == "__pow__" and len(args) == 2:
                    if args[1] is None:
                        yield st.effect(("method", lean, f.recv, args[0]))
                        return
                    raise Unknown("__pow__ by hand with a modulus")
                if len(args) != 1:
                    raise Unknown("arity of %s" % f.name)
                yield st.effect(("method", lean, f.recv, args[0]))
            else:
                yield st.effect(("method1", lean, f.recv, tuple(args)))
        elif isinstance(f, Builtin):
            yield from self.call_builtin(f.name, args, kwargs, st)
        elif isinstance(f, Opaque):
            raise Unknown("call of %s" % f.why)
        else:
            raise Unknown("call of %r" % (f,))

    def call_func(self, f, args, kwargs, st, depth):
        if depth >= MAX_DEPTH:
            raise Unknown("helper nesting too deep")
        node = f.node
        a = node.args
        env = dict(f.closure) if f.closure else {}
        params = [p.arg for p in a.posonlyargs + a.args]
        defaults = [None] * (len(params) - len(a.defaults)) + list(a.defaults)
        pos = list(args)
        for name, d in zip(params, defaults):
            if pos:
                env[name] = pos.pop(0)
            elif name in kwargs:
                env[name] = kwargs.pop(name)
            elif d is not None:
                env[name] = self._default(d)
            else:
                raise Unknown("missing argument %s" % name)
        if a.vararg:
            env[a.vararg.arg] = tuple(pos)
        elif pos:
            raise Unknown("too many arguments")
        for p, d in zip(a.kwonlyargs, a.kw_defaults):
            if p.arg in kwargs:
                env[p.arg] = kwargs.pop(p.arg)
            elif d is not None:
                env[p.arg] = self._default(d)
            else:
                raise Unknown("missing keyword argument")
        if kwargs:
            raise Unknown("unexpected keyword arguments")
        if isinstance(node, ast.Lambda):
            yield from self.ev(node.body, env, st, depth + 1)
            return
        if any(isinstance(x, (ast.Yield, ast.YieldFrom, ast.Await)) for x in ast.walk(node)):
            raise Unknown("generator")
        for sig, val, _env, st1 in self.run_block(node.body, env, st, depth + 1):
            yield (val if sig == RET else None), st1

    def _default(self, d):
        try:
            return self._const(ast.literal_eval(d))
        except (ValueError, SyntaxError):
            if isinstance(d, ast.Name):
                return self._global(d.id)
            return Opaque("default value")

    def partial_of(self, f, pargs, pkw, method):
        """functools.partial(f, *pargs, **pkw) / functools.partialmethod(...) as a function of the module: a synthetic
        lambda whose parameters are those of `f` that are still open (for a partialmethod the first one, the receiver,
        stays in front) and whose body is the call of `f` with the frozen arguments filled in."""
        if isinstance(f, Bound):
            return self.partial_of(f.func, [f.recv] + list(pargs), pkw, method) if not method else None
        for x in list(pargs) + list(pkw.values()):
            if isinstance(x, Opaque):
                raise Unknown("partial argument %s" % x.why)
        closure = {"__pm_f": f}
        call_args, call_kw = [], []
        for i, x in enumerate(pargs):
            closure["__pm_a%d" % i] = x
            call_args.append(ast.Name(id="__pm_a%d" % i, ctx=ast.Load()))
        for k, x in pkw.items():
            closure["__pm_k_" + k] = x
            call_kw.append(ast.keyword(arg=k, value=ast.Name(id="__pm_k_" + k, ctx=ast.Load())))
        first, open_params, open_defaults, vararg = [], [], [], None
        if isinstance(f, Func):
            a = f.node.args
            if a.posonlyargs or a.kwonlyargs or a.kwarg:
                raise Unknown("partial of a function with such a signature")
            params = list(a.args)
            defaults = [None] * (len(params) - len(a.defaults)) + list(a.defaults)
            if method:
                if not params:
                    raise Unknown("partialmethod of a function without parameters")
                first, params, defaults = [params[0]], params[1:], defaults[1:]
            if len(pargs) > len(params):
                if not a.vararg:
                    raise Definite("partial: too many frozen arguments")
                params, defaults = [], []
            else:
                params, defaults = params[len(pargs):], defaults[len(pargs):]
            keep = [(q, d) for q, d in zip(params, defaults) if q.arg not in pkw]
            seen_default = False
            for q, d in keep:
                if d is None and seen_default:
                    raise Unknown("partial leaves a keyword-only parameter")
                seen_default = seen_default or d is not None
            open_params = [ast.arg(arg=q.arg) for q, _ in keep]
            open_defaults = [d for _, d in keep if d is not None]
            vararg = ast.arg(arg=a.vararg.arg) if a.vararg else None
        else:
            if method:
                first = [ast.arg(arg="__pm_self")]
            vararg = ast.arg(arg="__pm_rest")
        inner = [ast.Name(id=q.arg, ctx=ast.Load()) for q in first] + call_args \
            + [ast.Name(id=q.arg, ctx=ast.Load()) for q in open_params]
        if vararg is not None:
            inner.append(ast.Starred(value=ast.Name(id=vararg.arg, ctx=ast.Load()), ctx=ast.Load()))
        body = ast.Call(func=ast.Name(id="__pm_f", ctx=ast.Load()), args=inner, keywords=call_kw)
        lam = ast.Lambda(args=ast.arguments(posonlyargs=[], args=first + open_params, vararg=vararg, kwonlyargs=[],
                                            kw_defaults=[], kwarg=None, defaults=open_defaults), body=body)
        ast.fix_missing_locations(lam)
        return Func(lam, freeze(closure))

    def call_builtin(self, name, args, kwargs, st):
        if name in ("functools.partial", "functools.partialmethod") and args:
            made = self.partial_of(args[0], list(args[1:]), dict(kwargs), name.endswith("method"))
            if made is None:
                raise Unknown("%s of a bound method" % name)
            yield made, st
            return
        if kwargs and name != "print":
            raise Unknown("keyword arguments to %s" % name)
        if name == "print":
            _, st1 = st.effect(("print",))
            yield None, st1
        elif name in ("staticmethod", "identity") and len(args) == 1:
            yield args[0], st
        elif name == "functools.wraps" and len(args) == 1:
            yield Builtin("identity"), st
        elif name == "isinstance" and len(args) == 2:
            yield self.isinstance_(args[0], args[1]), st
        elif name == "issubclass" and len(args) == 2 and isinstance(args[1], ClassSR) \
                and isinstance(args[0], (ClassSR, ClassOf)):
            # issubclass(type(x), SandboxResult): type(x) of a proxy is the proxy class, of a student value never
            yield isinstance(args[0], ClassSR), st
        elif name == "hasattr" and len(args) == 2 and isinstance(args[1], str):
            yield self.hasattr_(args[0], args[1]), st
        elif name == "getattr" and len(args) in (2, 3) and isinstance(args[1], str):
            v = self.attr(args[0], args[1])
            if isinstance(v, Opaque) and len(args) == 3:
                if isinstance(args[0], Atom) and args[1] in self.sem.get("plain_lacks", ()):
                    v = args[2]
                else:
                    raise Unknown("getattr with a default")
            yield v, st
        elif name == "object.__getattribute__" and len(args) == 2 and isinstance(args[1], str):
            yield self.raw_attr(args[0], args[1]), st
        elif name == "type" and len(args) == 1:
            x = args[0]
            if isinstance(x, Prox):
                yield CLASS_SR, st
            elif isinstance(x, (Atom, OpRes)):
                yield ClassOf(x), st
            else:
                raise Unknown("type(%r)" % (x,))
        elif name in ("tuple", "list") and len(args) <= 1:
            items = self.as_items(args[0]) if args else []
            yield (tuple(items) if name == "tuple" else ListV(tuple(items))), st
        elif name == "len" and len(args) == 1 and isinstance(args[0], (tuple, ListV)):
            yield len(self.as_items(args[0])), st
        elif name == "bool" and len(args) == 1 and isinstance(args[0], (tuple, ListV, CondV, bool)):
            v = args[0]
            yield (bool(self.as_items(v)) if isinstance(v, (tuple, ListV)) else v), st
        elif name in BUILTIN_CONV and args:
            x, extra = args[0], tuple(args[1:])
            if not isinstance(x, SYMBOLIC):
                raise Unknown("%s(%r)" % (name, x))
            if name not in ("format", "round") and extra:
                raise Unknown("extra arguments to %s" % name)
            yield st.effect(("builtin", BUILTIN_CONV[name], x, extra))
        elif name == "divmod" and len(args) == 2:
            yield st.effect(("infix", "divmod", args[0], args[1]))
        elif name == "pow" and len(args) in (2, 3):
            if len(args) == 2 or args[2] is None:
                yield st.effect(("infix", "pow", args[0], args[1]))
            else:
                yield st.effect(("pow3", args[0], args[1], args[2]))
        elif name.startswith("math.") and len(args) == 1:
            if not isinstance(args[0], SYMBOLIC):
                raise Unknown("math function on %r" % (args[0],))
            yield st.effect(("builtin", MATH_CONV[name[5:]], args[0], ()))
        elif name.startswith("missing:"):
            yield st.effect(("missingName",))
        elif name.startswith("operator."):
            fn = name[9:]
            if fn in OPERATOR_INFIX and len(args) == 2:
                yield st.effect(("infix", OPERATOR_INFIX[fn], args[0], args[1]))
            elif fn in OPERATOR_CONV and len(args) == 1:
                yield st.effect(("builtin", OPERATOR_CONV[fn], args[0], ()))
            elif fn == "getitem" and len(args) == 2:
                yield self.subscript(args[0], args[1], st)
            elif fn == "contains" and len(args) == 2:
                yield st.effect(("isIn", args[1], args[0]))
            else:
                raise Unknown(name)
        else:
            raise Unknown("builtin %s/%d" % (name, len(args)))

    def isinstance_(self, x, c):
        if isinstance(c, tuple):
            parts = [self.isinstance_(x, ci) for ci in c]
            if any(p is True for p in parts):
                return True
            if all(p is False for p in parts):
                return False
            return CondV(("isinstance", x, c), False)
        if isinstance(c, ClassSR):
            # type(x) is checked first; the spoofed __class__ of a proxy is never SandboxResult's subclass
            if isinstance(x, Prox):
                return True
            if isinstance(x, Atom) or not isinstance(x, V):
                return False
            if isinstance(x, (OpRes, ListV, NotImpl)):
                return False if not isinstance(x, OpRes) else CondV(("isinstance", x, c), False)
            raise Unknown("isinstance(%r, SandboxResult)" % (x,))
        if isinstance(c, Builtin):
            if isinstance(x, (Atom, OpRes, Prox)):
                return CondV(("isinstance", x, c), False)
            if not isinstance(x, V) and c.name in ("str", "int", "float", "bool", "complex", "tuple", "bytes"):
                return isinstance(x, {"str": str, "int": int, "float": float, "bool": bool, "complex": complex,
                                      "tuple": tuple, "bytes": bytes}[c.name])
        raise Unknown("isinstance(%r, %r)" % (x, c))

    def hasattr_(self, x, name):
        sem = self.sem
        if isinstance(x, Prox):
            if (name in sem["inner"] or name in sem["actual_class"] or name in sem["meta"] or name == "__class__"
                    or (name in sem["methods"] and name in self.methods)):
                return True
            return CondV(("hasattr", x, name), False)
        if isinstance(x, (Atom, OpRes)):
            if isinstance(x, Atom) and name in sem.get("plain_lacks", ()):
                return False            # a plain student value is not a proxy (measured on plain objects)
            return CondV(("hasattr", x, name), False)
        raise Unknown("hasattr(%r)" % (x,))

    # ---- statements ------------------------------------------------------------------------------------------
    def bind(self, target, val, env):
        if isinstance(target, ast.Name):
            env[target.id] = val
        elif isinstance(target, (ast.Tuple, ast.List)):
            if any(isinstance(e, ast.Starred) for e in target.elts):
                raise Unknown("starred assignment")
            items = self.as_items(val)
            if len(items) != len(target.elts):
                raise Unknown("unpacking")
            for e, x in zip(target.elts, items):
                self.bind(e, x, env)
        else:
            raise Unknown("assignment target %s" % type(target).__name__)

    def run_block(self, stmts, env, st, depth):
        """yield (signal, value, env, st)"""
        if not stmts:
            yield FALL, None, env, st
            return
        head, rest = stmts[0], stmts[1:]
        for sig, val, env1, st1 in self.run_stmt(head, env, st, depth):
            if sig == FALL:
                yield from self.run_block(rest, env1, st1, depth)
            else:
                yield sig, val, env1, st1

    def run_stmt(self, s, env, st, depth):
        self.paths += 1
        if self.paths > MAX_PATHS * 40:
            raise Unknown("too many paths")
        if isinstance(s, ast.Expr):
            v = s.value
            if isinstance(v, ast.Constant):
                yield FALL, None, env, st
            elif (isinstance(v, ast.Call) and isinstance(v.func, ast.Attribute) and v.func.attr in ("append", "extend")
                  and isinstance(v.func.value, ast.Name) and isinstance(env.get(v.func.value.id), ListV)
                  and len(v.args) == 1 and not v.keywords):
                lst = v.func.value.id
                for x, st1 in self.ev(v.args[0], env, st, depth):
                    env1 = dict(env)
                    add = (x,) if v.func.attr == "append" else tuple(self.as_items(x))
                    env1[lst] = ListV(env[lst].items + add)
                    yield FALL, None, env1, st1
            else:
                for _, st1 in self.ev(v, env, st, depth):
                    yield FALL, None, env, st1
        elif isinstance(s, (ast.Assign, ast.AnnAssign)):
            targets = s.targets if isinstance(s, ast.Assign) else [s.target]
            if s.value is None:
                yield FALL, None, env, st
                return
            for v, st1 in self.ev(s.value, env, st, depth):
                env1 = dict(env)
                for t in targets:
                    self.bind(t, v, env1)
                yield FALL, None, env1, st1
        elif isinstance(s, ast.AugAssign):
            if not (isinstance(s.target, ast.Name) and isinstance(s.op, ast.Add)
                    and isinstance(env.get(s.target.id), (ListV, tuple))):
                raise Unknown("augmented assignment")
            cur = env[s.target.id]
            for v, st1 in self.ev(s.value, env, st, depth):
                env1 = dict(env)
                items = tuple(self.as_items(cur)) + tuple(self.as_items(v))
                env1[s.target.id] = ListV(items) if isinstance(cur, ListV) else items
                yield FALL, None, env1, st1
        elif isinstance(s, ast.Return):
            if s.value is None:
                yield RET, None, env, st
            else:
                for v, st1 in self.ev(s.value, env, st, depth):
                    yield RET, v, env, st1
        elif isinstance(s, ast.If):
            for c, st1 in self.ev(s.test, env, st, depth):
                for b, st2 in self.truth(c, st1):
                    yield from self.run_block(s.body if b else s.orelse, dict(env), st2, depth)
        elif isinstance(s, ast.For):
            if s.orelse or any(isinstance(x, (ast.Break, ast.Continue)) for x in ast.walk(s)):
                raise Unknown("loop with break/continue/else")
            for seq, st1 in self.ev(s.iter, env, st, depth):
                yield from self.run_loop(s, self.as_items(seq), dict(env), st1, depth)
        elif isinstance(s, ast.Pass):
            yield FALL, None, env, st
        elif isinstance(s, ast.FunctionDef):
            env1 = dict(env)
            env1[s.name] = self.make_function(s, env, freeze(env), depth)
            yield FALL, None, env1, st
        elif isinstance(s, ast.Try) and not s.handlers and not s.orelse:
            # try/finally: the body, then the final block on every path that did not raise
            for sig, val, env1, st1 in self.run_block(s.body, dict(env), st, depth):
                for sig2, val2, env2, st2 in self.run_block(s.finalbody, env1, st1, depth):
                    if sig2 == FALL:
                        yield sig, val, env2, st2
                    else:
                        yield sig2, val2, env2, st2
        elif isinstance(s, ast.Raise):
            raise Definite("a reachable `raise` statement")
        else:
            raise Unknown("statement %s" % type(s).__name__)

    def run_loop(self, s, items, env, st, depth):
        if not items:
            yield FALL, None, env, st
            return
        env = dict(env)
        self.bind(s.target, items[0], env)
        for sig, val, env1, st1 in self.run_block(s.body, env, st, depth):
            if sig == FALL:
                yield from self.run_loop(s, items[1:], env1, st1, depth)
            else:
                yield sig, val, env1, st1

    # ---- running one function in one scenario ----------------------------------------------------------------
    def run(self, fn, args):
        """-> [(return value, St)]"""
        self.paths = 0
        out = []
        for v, st in self.call_func(fn, list(args), {}, St(), 0):
            out.append((v, st))
            if len(out) > MAX_PATHS:
                raise Unknown("too many paths")
        return out


def freeze(env):
    return tuple(sorted(env.items(), key=lambda kv: kv[0]))


# ----------------------------------------------------------------------------------------------------------
# from the paths of a scenario to a behaviour, from the behaviours of all scenarios to a plan

S_ATOM = Atom("S")
O_ATOM = Atom("O")
K_ATOM = Atom("K")
SELF_P = Prox(S_ATOM, "self")
O_PROX = Prox(O_ATOM, "other")
K_PROX = Prox(K_ATOM, "extra")
ROLE = {S_ATOM: "self", O_ATOM: "other", O_PROX: "other!", K_ATOM: "extra", K_PROX: "extra!", SELF_P: "self!"}


def role(x):
    if isinstance(x, tuple):
        return tuple(role(y) for y in x)
    if isinstance(x, V):
        if x in ROLE:
            return ROLE[x]
        raise Definite("operates on %r" % (x,))
    return ("const", repr(x))


def norm_effect(e):
    if e[0] in ("infix", "method", "method1", "builtin"):
        return (e[0], e[1]) + tuple(role(a) for a in e[2:])
    return (e[0],) + tuple(role(a) for a in e[1:])


def drop_infeasible(paths):
    """An operator (`a + b`, `a < b`, divmod, pow, `in`) never EVALUATES to NotImplemented - CPython turns a declining
    dunder into the reflected call or a TypeError - so a path that assumes it did is dead code."""
    out = []
    for ret, st in paths:
        dead = False
        for key, b in st.conds:
            if key[0] == "isNI" and b and isinstance(key[1], OpRes) and key[1].idx < len(st.effects):
                if st.effects[key[1].idx][0] in ("infix", "pow3", "isIn"):
                    dead = True
        if not dead:
            out.append((ret, st))
    return out


def reify_truth(paths):
    """`True if v else False`, `if v: return True / return False`, `not not v` all return bool(v): a returned
    undecided truth value becomes the result of the `bool` operation it tests, and two paths that only differ in
    that test and return True / False accordingly are one path returning it."""
    out = []
    for ret, st in paths:
        if isinstance(ret, CondV) and ret.key[0] == "truth" and isinstance(ret.key[1], OpRes):
            if ret.neg:
                raise Definite("returns the negated truth of a value")
            ret = ret.key[1]
        out.append((ret, st))
    changed = True
    while changed:
        changed = False
        for i, (r1, s1) in enumerate(out):
            for j, (r2, s2) in enumerate(out):
                if i >= j or s1.effects != s2.effects or not (isinstance(r1, bool) and isinstance(r2, bool)):
                    continue
                d1 = [c for c in s1.conds if c not in s2.conds]
                d2 = [c for c in s2.conds if c not in s1.conds]
                if len(d1) == 1 and len(d2) == 1 and d1[0][0] == d2[0][0] and d1[0][0][0] == "truth":
                    if d1[0][1] == r1 and d2[0][1] == r2:
                        key = d1[0][0]
                        merged = (key[1], St(s1.effects, tuple(c for c in s1.conds if c[0] != key)))
                        out = [x for k, x in enumerate(out) if k not in (i, j)] + [merged]
                        changed = True
                        break
                    raise Definite("returns the negated truth of a value")
            if changed:
                break
    return out


def behaviour(paths):
    """All paths of one scenario -> (first effect, fallback effect or None, prints, wrap)."""
    if not paths:
        raise Definite("no path returns")
    paths = reify_truth(drop_infeasible(paths))
    summaries = []
    for ret, st in paths:
        effs = [norm_effect(e) for e in st.effects]
        prints = any(e[0] == "print" for e in effs)
        effs = [(i, e) for i, e in enumerate(effs) if e[0] != "print"]
        if not effs:
            raise Definite("a path applies no operation to the wrapped value")
        last_idx = effs[-1][0]
        if isinstance(ret, OpRes) and ret.idx == last_idx:
            wrap = False
        elif isinstance(ret, Prox) and ret.origin == "new" and isinstance(ret.inner, OpRes) and ret.inner.idx == last_idx:
            wrap = True
        else:
            raise Definite("a path returns %r, not (a proxy of) the operation's result" % (ret,))
        first_idx = effs[0][0]
        ni = None
        for key, b in st.conds:
            if key == ("isNI", OpRes(first_idx)):
                ni = b
        summaries.append((tuple(e for _, e in effs), prints, wrap, ni))
    distinct = sorted(set(summaries), key=repr)
    if len({(e, p, w) for e, p, w, _ in distinct}) == 1:
        effs, prints, wrap, _ = distinct[0]
        if len(effs) != 1:
            raise Definite("%d operations in one call" % len(effs))
        return effs[0], None, prints, wrap
    # by-hand dispatch: E1; if result is NotImplemented: E2
    plain = {(e, p, w) for e, p, w, ni in distinct if ni is False}
    retry = {(e, p, w) for e, p, w, ni in distinct if ni is True}
    rest = [x for x in distinct if x[3] is None]
    if not rest and len(plain) == 1 and len(retry) == 1:
        (e1, p1, w1), (e2, p2, w2) = next(iter(plain)), next(iter(retry))
        if len(e1) == 1 and len(e2) == 2 and e2[0] == e1[0] and w1 == w2:
            return e1[0], e2[1], (p1 or p2), w1
    raise Definite("paths differ: %s" % " | ".join(sorted({repr(e) for e, _, _, _ in distinct}))[:300])


def other_mark(eff):
    """which form of the other operand the effect mentions: {'other'}, {'other!'}, both or none"""
    out = set()

    def walk(x):
        if isinstance(x, tuple):
            for y in x:
                walk(y)
        elif x in ("other", "other!"):
            out.add(x)
    walk(eff[1:])
    return out


def to_expr(eff, name, extras_given):
    """normalised effect -> (Expr, facts)"""
    kind = eff[0]
    if kind == "infix":
        _, op, a, b = eff
        if {a, b} != {"self", "other"}:
            raise Definite("operands of %s are %r, %r" % (op, a, b))
        return ("infix", op, a, b), {}
    if kind == "pow3":
        _, a, b, m = eff
        if {a, b} != {"self", "other"}:
            raise Definite("operands of pow are %r, %r" % (a, b))
        return ("infix", "pow", a, b), {"modulus": m}
    if kind == "method":
        _, d, a, b = eff
        if {a, b} != {"self", "other"}:
            raise Definite("operands of %s are %r, %r" % (d, a, b))
        return ("method", d, a, b), {}
    if kind in ("method1", "builtin"):
        _, d, a, extra = eff
        if a != "self":
            raise Definite("%s applied to %r" % (d, a))
        if tuple(extra) != tuple(extras_given):
            raise Definite("further arguments %r passed on as %r" % (extras_given, extra))
        return (kind, d), {}
    if kind == "subscript":
        _, a, b = eff
        if (a, b) != ("self", "other"):
            raise Definite("subscript %r[%r]" % (a, b))
        return ("subscript",), {}
    if kind == "isIn":
        _, needle, cont = eff
        if (needle, cont) != ("other", "self"):
            raise Definite("%r in %r" % (needle, cont))
        return ("isIn",), {}
    if kind == "missingName":
        return ("missingName",), {}
    raise Definite("effect %r" % (eff,))


def signature_of(node, binarylike):
    """kind of the parameters after self (and other): None | 'required' | 'optional'"""
    a = node.args
    if a.kwonlyargs or a.kwarg or a.posonlyargs:
        raise Unknown("signature")
    names = [x.arg for x in a.args]
    need = 2 if binarylike else 1
    if len(names) < need:
        raise Unknown("signature")
    more = names[need:]
    n_defaults = len(a.defaults)
    if n_defaults > len(more):
        raise Unknown("signature: default for an operand")
    required = more[:len(more) - n_defaults]
    optional = more[len(more) - n_defaults:]
    if len(required) + len(optional) + (1 if a.vararg else 0) > 1:
        raise Unknown("signature: several further parameters")
    if required:
        return "required"
    if optional or a.vararg:
        return "optional"
    return None


def read_method(reader, fn, name):
    """-> (Plan as a tuple (first, fallback, prints, wrap, unwrap_other), facts)"""
    binarylike = name in BINARY_DUNDERS or name in ("__getitem__", "__contains__")
    more = signature_of(fn.node, binarylike)
    other_variants = [("plain", O_ATOM), ("proxy", O_PROX)] if binarylike else [(None, None)]
    extra_variants = {None: [()], "required": [(K_ATOM,)], "optional": [(), (K_ATOM,)]}[more]
    if name == "__pow__" and more is not None:
        extra_variants = extra_variants + [(K_PROX,)]
    result = None
    unwrap = None
    facts = {}
    modulus_seen = []
    for extras in extra_variants:
        for oname, oval in other_variants:
            args = [SELF_P] + ([oval] if binarylike else []) + list(extras)
            eff, fb, prints, wrap = behaviour(reader.run(fn, args))
            marks = other_mark(eff) | (other_mark(fb) if fb else set())
            if oname == "plain" and "other!" in marks:
                raise Definite("internal: proxy mark in the plain scenario")
            if oname == "proxy":
                if marks == {"other", "other!"}:
                    raise Definite("the proxied other operand is used both wrapped and unwrapped")
                u = marks == {"other"}
                if unwrap is not None and unwrap != u and marks:
                    raise Definite("the other operand is unwrapped in one scenario and not in another")
                if marks:
                    unwrap = u
            given = tuple("extra" for _ in extras)
            eff_s, fb_s = strip_mark_keep_extra(eff), (strip_mark_keep_extra(fb) if fb else None)
            first, f1 = to_expr(eff_s, name, given)
            fallback = to_expr(fb_s, name, given)[0] if fb_s else None
            if extras and name == "__pow__":
                modulus_seen.append((extras[0], f1.get("modulus")))
            elif "modulus" in f1:
                raise Definite("three-argument pow without a modulus parameter")
            here = (first, fallback, prints, wrap)
            if result is None:
                result = here
            elif result != here:
                raise Definite("scenarios differ: %r vs %r" % (result, here))
    if name == "__pow__":
        if not modulus_seen:
            facts["pow_mod"] = False
        elif all(m == "extra" for _, m in modulus_seen):
            facts["pow_mod"] = True
        elif all(m is None for _, m in modulus_seen):
            facts["pow_mod"] = False
        else:
            raise Definite("the modulus reaches pow as %r" % ([m for _, m in modulus_seen],))
    if not binarylike:
        unwrap = False
    elif unwrap is None:
        raise Definite("the other operand is never used")
    return result + (unwrap,), facts


def strip_mark_keep_extra(eff):
    """'other!' -> 'other' (the mark has been turned into unwrapOther); 'extra!' stays (an un-unwrapped modulus is a
    different fact)"""
    def go(x):
        if isinstance(x, tuple):
            return tuple(go(y) for y in x)
        return "other" if x == "other!" else x
    return go(eff)


# ----------------------------------------------------------------------------------------------------------
# flags

def read_spoof(reader):
    fn = reader.methods.get("__getattribute__")
    if fn is None:
        if "__getattribute__" in reader.unread:
            raise Unknown(reader.unread["__getattribute__"])
        return False            # no __getattribute__ at all: nothing answers for __class__ but the real class
    paths = reader.run(fn, [SELF_P, "__class__"])
    rets = {ret for ret, _ in paths}
    for r in rets:
        if isinstance(r, Opaque):
            raise Unknown(r.why)
    return rets == {ClassOf(S_ATOM)}


def read_len_fn(reader):
    f = reader.genv.get("len")
    if not isinstance(f, Func):
        if f is None or f == Builtin("len"):
            return True
        raise Unknown("module-level len is %r" % (f,))
    paths = reader.run(f, [S_ATOM])
    for ret, st in paths:
        if [norm_effect(e) for e in st.effects] != [("builtin", "len", "self", ())] or ret != OpRes(0):
            return False
    return bool(paths)


def combine_flag(what, read, measured, notes):
    """reading: True / False / Unknown exception text; measured: True / False"""
    if isinstance(read, str):
        if measured:
            notes.append("%s: probed (reading cannot follow: %s)" % (what, read))
        return bool(measured)
    if read != bool(measured):
        notes.append("%s: reading says %s, measurement says %s" % (what, read, measured))
        return False
    return read


# ----------------------------------------------------------------------------------------------------------
# Lean text

def lean_expr(e):
    if e[0] in ("infix", "method"):
        return "(.%s .%s .%s .%s)" % e
    if e[0] in ("method1", "builtin"):
        return "(.%s .%s)" % e
    return "." + e[0]


def lean_plan(p):
    first, fallback, prints, wrap, unwrap = p
    return ".plan ⟨%s, %s, %s, %s, %s⟩" % (lean_expr(first), "(some %s)" % lean_expr(fallback) if fallback else "none",
                                           str(prints).lower(), str(wrap).lower(), str(unwrap).lower())


def generate():
    """-> (text of the generated file, info)"""
    import proxy_probe as probe       # imports pedal of the tree under test
    path = os.path.join(REPO, "pedal", "sandbox", "result.py")
    with open(path, encoding="utf-8") as fh:
        src = fh.read()
    tree = ast.parse(src)
    sem = probe.measure_semantics()
    reader = Reader(tree, sem)
    if reader.cls is None:
        raise RuntimeError("class SandboxResult not found")
    entries, notes, probed, ignored = [], [], [], []
    pow_mod = False
    # every family dunder that the class binds (in the source, or - for names bound dynamically - on the real class)
    # (listed in the fixed order of DUNDERS: moving a method does not change the generated file)
    names = [n for n in DUNDERS if n in reader.defined or probe.real_function(n) is not None]
    ignored = [n for n in reader.defined if n.startswith("__") and n.endswith("__") and n not in DUNDERS
               and n != "__getattribute__" and n in reader.methods]
    for name in names:
        plan, flags, why = None, {}, None
        try:
            if name not in reader.methods:
                raise Unknown(reader.unread.get(name, "bound outside the class body"))
            plan, flags = read_method(reader, reader.methods[name], name)
        except Definite as d:
            why = ("definite", str(d))
        except Unknown as u:
            why = ("unknown", str(u))
        except RecursionError:
            why = ("unknown", "recursion")
        except Exception as e:       # noqa  a gap of the reader is not a fact about the code: measure instead
            why = ("unknown", "reader error %s: %s" % (type(e).__name__, e))
        if plan is not None:
            ok, diff = probe.matches(name, probe.Plan(*plan), flags)
            if not ok:
                notes.append("%s: read as %s but the real method behaves differently (%s)" % (name, lean_plan(plan), diff))
                plan = None
        elif why[0] == "definite":
            notes.append("%s: not a forwarding plan: %s" % (name, why[1]))
        else:
            found = probe.classify(name)
            if len(found) == 1:
                p, flags = found[0]
                plan = tuple(p)
                probed.append("%s (reading cannot follow: %s)" % (name, why[1]))
            else:
                notes.append("%s: reading cannot follow (%s); the measurement fits %d plans" % (name, why[1], len(found)))
        if plan is not None and name == "__pow__":
            pow_mod = bool(flags.get("pow_mod"))
        entries.append((name, lean_plan(plan) if plan is not None else ".opaque"))

    try:
        spoof_read = read_spoof(reader)
    except Exception as e:       # noqa  (Unknown, Definite, RecursionError, reader gaps)
        spoof_read = str(e) or type(e).__name__
    spoof = combine_flag("spoofsClass", spoof_read, sem["spoof"] is True, notes)
    try:
        len_read = read_len_fn(reader)
    except Exception as e:       # noqa
        len_read = str(e) or type(e).__name__
    len_ok = combine_flag("lenFnDelegates", len_read, probe.measure_len_fn(), notes)

    lines = [
        "import PedalModel.Proxy",
        "/- GENERATED by harness/translate_proxy.py from pedal/sandbox/result.py of the tree under test. Do not edit. -/",
        "namespace Pedal.Gen.Proxy",
        "open Pedal.Proxy",
        "",
        "def plans : List (Dunder × PlanEntry) := [",
    ]
    lines += ["  (.%s, %s)%s  -- %s" % (DUNDERS[n], e, "," if i + 1 < len(entries) else "", n)
              for i, (n, e) in enumerate(entries)]
    lines += [
        "]",
        "",
        "def proxyClass : ProxyClass :=",
        "  { plans := plans, spoofsClass := %s, powForwardsModulo := %s, lenFnDelegates := %s }" % (
            str(spoof).lower(), str(pow_mod).lower(), str(len_ok).lower()),
        "",
        "-- not part of the C16 families (not modelled): " + ", ".join(ignored),
    ]
    lines += ["-- opaque: " + n.replace("\n", " ") for n in notes]
    lines += ["-- probed: " + n.replace("\n", " ") for n in probed]
    lines += ["", "end Pedal.Gen.Proxy", ""]
    out = "\n".join(lines)
    return out, {"file": "PedalModel/Gen/ProxyPlans.lean", "sha1": hashlib.sha1(out.encode()).hexdigest()[:12],
                 "opaque": notes, "probed": probed, "methods": len(entries)}


def translate():
    out, info = generate()
    info["changed"] = write_if_changed(os.path.join(LEAN_DIR, "PedalModel", "Gen", "ProxyPlans.lean"), out)
    return info


if __name__ == "__main__":
    import json
    import sys
    if "--dry" in sys.argv:         # print what would be generated, write nothing
        text, info = generate()
        print(text)
        print(json.dumps(info, indent=1))
    else:
        print(json.dumps(translate(), indent=1))

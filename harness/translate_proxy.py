"""
Regenerates lean/PedalModel/Gen/ProxyPlans.lean from pedal/sandbox/result.py of the tree under test.

Every method of `SandboxResult` whose name is one of the dunders of the C16 families is read from the AST into a
forwarding `Plan` (PedalModel/Proxy.lean): which expression it evaluates on the unwrapped operand(s) (the Python
operator itself / a dunder called by hand / a builtin), an optional fallback taken when that gave NotImplemented,
whether it prints, whether the result is wrapped again, whether a proxied other operand is unwrapped.  A body the
translator does not recognise becomes `PlanEntry.opaque` (the theorems then fail); a dunder that is not defined at
all is simply absent from the table (the protocol model then does what CPython does without it).
Also read: the `__class__` spoof in `__getattribute__`, whether `__pow__` forwards its modulus, and whether the
module-level replacement `len` delegates to the saved builtin.
"""
import ast
import hashlib
import math
import os

from common import LEAN_DIR, REPO, write_if_changed

DUNDERS = {  # python name -> Lean constructor
    "__add__": "add", "__radd__": "radd", "__sub__": "sub", "__rsub__": "rsub", "__mul__": "mul", "__rmul__": "rmul",
    "__matmul__": "matmul", "__rmatmul__": "rmatmul", "__truediv__": "truediv", "__rtruediv__": "rtruediv",
    "__floordiv__": "floordiv", "__rfloordiv__": "rfloordiv", "__mod__": "mod", "__rmod__": "rmod",
    "__divmod__": "divmod", "__rdivmod__": "rdivmod", "__pow__": "pow", "__rpow__": "rpow", "__lshift__": "lshift",
    "__rlshift__": "rlshift", "__rshift__": "rshift", "__rrshift__": "rrshift", "__and__": "and_", "__rand__": "rand",
    "__xor__": "xor", "__rxor__": "rxor", "__or__": "or_", "__ror__": "ror",
    "__lt__": "lt", "__le__": "le", "__gt__": "gt", "__ge__": "ge", "__eq__": "eq", "__ne__": "ne",
    "__neg__": "neg", "__pos__": "pos", "__abs__": "abs", "__invert__": "invert",
    "__len__": "len", "__hash__": "hash", "__bool__": "bool", "__str__": "str", "__repr__": "repr",
    "__format__": "format", "__int__": "int", "__float__": "float", "__complex__": "complex", "__round__": "round",
    "__trunc__": "trunc", "__floor__": "floor", "__ceil__": "ceil", "__index__": "index",
    "__iter__": "iter", "__reversed__": "reversed", "__contains__": "contains", "__getitem__": "getitem",
}
AST_BINOP = {ast.Add: "add", ast.Sub: "sub", ast.Mult: "mul", ast.MatMult: "matmul", ast.Div: "truediv",
             ast.FloorDiv: "floordiv", ast.Mod: "mod", ast.Pow: "pow", ast.LShift: "lshift", ast.RShift: "rshift",
             ast.BitAnd: "and_", ast.BitXor: "xor", ast.BitOr: "or_"}
AST_CMP = {ast.Lt: "lt", ast.LtE: "le", ast.Gt: "gt", ast.GtE: "ge", ast.Eq: "eq", ast.NotEq: "ne"}
AST_UNARY = {ast.USub: "neg", ast.UAdd: "pos", ast.Invert: "invert"}
BUILTIN_CONV = {"repr": "repr", "str": "str", "hash": "hash", "bool": "bool", "int": "int", "float": "float",
                "complex": "complex", "_original_len": "len", "iter": "iter", "reversed": "reversed", "abs": "abs",
                "format": "format", "round": "round"}
MATH_CONV = {"trunc": "trunc", "floor": "floor", "ceil": "ceil"}


class Unknown(Exception):
    pass


def is_name(node, name):
    return isinstance(node, ast.Name) and node.id == name


def is_self_value(node):
    return isinstance(node, ast.Attribute) and node.attr == "value" and is_name(node.value, "self")


def clone_arg(node):
    """`self._clone_this_result(X)` -> X, else None"""
    if (isinstance(node, ast.Call) and isinstance(node.func, ast.Attribute) and node.func.attr == "_clone_this_result"
            and is_name(node.func.value, "self") and len(node.args) == 1 and not node.keywords):
        return node.args[0]
    return None


def strip_doc(body):
    if body and isinstance(body[0], ast.Expr) and isinstance(body[0].value, ast.Constant) and isinstance(body[0].value.value, str):
        return body[1:]
    return body


def is_print(stmt):
    return (isinstance(stmt, ast.Expr) and isinstance(stmt.value, ast.Call) and is_name(stmt.value.func, "print"))


class State:
    def __init__(self):
        self.pow_forwards_modulo = False


def bin_expr(node, env, st, fn):
    """An expression over the two unwrapped operands.  env: local name -> 'self' | 'other'."""
    def arg(n):
        if isinstance(n, ast.Name) and n.id in env:
            return env[n.id]
        raise Unknown("operand %s" % ast.dump(n)[:60])
    if isinstance(node, ast.BinOp) and type(node.op) in AST_BINOP:
        return "(.infix .%s .%s .%s)" % (AST_BINOP[type(node.op)], arg(node.left), arg(node.right))
    if isinstance(node, ast.Call) and not node.keywords:
        if is_name(node.func, "divmod") and len(node.args) == 2:
            return "(.infix .divmod .%s .%s)" % (arg(node.args[0]), arg(node.args[1]))
        if is_name(node.func, "pow") and len(node.args) >= 2:
            extra = node.args[2:]
            if extra:
                vararg = fn.args.vararg.arg if fn.args.vararg else None
                ok = (len(extra) == 1 and isinstance(extra[0], ast.Starred) and vararg is not None
                      and any(isinstance(n, ast.Name) and n.id == vararg for n in ast.walk(extra[0])))
                if not ok:
                    raise Unknown("pow extra arguments")
                st.pow_forwards_modulo = True
            return "(.infix .pow .%s .%s)" % (arg(node.args[0]), arg(node.args[1]))
        if isinstance(node.func, ast.Attribute) and node.func.attr in DUNDERS and len(node.args) == 1:
            return "(.method .%s .%s .%s)" % (DUNDERS[node.func.attr], arg(node.func.value), arg(node.args[0]))
    raise Unknown("expression %s" % ast.dump(node)[:80])


def plan(first, fallback="none", prints=False, wrap=True, unwrap_other=True):
    return ".plan ⟨%s, %s, %s, %s, %s⟩" % (first, fallback, str(prints).lower(), str(wrap).lower(),
                                           str(unwrap_other).lower())


def translate_binary(fn, st):
    body = strip_doc(fn.body)
    args = [a.arg for a in fn.args.args]
    if len(args) != 2 or args[0] != "self":
        raise Unknown("signature")
    other = args[1]
    # comparison shape: if isinstance(other, SandboxResult): return self.value OP other.value ; return self.value OP other
    if (len(body) == 2 and isinstance(body[0], ast.If) and not body[0].orelse and len(body[0].body) == 1
            and isinstance(body[0].body[0], ast.Return) and isinstance(body[1], ast.Return)):
        t = body[0].test
        if (isinstance(t, ast.Call) and is_name(t.func, "isinstance") and len(t.args) == 2 and is_name(t.args[0], other)
                and is_name(t.args[1], "SandboxResult")):
            a, b = body[0].body[0].value, body[1].value
            if (isinstance(a, ast.Compare) and isinstance(b, ast.Compare) and len(a.ops) == 1 and len(b.ops) == 1
                    and type(a.ops[0]) is type(b.ops[0]) and type(a.ops[0]) in AST_CMP
                    and is_self_value(a.left) and is_self_value(b.left) and is_name(b.comparators[0], other)
                    and isinstance(a.comparators[0], ast.Attribute) and a.comparators[0].attr == "value"
                    and is_name(a.comparators[0].value, other)):
                return plan("(.infix .%s .self .other)" % AST_CMP[type(a.ops[0])], wrap=False)
        raise Unknown("if/return shape")
    # left, right = _unwrap_value_pair(self, other)
    if not body or not isinstance(body[0], ast.Assign):
        raise Unknown("no unwrap")
    a0 = body[0]
    if not (len(a0.targets) == 1 and isinstance(a0.targets[0], ast.Tuple) and len(a0.targets[0].elts) == 2
            and all(isinstance(e, ast.Name) for e in a0.targets[0].elts)
            and isinstance(a0.value, ast.Call) and is_name(a0.value.func, "_unwrap_value_pair")
            and len(a0.value.args) == 2 and is_name(a0.value.args[0], "self") and is_name(a0.value.args[1], other)):
        raise Unknown("unwrap shape")
    env = {a0.targets[0].elts[0].id: "self", a0.targets[0].elts[1].id: "other"}
    rest = body[1:]
    if len(rest) == 1 and isinstance(rest[0], ast.Return):
        inner = clone_arg(rest[0].value)
        if inner is not None:
            return plan(bin_expr(inner, env, st, fn), wrap=True)
        return plan(bin_expr(rest[0].value, env, st, fn), wrap=False)
    # result = E1; [print]; if result == NotImplemented: result = E2; [print]; return clone(result)
    prints = any(is_print(s) for s in rest)
    rest = [s for s in rest if not is_print(s)]
    if (len(rest) == 3 and isinstance(rest[0], ast.Assign) and len(rest[0].targets) == 1
            and isinstance(rest[0].targets[0], ast.Name) and isinstance(rest[1], ast.If) and not rest[1].orelse
            and isinstance(rest[2], ast.Return)):
        res = rest[0].targets[0].id
        t = rest[1].test
        ok_test = (isinstance(t, ast.Compare) and len(t.ops) == 1 and isinstance(t.ops[0], (ast.Eq, ast.Is))
                   and is_name(t.left, res) and is_name(t.comparators[0], "NotImplemented"))
        ib = rest[1].body
        ok_body = (len(ib) == 1 and isinstance(ib[0], ast.Assign) and len(ib[0].targets) == 1 and is_name(ib[0].targets[0], res))
        ret = rest[2].value
        inner = clone_arg(ret)
        if ok_test and ok_body and ((inner is not None and is_name(inner, res)) or is_name(ret, res)):
            return plan(bin_expr(rest[0].value, env, st, fn), "(some %s)" % bin_expr(ib[0].value, env, st, fn),
                        prints=prints, wrap=inner is not None)
    raise Unknown("body shape")


def un_expr(node):
    """An expression over self.value alone -> Lean Expr"""
    if isinstance(node, ast.UnaryOp) and type(node.op) in AST_UNARY and is_self_value(node.operand):
        return "(.builtin .%s)" % AST_UNARY[type(node.op)]
    if isinstance(node, ast.Call) and not node.keywords and node.args and is_self_value(node.args[0]):
        extra = node.args[1:]
        if isinstance(node.func, ast.Name) and node.func.id in BUILTIN_CONV:
            c = BUILTIN_CONV[node.func.id]
            if not extra or (c in ("format", "round") and len(extra) == 1):
                return "(.builtin .%s)" % c
        if isinstance(node.func, ast.Attribute) and is_name(node.func.value, "math") and not extra:
            if not hasattr(math, node.func.attr):
                return ".missingName"
            if node.func.attr in MATH_CONV:
                return "(.builtin .%s)" % MATH_CONV[node.func.attr]
    if (isinstance(node, ast.Call) and not node.keywords and isinstance(node.func, ast.Attribute)
            and node.func.attr in DUNDERS and is_self_value(node.func.value)
            and all(isinstance(a, ast.Starred) for a in node.args)):
        return "(.method1 .%s)" % DUNDERS[node.func.attr]
    raise Unknown("expression %s" % ast.dump(node)[:80])


def translate_unary(fn):
    body = strip_doc(fn.body)
    if len(body) != 1 or not isinstance(body[0], ast.Return) or body[0].value is None:
        raise Unknown("body shape")
    inner = clone_arg(body[0].value)
    if inner is not None:
        return plan(un_expr(inner), wrap=True, unwrap_other=False)
    return plan(un_expr(body[0].value), wrap=False, unwrap_other=False)


def translate_getitem(fn):
    body = strip_doc(fn.body)
    args = [a.arg for a in fn.args.args]
    if len(body) == 1 and isinstance(body[0], ast.Return) and len(args) == 2:
        v = body[0].value
        inner = clone_arg(v)
        node = inner if inner is not None else v
        if isinstance(node, ast.Subscript) and is_self_value(node.value) and is_name(node.slice, args[1]):
            return plan(".subscript", wrap=inner is not None, unwrap_other=False)
    raise Unknown("getitem shape")


def translate_contains(fn):
    body = strip_doc(fn.body)
    args = [a.arg for a in fn.args.args]
    if len(body) == 1 and isinstance(body[0], ast.Return) and len(args) == 2:
        v = body[0].value
        if isinstance(v, ast.Compare) and len(v.ops) == 1 and isinstance(v.ops[0], ast.In) and is_self_value(v.comparators[0]):
            if is_name(v.left, args[1]):
                return plan(".isIn", wrap=False, unwrap_other=False)
            if (isinstance(v.left, ast.Call) and is_name(v.left.func, "unwrap_value") and len(v.left.args) == 1
                    and is_name(v.left.args[0], args[1])):
                return plan(".isIn", wrap=False, unwrap_other=True)
        if (isinstance(v, ast.Call) and isinstance(v.func, ast.Attribute) and v.func.attr == "__contains__"
                and is_self_value(v.func.value) and len(v.args) == 1 and is_name(v.args[0], args[1])):
            return plan("(.method .contains .self .other)", wrap=False, unwrap_other=False)
    raise Unknown("contains shape")


BINARY_DUNDERS = [d for d in DUNDERS if DUNDERS[d] in (
    "add radd sub rsub mul rmul matmul rmatmul truediv rtruediv floordiv rfloordiv mod rmod divmod rdivmod pow rpow "
    "lshift rlshift rshift rrshift and_ rand xor rxor or_ ror lt le gt ge eq ne").split()]


def spoofs_class(fn):
    """`v = object.__getattribute__(self, "value")` ... `if name == "__class__": return v.__class__`"""
    vname = None
    for s in fn.body:
        if (isinstance(s, ast.Assign) and len(s.targets) == 1 and isinstance(s.targets[0], ast.Name)
                and isinstance(s.value, ast.Call) and isinstance(s.value.func, ast.Attribute)
                and s.value.func.attr == "__getattribute__" and is_name(s.value.func.value, "object")
                and len(s.value.args) == 2 and isinstance(s.value.args[1], ast.Constant) and s.value.args[1].value == "value"):
            vname = s.targets[0].id
    if vname is None:
        return False
    attr = fn.args.args[1].arg
    for node in ast.walk(fn):
        if isinstance(node, ast.If):
            t = node.test
            if (isinstance(t, ast.Compare) and len(t.ops) == 1 and isinstance(t.ops[0], ast.Eq) and is_name(t.left, attr)
                    and isinstance(t.comparators[0], ast.Constant) and t.comparators[0].value == "__class__"
                    and len(node.body) == 1 and isinstance(node.body[0], ast.Return)):
                r = node.body[0].value
                if isinstance(r, ast.Attribute) and r.attr == "__class__" and is_name(r.value, vname):
                    # must be the first test of the chain reached for that name
                    return True
    return False


def len_fn_delegates(tree):
    for node in tree.body:
        if isinstance(node, ast.FunctionDef) and node.name == "len":
            last = node.body[-1]
            if isinstance(last, ast.Return) and isinstance(last.value, ast.Call) and is_name(last.value.func, "_original_len"):
                return True
            return False
    return True       # no replacement len at all


def translate():
    path = os.path.join(REPO, "pedal", "sandbox", "result.py")
    with open(path, encoding="utf-8") as fh:
        src = fh.read()
    tree = ast.parse(src)
    cls = next(n for n in tree.body if isinstance(n, ast.ClassDef) and n.name == "SandboxResult")
    st = State()
    entries, notes, ignored = [], [], []
    spoof = False
    for node in cls.body:
        if not isinstance(node, ast.FunctionDef):
            continue
        if node.name == "__getattribute__":
            spoof = spoofs_class(node)
            continue
        if node.name not in DUNDERS:
            if node.name.startswith("__"):
                ignored.append(node.name)
            continue
        try:
            if node.name in BINARY_DUNDERS:
                e = translate_binary(node, st)
            elif node.name == "__getitem__":
                e = translate_getitem(node)
            elif node.name == "__contains__":
                e = translate_contains(node)
            else:
                e = translate_unary(node)
        except Unknown as u:
            e = ".opaque"
            notes.append("%s: %s" % (node.name, u))
        entries.append((node.name, e))
    lines = [
        "import PedalModel.Proxy",
        "/- GENERATED by harness/translate_proxy.py from pedal/sandbox/result.py of the tree under test. Do not edit. -/",
        "namespace Pedal.Gen.Proxy",
        "open Pedal.Proxy",
        "",
        "def plans : List (Dunder × PlanEntry) := [",
    ]
    lines += ["  (.%s, %s)%s  -- %s" % (DUNDERS[n], e, "," if i + 1 < len(entries) else "", n)
              for i, (n, e) in enumerate(entries)]
    lines += [
        "]",
        "",
        "def proxyClass : ProxyClass :=",
        "  { plans := plans, spoofsClass := %s, powForwardsModulo := %s, lenFnDelegates := %s }" % (
            str(spoof).lower(), str(st.pow_forwards_modulo).lower(), str(len_fn_delegates(tree)).lower()),
        "",
        "-- not part of the C16 families (not modelled): " + ", ".join(ignored),
    ]
    lines += ["-- opaque: " + n for n in notes]
    lines += ["", "end Pedal.Gen.Proxy", ""]
    out = "\n".join(lines)
    changed = write_if_changed(os.path.join(LEAN_DIR, "PedalModel", "Gen", "ProxyPlans.lean"), out)
    return {"file": "PedalModel/Gen/ProxyPlans.lean", "sha1": hashlib.sha1(out.encode()).hexdigest()[:12],
            "changed": changed, "opaque": notes, "methods": len(entries)}


if __name__ == "__main__":
    print(translate())

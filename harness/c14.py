"""C14 — a time-limit violation yields exactly one timeout report and a usable sandbox."""
import concurrent.futures
import json
import os
import shutil
import subprocess
import sys
import tempfile
import time

from common import GUARD, REPO, VERIF, CorrResult, Failure, parse_kv, run_check, use_repo
use_repo()
from translate_timeout import translate            # noqa: E402

HERE = os.path.dirname(os.path.abspath(__file__))

THEOREMS = [
    "Pedal.Timeout.cfg_fixed",
    "Pedal.Timeout.inv_step",
    "Pedal.Timeout.invd_step",
    "Pedal.Timeout.inv_run",
    "Pedal.Timeout.c14_one_timeout_feedback",
    "Pedal.Timeout.c14_exception_is_timeout",
    "Pedal.Timeout.c14_stacks_clean_after",
    "Pedal.Timeout.c14_next_run_unaffected",
    "Pedal.Timeout.c14_nothing_escapes",
    "Pedal.Timeout.c14_grader_waits_only_for_finalization",
    "Pedal.Timeout.c14_grader_progress",
    "Pedal.Timeout.c14_finalization_is_short",
    "Pedal.Timeout.c14_pinned_counterexample",
    "Pedal.Timeout.c14_pinned_late_pop",
    "Pedal.Timeout.c14_intolerant_terminate_escapes",
    "Pedal.Timeout.c14_surviving_printer_pollutes",
]
NOTES = [
    "the theorems hold for EVERY schedule of the abstract two-thread machine (each list operation of the real "
    "handlers is one atomic step); what ties the machine to the code: three protocol facts computed in Lean from "
    "decision trees of timeout() / _stop_mocking / the TimeoutError handler (read from the AST with helpers inlined "
    "and locals followed, and measured on instrumented objects as fallback and cross-check), one observed on the "
    "imported module (terminate() of an ended thread), and real runs under schedules "
    "forced through the guarded hooks at 8 coarse placements of the student "
    "thread's finalization (finer interleavings cannot be forced on CPython and are covered by the theorems only)",
    "assumed, not modelled: the student thread's _execute prologue completes before the time limit; preemption "
    "inside C code; a student loop that never reaches a bytecode boundary other than by blocking; delivery of the "
    "async SystemExit inside pedal's own finalization (excluded by the claim protocol: it is posted only after the "
    "grader won the claim)",
    "the wall-clock bound is runtime: the model only proves the grader blocks on the student thread solely while "
    "that thread runs pedal's own loop-free finalization; on the real code a watchdog samples every 0.1 s whether the "
    "grader is blocked inside pedal while the student thread executes student code (more than limit + 2.5 s of such "
    "samples = failure); elapsed wall time is recorded but never judged",
    "sys.stdout and the student namespace are process-global: a thread that swallows the termination keeps "
    "mutating sandbox.data, and if it also prints it writes into later executions' buffers "
    "(c14_surviving_printer_pollutes, recorded as an open finding); c14_next_run_unaffected excludes exactly that",
    "the next execution E2 is modelled as an unthreaded run(); real runs also use a threaded E2 that ends by itself "
    "(its own thread and claim) and must look exactly the same",
]

EXITING = ["busy", "prints", "swallow_finish", "swallow_raise"]
POSITIONS = ["before_handler", "after_return", "during_next", "after_next", "free"]
GATED = ["gate_finish", "gate_raise"]
LATE_POSITIONS = ["after_return", "during_next", "after_next"]    # the abandoned thread finalizes after run() returned
NEVER = ["swallow", "swallowassign", "lock"]
ORDINARY = ["excloop", "excloopprint"]     # loops inside `except Exception`: the termination must get through

PROG_FLAGS = {  # prints swallows blocked
    "busy": "000", "prints": "100", "excloop": "000", "excloopprint": "100", "swallow": "010", "swallowassign": "010", "swallowprint": "110", "lock": "001",
    "swallow_finish": "110", "swallow_raise": "110", "gate_finish": "100", "gate_raise": "100",
}


def all_scenarios(limit):
    out = []
    for p in EXITING:
        for pos in POSITIONS:
            out.append({"program": p, "position": pos, "limit": limit})
    for p in GATED:
        for pos in ("claim_first", "lose_race", "dies_at_claim"):
            out.append({"program": p, "position": pos, "limit": limit})
    for p in NEVER + ORDINARY:
        out.append({"program": p, "position": "free", "limit": limit})
    out.append({"program": "swallowprint", "position": "free", "limit": limit})
    return out


# --------------------------------------------------------------------------
# real runs (one fresh process per scenario, several at a time)

PROCESS_CAP = 30      # seconds; a scenario process normally takes 1-3 s
PHASE_BUDGET = {"quick": 38, "thorough": 400}     # seconds for all real runs of a tier (hard limits: 60 s / 10 min)


def run_one(sc, tmpdir, idx, deadline=None):
    """One scenario in a fresh process.  The process not finishing in time says nothing about pedal (the machine
    may simply be busy): that is `inconclusive`, never a failure - a grader that really is stuck waiting for student
    code is recognised inside the process by sampling where the threads are (see timeout_scenario.py)."""
    out = os.path.join(tmpdir, "obs%d.json" % idx)
    env = dict(os.environ)
    env[GUARD] = "1"
    env["PYTHONPATH"] = HERE + os.pathsep + REPO
    cmd = [sys.executable, "-X", "utf8", "-W", "ignore", os.path.join(HERE, "timeout_scenario.py"), json.dumps(sc), out]
    err = ""
    t_start = time.time()
    for attempt in (0, 1):
        cap = PROCESS_CAP if deadline is None else min(PROCESS_CAP, deadline - time.time())
        if cap < 1:
            return {"scenario": sc, "inconclusive": "not run: the tier's time budget for real runs was used up"}
        try:
            p = subprocess.run(cmd, env=env, stdout=subprocess.DEVNULL, stderr=subprocess.PIPE, timeout=cap)
            err = p.stderr.decode("utf-8", "replace")[-1500:]
        except subprocess.TimeoutExpired:
            return {"scenario": sc, "inconclusive": "scenario process did not finish within %d s" % cap}
        if os.path.exists(out):
            with open(out) as fh:
                o = json.load(fh)
            o["process_wall_s"] = round(time.time() - t_start, 2)
            return o
    return {"scenario": sc, "crashed": True, "stderr": err}


def inconclusive(o):
    """why this run says nothing either way (None: it is a usable observation)"""
    if o.get("inconclusive"):
        return o["inconclusive"]
    if o.get("stuck"):
        return None
    if o.get("notes"):
        return "; ".join(o["notes"])
    return None


def run_real(scenarios, tier="quick"):
    tmpdir = tempfile.mkdtemp(prefix="c14_run_")
    deadline = time.time() + PHASE_BUDGET[tier]
    try:
        with concurrent.futures.ThreadPoolExecutor(max_workers=6) as ex:
            futs = [ex.submit(run_one, sc, tmpdir, i, deadline) for i, sc in enumerate(scenarios)]
            obs = [f.result() for f in futs]
        # one more try, two at a time, for the runs a busy machine spoiled
        again = [i for i, o in enumerate(obs) if not o.get("crashed") and inconclusive(o)]
        if 0 < len(again) <= 4:     # (many spoiled runs = something systematic: trying again only costs time)
            with concurrent.futures.ThreadPoolExecutor(max_workers=2) as ex:
                futs = [(i, ex.submit(run_one, scenarios[i], tmpdir, 1000 + i, deadline)) for i in again]
                for i, f in futs:
                    o = f.result()
                    if not o.get("crashed"):
                        o["retried_after"] = inconclusive(obs[i])
                        obs[i] = o
        return obs
    finally:
        shutil.rmtree(tmpdir, ignore_errors=True)


# --------------------------------------------------------------------------
# the model's schedule for a forced scenario

def g_path(cfg):
    path = ["join", "check", "term", "hStop"]
    if cfg["pops"]:
        path.append("hPop")
    path.append("hCap")
    if cfg["bumps"]:
        path.append("hBump")
    return path + ["ret", "n0", "nPush", "nPatch", "nW1", "nW2", "nStop", "nPop", "nBump"]


def schedule(sc, cfg):
    """-> (acts string, forced?)  None when the scenario has no deterministic model counterpart."""
    prog, pos = sc["program"], sc["position"]
    path = g_path(cfg)

    def g_until(pc, frm=0):        # grader steps so that its pc becomes `pc`, having already done `frm` steps
        return "g" * (path.index(pc) - frm)
    rest = "g" * 20
    fin = "w" * 7                  # delivery + finalization of the student thread (extra steps stutter)
    exit_choice = {"swallow_finish": "wf", "swallow_raise": "wr"}.get(prog, "")
    pre = "ww"                     # prologue, one step of student code
    if prog in EXITING:
        t_exit = (exit_choice or "w") + fin
        if pos == "before_handler":
            return pre + g_until("hStop") + t_exit + rest, True
        if pos == "after_return":
            return pre + g_until("n0") + t_exit + rest, True
        if pos == "during_next":
            return pre + g_until("nW2") + t_exit + rest, True
        if pos == "after_next":
            return pre + rest + t_exit, True
        if pos == "free":          # whatever the GIL does: deterministic outcome only under the claim protocol
            return (pre + g_until("n0") + t_exit + rest, True) if cfg["claim"] else None
    if prog in GATED:
        choice = "f" if prog == "gate_finish" else "r"
        if pos == "claim_first":
            if cfg["claim"]:
                return pre + "g" + choice + "www" + "g" + "wwww" + rest, True
            return None            # without the claim the terminate() lands inside pedal's finalization
        if pos == "lose_race":
            if cfg["claim"]:
                return pre + "g" + choice + g_until("n0", 1) + "w" + rest, True
            return None
        if pos == "dies_at_claim":
            # timer, the grader decides to give up (wins the claim), the code ends and the thread is gone, terminate()
            if cfg["claim"] and cfg["tolerant"]:
                return pre + "gg" + choice + "w" + rest, True
            return None            # the AssertionError leaves run(): the oracle's business, no E2 in the model
    if prog in NEVER:
        return pre + g_until("hStop") + "w" + rest, True
    return None


def abstract_toks(s):
    out = []
    for ch in s:
        tok = "T+" if ch == "T" else ch
        if tok == "T+" and out and out[-1] == "T+":
            continue
        out.append(tok)
    return "".join(out)


LABEL_KIND = {"timeout_error": "timeout", "value_error": "student", "runtime_error": "systemexit",
              "system_exit": "systemexit"}
EXC_KIND = {None: "none", "TimeoutError": "timeout", "SystemExit": "systemexit", "ValueError": "student"}


def real_view(obs):
    f = obs["final"]
    view = {
        "excret": EXC_KIND.get(obs["at_return"]["exc"], obs["at_return"]["exc"]),
        "depthret": "%d/%d" % (obs["at_return"]["patch_depth"], obs["at_return"]["stdout_depth"]),
        "excnext": EXC_KIND.get(obs["before_next"]["exc"], obs["before_next"]["exc"]),
        "exc": EXC_KIND.get(f["exc"], f["exc"]),
        "fb": [LABEL_KIND.get(x, x) for x in f["labels"]],
        "patches": f["patch_depth"], "stdouts": f["stdout_depth"], "sysreal": f["sys_stdout_real"],
        "out1": f["e1_output"], "out2": f["e2_output"], "raw": f["raw"],
        "fresh_id": (f["e2_id"] is not None and f["e1_id"] is not None and f["e2_id"] == f["e1_id"] + 1),
        "next": f["next_id"], "tdead": not f["student_alive"],
        "e2escaped": f["e2_escaped"] is not None, "e1escaped": obs["escaped"] is not None,
    }
    if obs["scenario"]["program"] in NEVER:
        # whether a thread that the model treats as running for ever was already past its first statements when
        # the termination arrived decides if it is still alive - scheduling, not the property
        del view["tdead"]
    return view


def model_view(ans):
    head, kv = parse_kv(ans)
    if head != "ok":
        return None
    return {
        "excret": kv["excret"], "depthret": kv["depthret"], "excnext": kv["excnext"], "exc": kv["exc"],
        "fb": [x.split("@")[0] for x in kv["fb"].split(",") if x],
        "patches": int(kv["patches"]), "stdouts": int(kv["stdouts"]), "sysreal": kv["sysreal"] == "1",
        "out1": abstract_toks(kv["out1"]), "out2": abstract_toks(kv["out2"]), "raw": abstract_toks(kv["raw"]),
        "fresh_id": int(kv["id2"]) == int(kv["id1"]) + 1, "next": int(kv["next"]), "tdead": kv["tdead"] == "1",
        "e2escaped": kv["e2escaped"] == "1", "e1escaped": kv["e1escaped"] == "1", "_done": kv["done"] == "1",
    }


def tree_has_hooks():
    import pedal.sandbox.timeout as tmod
    return hasattr(tmod, "_VERIF_SYNC")


def scenario_list(rng, tier):
    scs = _scenario_list(rng, tier)
    if not tree_has_hooks():
        # nothing can be forced on a tree without the guarded hooks: only the unforced runs make sense
        scs = [sc for sc in scs if sc["position"] == "free"]
    # Unforced runs first: they need no cooperation from the sync hooks, so a change that makes the forced runs hang
    # against the harness (each then uses up its cap, and together the tier's time budget) cannot starve them - and
    # they are the runs that show a grader stuck waiting for a student thread that never ends (seed C14_H).
    scs.sort(key=lambda sc: 0 if sc["position"] == "free" else 1)
    return scs


def _scenario_list(rng, tier):
    scs = all_scenarios(0.25)
    if tier == "thorough":
        scs += [dict(sc, e2="threaded") for sc in all_scenarios(0.2)]
        scs += all_scenarios(rng.choice([0.15, 0.3, 0.35]))
        scs += [dict(sc, e2="threaded") for sc in all_scenarios(rng.choice([0.15, 0.3]))]
        for _ in range(5):          # natural schedules differ from run to run
            for p in EXITING + NEVER + ["swallowprint"]:
                scs.append({"program": p, "position": "free", "limit": rng.choice([0.2, 0.25, 0.3])})
        # the grader empties the execution history (clear_context) before the abandoned thread gets to its finalization
        for p in EXITING:
            for pos in LATE_POSITIONS:
                scs.append({"program": p, "position": pos, "limit": 0.2, "between": "clear"})
        for p in GATED:
            scs.append({"program": p, "position": "lose_race", "limit": 0.2, "between": "clear"})
    else:
        for p in rng.sample(EXITING, 2):
            scs.append({"program": p, "position": "free", "limit": 0.2})
        # the next execution threaded as well (a fresh thread, a fresh claim), at the placements that matter most
        for p, pos in rng.sample([(p, pos) for p in EXITING for pos in ("after_return", "during_next", "after_next")], 3):
            scs.append({"program": p, "position": pos, "limit": 0.2, "e2": "threaded"})
        scs.append({"program": rng.choice(GATED), "position": rng.choice(["claim_first", "lose_race", "dies_at_claim"]),
                    "limit": 0.2, "e2": "threaded"})
        # the grader empties the execution history (clear_context) before the abandoned thread gets to its finalization
        # (while the next execution is under way is where a thread that no longer recognises its execution does harm)
        scs.append({"program": rng.choice(EXITING), "position": "during_next", "limit": 0.2, "between": "clear"})
        scs.append({"program": rng.choice(EXITING), "position": rng.choice(LATE_POSITIONS), "limit": 0.2, "between": "clear",
                    "e2": "threaded"})
    return scs


def correspond(rng, tier, driver):
    res = CorrResult()
    res.rule = ("real = run(threaded=True) of 9 student programs (busy loop, printing loop, loop swallowing the "
                "termination [then finishing / raising / printing], blocking on a lock, code ending exactly at the "
                "limit) under the student thread's finalization FORCED (hooks) before the grader's handler / after "
                "the call returned / during the next run / after it / claiming first / losing the claim race / ending between the grader's decision and "
                "terminate(), each "
                "followed by a next run() (in some runs the grader empties the execution history, clear_context(), "
                "before the abandoned thread is let go; context ids are then reported continued); model = Pedal.Timeout.run on the corresponding schedule; compared: "
                "exception at return and before the next run, stack depths at return and at the end, sys.stdout "
                "restored, runtime feedback kinds, both executions' recorded output (abstracted to who wrote it), "
                "raw output, fresh context id, next id, thread alive; non-trivial = the finalization of the student "
                "thread is placed after the grader's handler")
    ans = driver.ask(["cfg"])[0]
    _, kv = parse_kv(ans)
    cfg = {"claim": kv["claim"] == "1", "pops": kv["pops"] == "1", "bumps": kv["bumps"] == "1",
           "tolerant": kv["tolerant"] == "1"}
    # what Lean computed from the generated trees: verdict per fact (k...), and what each source (reading the AST /
    # measuring the running code) establishes on its own.  `?` = not established / contradictory / half a protocol.
    res.distribution["protocol_facts"] = {k: v for k, v in kv.items() if k not in ("claim", "pops", "bumps", "tolerant")}
    unknown = [k[1:] for k in ("kclaim", "kpops", "kbumps") if kv.get(k) == "?"]
    if unknown:
        # the machine is instantiated with "absent" for such a fact (so the proofs fail); say why, loudly
        res.evaluations += 1
        res.disagreements.append({"case": {"protocol_facts": unknown}, "model": None,
                                  "real": "the translator could not establish: %s (grader side of the claim protocol=%s, student "
                                          "side=%s; AST/probe: grader %s/%s, student %s/%s, pops %s/%s, bumps %s/%s)" % (
                                      ", ".join(unknown), kv.get("kgrader"), kv.get("kstudent"), kv.get("graderast"),
                                      kv.get("graderprobe"), kv.get("studentast"), kv.get("studentprobe"), kv.get("popsast"),
                                      kv.get("popsprobe"), kv.get("bumpsast"), kv.get("bumpsprobe")),
                                  "fields": ["unknown-protocol-fact"]})
    scs = scenario_list(rng, tier)
    obs = run_real(scs, tier)
    res.observations = obs
    reqs, idx, crashed = [], [], []
    res.inconclusive = []
    for i, (sc, o) in enumerate(zip(scs, obs)):
        if o.get("crashed"):
            res.count("skipped:scenario-process-crashed")
            crashed.append({"scenario": sc, "stderr": o.get("stderr", "")[-600:]})
            continue
        if inconclusive(o):
            res.count("skipped:inconclusive")
            res.inconclusive.append({"scenario": sc, "why": inconclusive(o)})
            continue
        if o.get("stuck"):
            res.count("skipped:grader-stuck (judged by the oracle)")
            continue
        if sc["position"] != "free" and (not o.get("have_hooks") or o.get("no_hook")):
            res.count("skipped:no-hooks-in-tree")
            continue
        sch = schedule(sc, cfg)
        if sch is None:
            res.count("skipped:no-deterministic-model-schedule")
            continue
        reqs.append("sched gen %s %s" % (PROG_FLAGS[sc["program"]], sch[0]))
        idx.append(i)
    answers = driver.ask(reqs)
    for i, req, ans in zip(idx, reqs, answers):
        sc, o = scs[i], obs[i]
        real, model = real_view(o), model_view(ans)
        res.evaluations += 1
        res.count("program:" + sc["program"])
        res.count("position:" + sc["position"])
        if sc["position"] in ("after_return", "during_next", "after_next", "lose_race", "dies_at_claim"):
            res.nontrivial.add(json.dumps(sc, sort_keys=True))
        diffs = ["bad-request"] if model is None else [k for k in real if real[k] != model[k]]
        if model is not None and not model["_done"]:
            diffs.append("model-schedule-incomplete")
        if diffs:
            res.disagreements.append({"case": sc, "real": real, "model": model, "fields": diffs, "request": req})
    res.samples = scs[:3]
    walls = sorted(o.get("process_wall_s", 0) for o in obs)
    res.distribution["scenario_process_wall_s"] = {"median": walls[len(walls) // 2], "max": walls[-1]} if walls else {}
    if res.inconclusive:
        res.distribution["inconclusive_runs"] = res.inconclusive[:10]
        print("C14: %d of %d scenario runs were inconclusive (busy machine: a cap expired or the student thread was "
              "starved); they are not compared with the model (the oracle still judges what they show)" % (len(res.inconclusive), len(scs)))
    for c in crashed:
        # the scenario script itself fell over (twice): the check no longer observes what it is meant to observe
        res.evaluations += 1
        res.disagreements.append({"case": c["scenario"], "real": "scenario process crashed: " + c["stderr"][-400:],
                                  "model": None, "fields": ["crashed"]})
    return res


# --------------------------------------------------------------------------
# oracle, written from the property text

def judge(o):
    """-> list of (signature, what)"""
    sc = o["scenario"]
    surv_print = sc["program"] == "swallowprint"
    out = []

    def bad(claim, what):
        sig = {"claim": claim, "survives_and_prints": surv_print}
        if sc["program"] == "swallowassign":
            sig["survives_and_assigns"] = True
        out.append((sig, "%s/%s: %s" % (sc["program"], sc["position"], what)))
    # A run whose forcing did not work out (`notes`) still shows what the sandbox REALLY looked like after a
    # timeout under some schedule - every schedule is in the property's scope - so it is judged like any other;
    # only a run that produced no observation at all says nothing.
    if o.get("crashed") or o.get("inconclusive") or o.get("no_hook"):
        return out
    if o.get("stuck"):
        k = o["stuck"]
        bad("returns", "with a %.2f s limit the grader thread was still blocked in pedal (%s) while the student thread "
                       "was executing student code in %d samples taken %.1f s apart"
            % (float(sc["limit"]), k["grader_blocked_in"], k["samples"], k["sample_period"]))
        return out
    if o["escaped"] is not None:
        bad("returns", "%s escaped run(threaded=True)" % o["escaped"])
    f, r, b = o["final"], o["at_return"], o["before_next"]
    timed_out = r["exc"] == "TimeoutError"
    if sc["program"] not in GATED and not timed_out:
        bad("exception-is-timeout", "sandbox.exception after the call is %s" % r["exc"])
    if timed_out:
        if f["labels"] != ["timeout_error"]:
            bad("one-timeout-feedback", "runtime feedback for the execution: %s" % f["labels"])
        if b["exc"] != "TimeoutError":
            bad("exception-is-timeout", "sandbox.exception before the next run is %s" % b["exc"])
    else:
        if len(f["labels"]) > 1 or "timeout_error" in f["labels"]:
            bad("one-timeout-feedback", "no timeout reported at return but feedback is %s" % f["labels"])
    for name, snap in (("before the next run", b), ("at the end", f)):
        if snap["patch_depth"] != 0 or snap["stdout_depth"] != 0 or not snap["sys_stdout_real"]:
            bad("clean-stacks", "%s: %d patch frames, %d stdout buffers, sys.stdout restored=%s"
                % (name, snap["patch_depth"], snap["stdout_depth"], snap["sys_stdout_real"]))
            break
    if f["e2_escaped"] is not None:
        bad("next-run", "%s escaped the next run" % f["e2_escaped"])
    elif f["e2_output"] != "nx":
        bad("next-output", "the next run's recorded output is %r, it printed 'nx'" % f["e2_output"])
    elif f["x"] != 1 or f["exc"] is not None:
        bad("next-run", "next run: x=%r exception=%s" % (f["x"], f["exc"]))
    elif f["e1_id"] == f["e2_id"]:
        bad("next-run", "the next run reuses context id %r" % f["e1_id"])
    return out


def search(rng, tier, broken, corr):
    info = {"rule": "every real scenario run is judged by the oracle written from the property text: TimeoutError at "
                    "return and until the next run, exactly one runtime feedback (timeout_error), empty stacks and real "
                    "sys.stdout before the next run and at the end, the next run's record == what it printed, x == 1, "
                    "no exception, fresh context id; 'returns within a bounded delay' = the grader is never SEEN (0.1 s samples) "
                    "blocked inside pedal while the student thread executes student code for more than limit + 2.5 s; runs "
                    "whose forcing failed on a busy machine (expired cap, starved student thread) are not compared with the model but "
                    "still judged (what they show did happen); a process that did not finish is no observation",
            "evaluations": 0, "distinct_nontrivial": 0, "samples": []}
    obs = list(getattr(corr, "observations", []) or [])
    if not obs:
        obs = run_real(scenario_list(rng, tier), tier)
    failures, seen = [], set()
    skipped = {}
    for o in obs:
        if o.get("crashed"):
            skipped["scenario-process-crashed"] = skipped.get("scenario-process-crashed", 0) + 1
            continue
        if o.get("inconclusive") or o.get("no_hook"):
            skipped["no-observation"] = skipped.get("no-observation", 0) + 1
            continue
        if o.get("notes"):
            skipped["judged-although-forcing-failed"] = skipped.get("judged-although-forcing-failed", 0) + 1
        info["evaluations"] += 1
        for sig, what in judge(o):
            key = json.dumps(sig, sort_keys=True)
            if key in seen:
                continue
            seen.add(key)
            failures.append(Failure(sig, what, {"scenario": o["scenario"], "observation": o}))
    info["distinct_nontrivial"] = len({json.dumps(o["scenario"], sort_keys=True) for o in obs
                                       if o["scenario"]["position"] != "free" and not o.get("crashed")
                                       and not o.get("inconclusive") and not o.get("no_hook")})
    info["skipped"] = skipped
    return failures, info


def replay(payload):
    sc = payload.get("replay", {}).get("scenario")
    if sc is None:
        print(json.dumps(payload, indent=1)[:4000])
        return 0
    o = run_real([sc])[0]
    print("scenario:", json.dumps(sc))
    print("real observation:", json.dumps(o, indent=1))
    print("oracle verdict:", judge(o))
    return 0


if __name__ == "__main__":
    sys.exit(run_check("C14", proof_modules=["PedalProofs.C14"], theorems=THEOREMS, driver_exe="driver_c14",
                       translate=translate, correspond=correspond, search=search, replay=replay,
                       model_notes=NOTES, refuted_full=[
                           {"statement": "c14_next_run_unaffected without the hypothesis `swallows -> not prints`",
                            "refuted_by": "Pedal.Timeout.c14_surviving_printer_pollutes",
                            "finding": "open: a thread that survives termination and prints writes into later executions' output"}],
                       leanchecker_modules=["PedalProofs.C14"]))

"""C01 — resolver shows the highest-priority eligible feedback and nothing ineligible."""
import sys
import resolver_check as rk
import resolver_common as rc

THEOREMS = [
    "Pedal.Resolver.c01_rank_table_documented",
    "Pedal.Resolver.c01_offsets_within_rank",
    "Pedal.Resolver.c01_suppressed_iff",
    "Pedal.Resolver.c01_resolve_never_raises",
    "Pedal.Resolver.c01_used_is_first_shown",
    "Pedal.Resolver.c01_shown_is_eligible_and_best",
    "Pedal.Resolver.c01_default_when_none_eligible",
    "Pedal.Resolver.c01_priority_rerank",
    "Pedal.Resolver.c01_priority_shift",
    "Pedal.Resolver.c01_no_priority_is_medium",
]
NOTES = [
    "strings are lower-cased with Lean's ASCII String.toLower; generated categories/labels/priorities are ASCII",
    "field values are compared through repr(); the generator uses ints and strs only (no 1 == True == 1.0 aliasing)",
    "pools / Feedback._finalize overrides are modelled as 'no pools'",
    "resolve() may raise only through Score.parse on a score outside the +N/-N/N% grammar (hypothesis of "
    "c01_resolve_never_raises; such scores are outside C01's quantifier and are probed separately in C03)",
]
if __name__ == "__main__":
    sys.exit(rk.make("C01", rc.oracle_c01, THEOREMS, model_notes=NOTES)())

"""C01 — resolver shows the highest-priority eligible feedback and nothing ineligible."""
import sys
import resolver_check as rk
import resolver_common as rc

THEOREMS = [
    "Pedal.Resolver.c01_rank_table_documented",
    "Pedal.Resolver.c01_offsets_within_rank",
    "Pedal.Resolver.c01_suppressed_iff",
    "Pedal.Resolver.c01_resolve_never_raises",
    "Pedal.Resolver.c01_used_is_first_shown",
    "Pedal.Resolver.c01_shown_is_eligible_and_best",
    "Pedal.Resolver.c01_default_when_none_eligible",
    "Pedal.Resolver.c01_priority_rerank",
    "Pedal.Resolver.c01_priority_shift",
    "Pedal.Resolver.c01_no_priority_is_medium",
]
NOTES = [
    "strings are lower-cased with Lean's ASCII String.toLower; generated categories/labels/priorities are ASCII",
    "field values are compared through repr(); the generator uses ints and strs only (no 1 == True == 1.0 aliasing)",
    "pools / Feedback._finalize overrides are modelled as 'no pools'",
    "resolve() may raise only through Score.parse on a score outside the +N/-N/N% grammar (hypothesis of "
    "c01_resolve_never_raises; such scores are outside C01's quantifier and are probed separately in C03)",
]


def other_resolvers(rng, tier, broken, info):
    """full.resolve / sectional.resolve (both in C01's anchors) against simple and the statement."""
    from common import Failure
    out, seen = [], set()
    n = 2500 if tier == "quick" else 8000
    if broken:
        n *= 3
    for _ in range(n):
        case = rc.gen_case(rng)
        if not rc.in_c01_domain(case):
            continue
        info["evaluations"] += 1
        info["other_resolver_cases"] = info.get("other_resolver_cases", 0) + 1
        v = rc.oracle_other_resolvers(case)
        if v is not None:
            import json
            k = json.dumps(v[0], sort_keys=True)
            if k in seen:
                continue
            seen.add(k)
            small = rc.shrink(case, lambda c: (lambda w: w is not None and w[0] == v[0])(rc.oracle_other_resolvers(c)))
            w = rc.oracle_other_resolvers(small) or v
            out.append(Failure(v[0], w[1], {"case": small, "stream": "other-resolvers"}))
            if len(out) >= 3:
                break
    return out


NOTES.append("pedal.resolvers.full and pedal.resolvers.sectional reuse merge/finalize; they are not separate Lean "
             "models but are checked on every run against simple.resolve and the statement (search stream)")
if __name__ == "__main__":
    sys.exit(rk.make("C01", rc.oracle_c01, THEOREMS, model_notes=NOTES, extra_streams=[other_resolvers])())

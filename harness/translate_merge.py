"""
Regenerates lean/PedalModel/Gen/MergeProgram.lean from the tree under test: the body of
FinalFeedback.merge after its suppression blocks, and the branch conditions of FinalFeedback.finalize
(pedal/core/final_feedback.py), translated from their Python AST into the IR of PedalModel/MergeIR.lean.

Conditions are translated compositionally (and / or / not / == between booleans over a fixed set of
observation atoms: truthiness or None-ness of the attributes merge reads); statements into if / return /
the recognised state updates.  Whatever is not understood becomes `.unknown "<source>"` / `.opaque "<source>"`:
the Lean agreement theorem (`merge_ir_agrees`, a `decide` over every observation) then fails and the model
driver answers `unmodelled-merge` -- nothing is silently dropped.  A semantically equivalent rewrite of a
condition (reordered operands, De Morgan, a renamed local) still satisfies the theorem.
"""
import ast
import hashlib
import os

from common import LEAN_DIR, REPO, lean_str, use_repo, write_if_changed


def _src(node):
    try:
        return ast.unparse(node)
    except Exception:  # noqa
        return type(node).__name__


class _Tr:
    def __init__(self, ff_module, feedback_cls, final_cls):
        self.ff = ff_module
        self.Feedback = feedback_cls
        self.Final = final_cls
        self.unknowns = []

    # ---------------------------------------------------------------- constants
    def const_value(self, node, self_obj=None):
        """Value of an attribute chain on module globals / `feedback` (the Feedback class) / `self`
        (the FinalFeedback class), or a literal; (False, None) when it is anything else."""
        if isinstance(node, ast.Constant):
            return True, node.value
        n = node
        while isinstance(n, ast.Attribute):
            n = n.value
        if not isinstance(n, ast.Name):
            return False, None
        env = dict(self.ff.__dict__)
        env["feedback"] = self.Feedback
        env["self"] = self.Final
        try:
            return True, eval(compile(ast.Expression(node), "<const>", "eval"), env)  # noqa: S307 (attribute chain only)
        except Exception:  # noqa
            return False, None

    # ---------------------------------------------------------------- expressions
    def resolve(self, node, env, depth=0):
        """Follow local names to their defining expressions (single-assignment locals only)."""
        while isinstance(node, ast.Name) and node.id in env and depth < 20:
            d = env[node.id]
            if d is None:      # assigned more than once
                return node
            node = d
            depth += 1
        return node

    def is_attr(self, node, base, attr):
        return (isinstance(node, ast.Attribute) and node.attr == attr and isinstance(node.value, ast.Name)
                and node.value.id == base)

    def strict_bool(self, node, env):
        node = self.resolve(node, env)
        if isinstance(node, ast.Compare):
            return True
        if isinstance(node, ast.UnaryOp) and isinstance(node.op, ast.Not):
            return True
        if isinstance(node, ast.Constant) and isinstance(node.value, bool):
            return True
        if isinstance(node, ast.BoolOp):
            return all(self.strict_bool(v, env) for v in node.values)
        if isinstance(node, ast.Call) and isinstance(node.func, ast.Name) and node.func.id == "bool" and len(node.args) == 1:
            return True
        return False

    def unknown(self, node):
        s = _src(node)
        self.unknowns.append(s)
        return ".unknown %s" % lean_str(s)

    TRUTHY_ATTRS = {"muted": ".muted", "unscored": ".unscored", "else_message": ".elseMsg", "correct": ".fbCorrect"}

    def bexp(self, node, env):
        node = self.resolve(node, env)
        if isinstance(node, ast.Call) and isinstance(node.func, ast.Name) and node.func.id == "bool" \
                and len(node.args) == 1 and not node.keywords:
            return self.bexp(node.args[0], env)
        inl = self.inline_call(node, env)
        if inl is not None:
            body, env2 = inl
            if len(body) == 1 and isinstance(body[0], ast.Return) and body[0].value is not None:
                return self.bexp(body[0].value, env2)
        if isinstance(node, ast.IfExp):
            c = self.bexp(node.test, env)
            return ".or (.and (%s) (%s)) (.and (.not (%s)) (%s))" % (c, self.bexp(node.body, env), c,
                                                                   self.bexp(node.orelse, env))
        if isinstance(node, ast.Constant) and isinstance(node.value, bool):
            return ".const %s" % ("true" if node.value else "false")
        if isinstance(node, ast.BoolOp):
            op = ".and" if isinstance(node.op, ast.And) else ".or"
            parts = [self.bexp(v, env) for v in node.values]
            out = parts[-1]
            for p in reversed(parts[:-1]):
                out = "%s (%s) (%s)" % (op, p, out)
            return out
        if isinstance(node, ast.UnaryOp) and isinstance(node.op, ast.Not):
            return ".not (%s)" % self.bexp(node.operand, env)
        if isinstance(node, ast.Name) and node.id == "feedback":
            return ".triggered"
        if isinstance(node, ast.Attribute) and isinstance(node.value, ast.Name):
            if node.value.id == "feedback" and node.attr in self.TRUTHY_ATTRS:
                return self.TRUTHY_ATTRS[node.attr]
            if node.value.id == "self" and node.attr == "correct":
                return ".selfCorrect"
            return self.unknown(node)
        if isinstance(node, ast.Compare) and len(node.ops) == 1:
            left = self.resolve(node.left, env)
            right = self.resolve(node.comparators[0], env)
            op = node.ops[0]
            # x is None / x is not None
            if isinstance(op, (ast.Is, ast.IsNot)):
                if isinstance(left, ast.Constant) and left.value is None:
                    left, right = right, left
                if isinstance(right, ast.Constant) and right.value is None:
                    atom = None
                    if self.is_attr(left, "feedback", "score"):
                        atom, positive_is_notnone = ".scoreNotNone", True
                    elif self.is_attr(left, "feedback", "message"):
                        atom, positive_is_notnone = ".msgNotNone", True
                    elif self.is_attr(left, "self", "message"):
                        atom, positive_is_notnone = ".selfMsgNone", False
                    if atom is not None:
                        want_notnone = isinstance(op, ast.IsNot)
                        return atom if want_notnone == positive_is_notnone else ".not (%s)" % atom
                return self.unknown(node)
            if isinstance(op, (ast.Eq, ast.NotEq)):
                neg = isinstance(op, ast.NotEq)

                def wrap(a):
                    return ".not (%s)" % a if neg else a
                for a, b in ((left, right), (right, left)):
                    if self.is_attr(a, "feedback", "category"):
                        ok, v = self.const_value(b)
                        if ok and isinstance(v, str) and v == self.Feedback.CATEGORIES.SYSTEM:
                            return wrap(".catSystem")
                        return self.unknown(node)
                    if self.is_attr(a, "feedback", "kind"):
                        ok, v = self.const_value(b)
                        if ok and isinstance(v, str) and v == self.Feedback.KINDS.COMPLIMENT:
                            return wrap(".kindEq .compliment")
                        if ok and isinstance(v, str) and v == self.Feedback.KINDS.INSTRUCTIONAL:
                            return wrap(".kindEq .instructional")
                        return self.unknown(node)
                    if self.is_attr(a, "feedback", "valence"):
                        ok, v = self.const_value(b)
                        if ok and isinstance(v, int) and not isinstance(v, bool) and v == self.Feedback.NEGATIVE_VALENCE:
                            # `valence != NEGATIVE` is the atom
                            return ".valenceNeNeg" if neg else ".not (.valenceNeNeg)"
                        return self.unknown(node)
                if self.strict_bool(left, env) and self.strict_bool(right, env):
                    return wrap(".beq (%s) (%s)" % (self.bexp(left, env), self.bexp(right, env)))
            return self.unknown(node)
        return self.unknown(node)

    # ---------------------------------------------------------------- helper methods
    methods = {}      # name -> FunctionDef of the FinalFeedback class (set by translate)

    def inline_call(self, node, env, depth=0):
        """`self._m(args)` / `FinalFeedback._m(args)` of a method of the class -> (body statements, environment with
        the parameters bound to the argument expressions), else None."""
        if not (isinstance(node, ast.Call) and isinstance(node.func, ast.Attribute)
                and isinstance(node.func.value, ast.Name) and node.func.value.id in ("self", "FinalFeedback", "cls")
                and node.func.attr in self.methods and not node.keywords):
            return None
        fn = self.methods[node.func.attr]
        params = [a.arg for a in fn.args.args]
        static = any(isinstance(d, ast.Name) and d.id == "staticmethod" for d in fn.decorator_list)
        if not static and params and params[0] in ("self", "cls"):
            params = params[1:]
        if len(params) != len(node.args) or fn.args.vararg or fn.args.kwarg or fn.args.kwonlyargs:
            return None
        env2 = dict(env)
        for prm, arg in zip(params, node.args):
            if not (isinstance(arg, ast.Name) and arg.id == prm and prm not in env):
                env2[prm] = self.resolve(arg, env) if isinstance(arg, ast.Name) and arg.id in env else arg
            if isinstance(arg, ast.Name) and arg.id == "feedback":
                env2.pop(prm, None) if prm == "feedback" else env2.__setitem__(prm, arg)
        body = [b for b in fn.body if not (isinstance(b, ast.Expr) and isinstance(b.value, ast.Constant))]
        return body, env2

    def text_of_body(self, stmts, env, depth=0):
        """A helper's body that RETURNS the signed score text: assignments, `if c: return t1` ... `return t2`.
        -> BExp for 'the returned text starts with a bang', or None."""
        env = dict(env)
        for i, st in enumerate(stmts):
            if isinstance(st, ast.Assign) and len(st.targets) == 1 and isinstance(st.targets[0], ast.Name):
                env[st.targets[0].id] = None if st.targets[0].id in env else st.value
                continue
            if isinstance(st, ast.Return) and st.value is not None:
                return self.inversion_of(st.value, env, depth + 1)
            if isinstance(st, ast.If):
                t = self.text_of_body(st.body, env, depth + 1)
                e = self.text_of_body(st.orelse + stmts[i + 1:], env, depth + 1)
                if t is None or e is None:
                    return None
                c = self.bexp(st.test, env)
                return ".or (.and (%s) (%s)) (.and (.not (%s)) (%s))" % (c, t, c, e)
            return None
        return None

    # ---------------------------------------------------------------- statements
    def inversion_of(self, joined, env, depth=0):
        """f"{inversion}{partial}" -> BExp for 'the text starts with a bang', or None."""
        joined = self.resolve(joined, env)      # the text may have been built into a local first
        if depth < 4:
            inl = self.inline_call(joined, env)
            if inl is not None:
                return self.text_of_body(inl[0], inl[1], depth)
        if isinstance(joined, ast.JoinedStr) and len(joined.values) in (1, 2):
            vals = joined.values
            last = vals[-1]
            if (isinstance(last, ast.FormattedValue) and last.conversion == -1 and not last.format_spec
                    and self.is_attr(self.resolve(last.value, env), "feedback", "score")):
                if len(vals) == 1:
                    return ".const false"
                if isinstance(vals[0], ast.Constant) and vals[0].value == "!":
                    return ".const true"
        if not isinstance(joined, ast.JoinedStr) or len(joined.values) != 2:
            return None
        a, b = joined.values
        if not (isinstance(a, ast.FormattedValue) and isinstance(b, ast.FormattedValue)):
            return None
        if a.conversion != -1 or b.conversion != -1 or a.format_spec or b.format_spec:
            return None
        inv = self.resolve(a.value, env)
        part = self.resolve(b.value, env)
        if not self.is_attr(part, "feedback", "score"):
            return None
        if isinstance(inv, ast.IfExp) and isinstance(inv.body, ast.Constant) and isinstance(inv.orelse, ast.Constant):
            if inv.body.value == "!" and inv.orelse.value == "":
                return self.bexp(inv.test, env)
            if inv.body.value == "" and inv.orelse.value == "!":
                return ".not (%s)" % self.bexp(inv.test, env)
        return None

    TAKE_SOURCES = {
        "message": lambda self, v: self.is_attr(v, "feedback", "message"),
        "title": lambda self, v: (isinstance(v, ast.BoolOp) and isinstance(v.op, ast.Or) and len(v.values) == 2
                                  and self.is_attr(v.values[0], "feedback", "title")
                                  and self.is_attr(v.values[1], "feedback", "label")),
        "category": lambda self, v: self.is_attr(v, "feedback", "category"),
        "label": lambda self, v: self.is_attr(v, "feedback", "label"),
        "data": lambda self, v: self.is_attr(v, "feedback", "fields"),
    }

    def take_piece(self, st, env):
        """-> name of the piece of the take-message group this statement is, or None."""
        if (isinstance(st, ast.Assign) and len(st.targets) == 1 and isinstance(st.targets[0], ast.Attribute)
                and isinstance(st.targets[0].value, ast.Name) and st.targets[0].value.id == "self"
                and st.targets[0].attr in self.TAKE_SOURCES):
            name = st.targets[0].attr
            if self.TAKE_SOURCES[name](self, self.resolve(st.value, env)):
                return name
            return "bad:" + name
        if self.self_append(st) == "used":
            return "used"
        return None

    def self_append(self, st):
        if (isinstance(st, ast.Expr) and isinstance(st.value, ast.Call) and isinstance(st.value.func, ast.Attribute)
                and st.value.func.attr == "append" and len(st.value.args) == 1 and not st.value.keywords
                and isinstance(st.value.args[0], ast.Name) and st.value.args[0].id == "feedback"):
            tgt = st.value.func.value
            if isinstance(tgt, ast.Attribute) and isinstance(tgt.value, ast.Name) and tgt.value.id == "self":
                return tgt.attr
        return None

    @staticmethod
    def only_binds(body):
        """{name: value} if the block consists only of single assignments to distinct local names, else None."""
        out = {}
        for st in body:
            if not (isinstance(st, ast.Assign) and len(st.targets) == 1 and isinstance(st.targets[0], ast.Name)
                    and st.targets[0].id not in out):
                return None
            out[st.targets[0].id] = st.value
        return out or None

    def opaque(self, st):
        s = _src(st)
        self.unknowns.append(s)
        return ".opaque %s" % lean_str(s[:200])

    def stmts(self, body, env):
        out = []
        i = 0
        while i < len(body):
            st = body[i]
            # the take-message group: a maximal run of its pieces
            if self.take_piece(st, env) is not None:
                pieces = []
                while i < len(body) and self.take_piece(body[i], env) is not None:
                    pieces.append(self.take_piece(body[i], env))
                    i += 1
                need = {"message", "title", "category", "label", "used"}
                if need <= set(pieces) and not any(p.startswith("bad:") for p in pieces) \
                        and len(pieces) == len(set(pieces)):
                    out.append(".takeMessage")
                else:
                    out.append(".opaque %s" % lean_str("take-message group: " + ",".join(pieces)))
                    self.unknowns.append("take-message group: " + ",".join(pieces))
                continue
            i += 1
            if isinstance(st, ast.Expr) and isinstance(st.value, ast.Constant) and isinstance(st.value.value, str):
                continue  # docstring / stray string
            if isinstance(st, ast.Pass):
                continue
            app = self.self_append(st)
            if app in ("considered", "systems", "positives", "instructions"):
                out.append(".append .%s" % app)
                continue
            if (isinstance(st, ast.Expr) and isinstance(st.value, ast.Call) and isinstance(st.value.func, ast.Attribute)
                    and st.value.func.attr == "append" and _src(st.value.func.value) == "self._scores"
                    and len(st.value.args) == 1):
                inv = self.inversion_of(st.value.args[0], env)
                out.append(".pushScore (%s)" % inv if inv is not None else self.opaque(st))
                continue
            if isinstance(st, ast.Assign) and len(st.targets) == 1 and isinstance(st.targets[0], ast.Name):
                name = st.targets[0].id
                env[name] = None if name in env else st.value
                continue
            if (isinstance(st, ast.Assign) and len(st.targets) == 1
                    and self.is_attr(st.targets[0], "feedback", "resolved_score")):
                v = st.value
                inv = None
                if (isinstance(v, ast.Call) and isinstance(v.func, ast.Attribute) and v.func.attr == "to_percent_string"
                        and not v.args and isinstance(v.func.value, ast.Call)
                        and _src(v.func.value.func) == "Score.parse" and len(v.func.value.args) == 1):
                    inv = self.inversion_of(v.func.value.args[0], env)
                out.append(".resolvedScore (%s)" % inv if inv is not None else self.opaque(st))
                continue
            if isinstance(st, ast.Assign) and all(isinstance(t, ast.Attribute) and isinstance(t.value, ast.Name)
                                                 and t.value.id == "self" for t in st.targets):
                names = sorted(t.attr for t in st.targets)
                if names == ["correct", "success"]:
                    out.append(".setCorrect (%s)" % self.bexp(st.value, env))
                    continue
                out.append(self.opaque(st))
                continue
            if isinstance(st, ast.If) and st.orelse and self.only_binds(st.body) is not None \
                    and self.only_binds(st.body).keys() == self.only_binds(st.orelse).keys():
                a, b = self.only_binds(st.body), self.only_binds(st.orelse)
                for name in a:
                    env[name] = None if name in env else ast.IfExp(test=st.test, body=a[name], orelse=b[name])
                continue
            if isinstance(st, ast.If):
                c = self.bexp(st.test, env)
                t = self.stmts(st.body, env)
                e = self.stmts(st.orelse, env)
                out.append(".ite (%s) [%s] [%s]" % (c, ", ".join(t), ", ".join(e)))
                continue
            if isinstance(st, ast.Return):
                if st.value is None or (isinstance(st.value, ast.Constant) and st.value.value is None):
                    out.append(".ret false")
                elif isinstance(st.value, ast.Name) and st.value.id == "feedback":
                    out.append(".ret true")
                else:
                    out.append(self.opaque(st))
                continue
            out.append(self.opaque(st))
        return out

    # ---------------------------------------------------------------- finalize
    fenv = {}

    def fexp(self, node):
        depth = 0
        while isinstance(node, ast.Name) and self.fenv.get(node.id) is not None and depth < 10:
            node = self.fenv[node.id]
            depth += 1
        if (isinstance(node, ast.Call) and isinstance(node.func, ast.Attribute) and isinstance(node.func.value, ast.Name)
                and node.func.value.id == "self" and node.func.attr in self.methods and not node.args and not node.keywords):
            fn = self.methods[node.func.attr]
            body = [b for b in fn.body if not (isinstance(b, ast.Expr) and isinstance(b.value, ast.Constant))]
            if len(body) == 1 and isinstance(body[0], ast.Return) and body[0].value is not None:
                return self.fexp(body[0].value)
        if isinstance(node, ast.Constant) and isinstance(node.value, bool):
            return ".const %s" % ("true" if node.value else "false")
        if isinstance(node, ast.BoolOp):
            op = ".and" if isinstance(node.op, ast.And) else ".or"
            parts = [self.fexp(v) for v in node.values]
            out = parts[-1]
            for p in reversed(parts[:-1]):
                out = "%s (%s) (%s)" % (op, p, out)
            return out
        if isinstance(node, ast.UnaryOp) and isinstance(node.op, ast.Not):
            return ".not (%s)" % self.fexp(node.operand)
        if self.is_attr(node, "self", "hide_correctness"):
            return ".hide"
        if self.is_attr(node, "self", "used"):
            return ".not (.usedEmpty)"
        if isinstance(node, ast.Compare) and len(node.ops) == 1:
            left, right, op = node.left, node.comparators[0], node.ops[0]
            if isinstance(op, (ast.Is, ast.IsNot)) and isinstance(right, ast.Constant) and right.value is None \
                    and self.is_attr(left, "self", "message"):
                return ".msgNone" if isinstance(op, ast.Is) else ".not (.msgNone)"
            if isinstance(op, (ast.Eq, ast.NotEq)):
                neg = isinstance(op, ast.NotEq)
                for a, b in ((left, right), (right, left)):
                    atom = None
                    if self.is_attr(a, "self", "label"):
                        ok, v = self.const_value(b)
                        if ok and v == self.Final.DEFAULT_NO_FEEDBACK_LABEL and isinstance(v, str):
                            atom = ".labelDefault"
                    elif self.is_attr(a, "self", "category"):
                        ok, v = self.const_value(b)
                        if ok and v == self.Feedback.CATEGORIES.COMPLETE and isinstance(v, str):
                            atom = ".catComplete"
                    if atom:
                        return ".not (%s)" % atom if neg else atom
        s = _src(node)
        self.unknowns.append(s)
        return ".unknown %s" % lean_str(s)

    def self_assigns(self, body):
        """{attr: value node} for a block consisting only of `self.a = self.b = v` assignments, else None."""
        out = {}
        for st in body:
            if not (isinstance(st, ast.Assign) and all(isinstance(t, ast.Attribute) and isinstance(t.value, ast.Name)
                                                      and t.value.id == "self" for t in st.targets)):
                return None
            for t in st.targets:
                out[t.attr] = st.value
        return out

    def finalize(self, fn):
        """Order-insensitive reading of finalize: the default title/message `if`, the hide_correctness assignment,
        boolean locals, the branch between the 'complete' group and `score = combine_scores(...)` (either polarity),
        `correct := bool(correct)`, `return self`."""
        from pedal.core.commands import set_correct
        body = [s for s in fn.body if not (isinstance(s, ast.Expr) and isinstance(s.value, ast.Constant))]
        self.fenv = {}
        default_cond = complete_cond = '.unknown "missing"'
        hide_keys = []
        seen = {"default": False, "hide": False, "branch": False, "boolcast": False, "ret": False}
        shape = True

        def is_complete_group(a):
            if a is None or set(a) != {"title", "message", "score", "success", "correct"}:
                return False
            okt, vt = self.const_value(a["title"])
            okm, vm = self.const_value(a["message"])
            oks, vs = self.const_value(a["score"])
            okc, vc = self.const_value(a["correct"])
            oku, vu = self.const_value(a["success"])
            return (okt and okm and oks and okc and oku and vt == set_correct.title
                    and vm == set_correct.message_template and vs == 1 and vs is not True and vc is True and vu is True)

        def is_combine(a):
            return a is not None and set(a) == {"score"} and _src(a["score"]) == "combine_scores(self._scores)"

        for st in body:
            if isinstance(st, ast.Assign) and len(st.targets) == 1 and isinstance(st.targets[0], ast.Name):
                name = st.targets[0].id
                self.fenv[name] = None if name in self.fenv else st.value
                continue
            if isinstance(st, ast.Return):
                seen["ret"] = _src(st.value) == "self" if st.value is not None else False
                continue
            a = self.self_assigns([st]) if isinstance(st, ast.Assign) else None
            if a is not None and set(a) == {"hide_correctness"}:
                if seen["branch"]:
                    shape = False          # must be assigned before it is read
                v = a["hide_correctness"]
                while (isinstance(v, ast.Call) and _src(v.func) == "self.suppressions.get" and len(v.args) == 2
                       and isinstance(v.args[0], ast.Constant) and isinstance(v.args[0].value, str)):
                    hide_keys.append(v.args[0].value)
                    v = v.args[1]
                seen["hide"] = isinstance(v, ast.Constant) and v.value is False and bool(hide_keys)
                continue
            if a is not None and set(a) == {"success", "correct"} and _src(a["correct"]) == "bool(self.correct)":
                seen["boolcast"] = seen["branch"]      # after the branch
                continue
            if isinstance(st, ast.If):
                tb, eb = self.self_assigns(st.body), self.self_assigns(st.orelse) if st.orelse else None
                if not st.orelse and tb is not None and set(tb) == {"title", "message"} and not seen["default"]:
                    if seen["branch"]:
                        shape = False      # the complete branch overwrites the default texts, not vice versa
                    default_cond = self.fexp(st.test)
                    okt, vt = self.const_value(tb["title"])
                    okm, vm = self.const_value(tb["message"])
                    seen["default"] = bool(okt and okm and vt == self.Final.DEFAULT_NO_FEEDBACK_TITLE
                                           and vm == self.Final.DEFAULT_NO_FEEDBACK_MESSAGE)
                    continue
                if is_complete_group(tb) and is_combine(eb) and not seen["branch"]:
                    complete_cond = self.fexp(st.test)
                    seen["branch"] = True
                    continue
                if is_combine(tb) and is_complete_group(eb) and not seen["branch"]:
                    complete_cond = ".not (%s)" % self.fexp(st.test)
                    seen["branch"] = True
                    continue
            shape = False
        shape = shape and all(seen.values())
        if not shape:
            self.unknowns.append("finalize: shape not recognised (%s)" % ", ".join(k for k, v in seen.items() if not v))
        return default_cond, complete_cond, hide_keys, shape


def translate():
    use_repo()
    from pedal.core import final_feedback as ff
    from pedal.core.feedback import Feedback
    from pedal.core.final_feedback import FinalFeedback
    path = os.path.join(REPO, "pedal", "core", "final_feedback.py")
    with open(path, encoding="utf-8") as fh:
        tree = ast.parse(fh.read())
    cls = next(n for n in tree.body if isinstance(n, ast.ClassDef) and n.name == "FinalFeedback")
    merge = next(n for n in cls.body if isinstance(n, ast.FunctionDef) and n.name == "merge")
    fin = next(n for n in cls.body if isinstance(n, ast.FunctionDef) and n.name == "finalize")
    pf = next(n for n in tree.body if isinstance(n, ast.FunctionDef) and n.name == "parse_feedback")
    tr = _Tr(ff, Feedback, FinalFeedback)
    tr.methods = {n.name: n for n in cls.body if isinstance(n, ast.FunctionDef) and n.name not in ("merge", "finalize")}

    # parse_feedback: locals and the returned tuple, over its parameter (renamed to `feedback`)
    pf_env = {}
    ret = None
    pf_ok = len(pf.args.args) == 1 and pf.args.args[0].arg == "feedback"
    for st in pf.body:
        if isinstance(st, ast.Expr) and isinstance(st.value, ast.Constant):
            continue
        if isinstance(st, ast.Assign) and len(st.targets) == 1 and isinstance(st.targets[0], ast.Name):
            pf_env[st.targets[0].id] = None if st.targets[0].id in pf_env else st.value
        elif isinstance(st, ast.Return) and isinstance(st.value, ast.Tuple) and ret is None:
            ret = [tr.resolve(e, pf_env) for e in st.value.elts]
        else:
            pf_ok = False

    # merge: split at `a, b, c, d, e = parse_feedback(feedback)`
    body = merge.body
    split = None
    for i, st in enumerate(body):
        if (isinstance(st, ast.Assign) and len(st.targets) == 1 and isinstance(st.targets[0], ast.Tuple)
                and isinstance(st.value, ast.Call) and _src(st.value.func) == "parse_feedback"
                and len(st.value.args) == 1 and _src(st.value.args[0]) == "feedback"):
            split = i
            break
    env = {}
    if split is None or not pf_ok or ret is None or len(ret) != len(body[split].targets[0].elts):
        tail = ['.opaque "merge: parse_feedback call not found as expected"']
        tr.unknowns.append("merge: parse_feedback call not found as expected")
        prefix_dump = ""
    else:
        for t, e in zip(body[split].targets[0].elts, ret):
            if isinstance(t, ast.Name):
                env[t.id] = e
        tail = tr.stmts(body[split + 1:], env)
        prefix_dump = "\n".join(ast.dump(s) for s in body[:split])
    merge_unknowns = len(tr.unknowns)
    default_cond, complete_cond, hide_keys, shape = tr.finalize(fin)
    fin_unknowns = len(tr.unknowns) - merge_unknowns
    # Fallback when the reading left something not understood: synthesise the program from exhaustive measurement
    # of the real method over the finite observation space (harness/probe_merge.py); the same Lean obligations
    # are then checked against the synthesised program.
    merge_source = finalize_source = "ast"
    import probe_merge
    from pedal.core.report import Report
    from pedal.core.commands import set_correct
    if merge_unknowns:
        try:
            tail, n = probe_merge.probe_merge(Feedback, FinalFeedback, Report)
            merge_source = "probed (%d observations measured; the AST reading left %d construct(s) not understood)" % (n, merge_unknowns)
        except Exception as e:  # noqa: keep the AST reading, unknowns and all
            merge_source = "ast (probe not possible: %s: %s)" % (type(e).__name__, str(e)[:120])
    if fin_unknowns or not shape:
        try:
            d2, c2, k2, s2 = probe_merge.probe_finalize(Feedback, FinalFeedback, Report, set_correct)
            if s2:
                default_cond, complete_cond, hide_keys, shape = d2, c2, k2, s2
                finalize_source = "probed (32 states measured; the AST reading left %d construct(s) not understood)" % fin_unknowns
        except Exception as e:  # noqa
            finalize_source = "ast (probe not possible: %s: %s)" % (type(e).__name__, str(e)[:120])

    src = "\n".join([
        "import PedalModel.MergeIR",
        "/- GENERATED by harness/translate_merge.py from pedal/core/final_feedback.py of the tree under test. Do not edit. -/",
        "namespace Pedal.Gen.Merge",
        "open Pedal.MergeIR",
        "",
        "/-- `FinalFeedback.merge` after `correct, partial, message, title, data = parse_feedback(feedback)`. -/",
        "def mergeTail : List Stmt := [",
        "  " + ",\n  ".join(tail),
        "]",
        "",
        "def finalizeProgram : FinProgram := {",
        "  defaultMsgCond := %s," % default_cond,
        "  completeCond := %s," % complete_cond,
        "  hideKeys := [%s]," % ", ".join(lean_str(k) for k in hide_keys),
        "  shapeOk := %s }" % ("true" if shape else "false"),
        "",
        "end Pedal.Gen.Merge",
        "",
    ])
    out = os.path.join(LEAN_DIR, "PedalModel", "Gen", "MergeProgram.lean")
    changed = write_if_changed(out, src)
    return {"file": "PedalModel/Gen/MergeProgram.lean", "sha1": hashlib.sha1(src.encode()).hexdigest()[:12],
            "changed": changed, "not_understood": tr.unknowns[:10],
            "merge_source": merge_source, "finalize_source": finalize_source,
            "suppression_prefix_sha1": hashlib.sha1(prefix_dump.encode()).hexdigest()[:12]}


if __name__ == "__main__":
    print(translate())

"""C11 — CAIT finds every occurrence that exists by construction."""
import sys

import cait_check as ck
from common import run_check

THEOREMS = [
    "Pedal.Cait.c11_checked_case",
    "Pedal.Cait.c11_generalised_fragment_matches",
    "Pedal.Cait.genChk_sound",
    "Pedal.Cait.c11_fragment_matches",
    "Pedal.Cait.c11_program_matches_itself",
    "Pedal.Cait.gen_deep",
    "Pedal.Cait.deep_self",
    "Pedal.Cait.findMatches_intro",
    "Pedal.Cait.genAt_refl",
    "Pedal.Cait.genAt_wildcard",
]
NOTES = [
    "the theorems are about the Lean port `findMatches` of find_matches(pattern, code) (check_meta=True, "
    "use_previous=None) over abstract trees (kind, field, iter_fields with plain values, children); that the real "
    "matcher equals the port is SAMPLED by the correspondence on every run (match count, order, mappings, "
    "exp_table, the three symbol tables, conflict keys, match_root), not proved",
    "'obtained from the program by the generalisation steps' is the Lean relation genAt (PedalProofs/CaitGen.lean): "
    "___ / __e__ Names (or expression statements made of them) anywhere, one function rho from _v_ keys to "
    "identifiers, children dropped in order, everything else kept.  Whether a generated case lies inside it is "
    "DECIDED per case by the driver (genCase, proved sound: genChk_sound / c11_checked_case) from the alignment the "
    "harness's derive() records; the evidence counts covered / outside cases (search.theorem_domain)",
    "pattern trees satisfy opLeaves / binOp3 (Add/Mult nodes are leaves, a BinOp has three children): true of "
    "every ast tree, checked by the driver on every request",
    "CaitNode.find_matches(..., use_previous=True) and cait_api.find_matches(..., use_previous=match) (searches "
    "inheriting an earlier match's bindings) are exercised on the real code by the searches but not modelled; the "
    "oracle for them is written from the property text: a sub-pattern derived from the bound subtree must be found "
    "and bind every placeholder - a fresh one, a _var_ the inherited match bound to the same identifier, an __expr__ "
    "NAME the inherited match had bound to something else - to what it replaced",
    "report state between calls (the parse cache, cait['ast'] / cait['success'], the Source tool's tree) is not "
    "modelled; the search asks the same question again after CAIT was given an unparsable text on the same report, and "
    "asks derived patterns as steps of random and small-scope exhaustive HISTORIES on one report (every judged step is "
    "also compared with the model's answer for the program that step asked about)",
]
REFUTED = [{"statement": "Pedal.Cait.C11_GeneraliseAnyMatching_Full",
            "refuted_by": "#guard witness in PedalProofs/C11.lean (x[a+b:] / x[___:] on x[:a+b]), evaluated on the "
                          "model; reproduced on the real code by the search in every run",
            "covered_by": "open finding: fields-not-compared-below-commutative-operator"}]

if __name__ == "__main__":
    sys.exit(run_check("C11", proof_modules=["PedalProofs.C11"], theorems=THEOREMS, driver_exe="driver_c11",
                       correspond=ck.correspond("C11"), search=ck.search_c11, replay=ck.replay,
                       model_notes=NOTES, refuted_full=REFUTED, leanchecker_modules=["PedalProofs.C11"]))

"""C11 — CAIT finds every occurrence that exists by construction."""
import sys

import cait_check as ck
from common import run_check

THEOREMS = [
]
NOTES = [
]

if __name__ == "__main__":
    sys.exit(run_check("C11", proof_modules=["PedalProofs.C11"], theorems=THEOREMS, driver_exe="driver_c11",
                       correspond=ck.correspond("C11"), search=ck.search_c11, replay=ck.replay,
                       model_notes=NOTES, unproved_full=[], leanchecker_modules=["PedalProofs.C11"]))

"""
C06 program generator: deterministic CS1 programs (assignments, arithmetic, strings, lists/dicts/tuples/sets,
if/while/for, functions, classes, comprehensions, try/except, print with sep/end, input(), stdlib imports),
an input queue, and a list of follow-up calls (function name, argument expressions, keyword expressions).

Programs are deterministic by construction: no addresses, no clocks, no unseeded randomness, no default object
reprs; every loop is bounded.  Run-time errors are planted on purpose (and arise by accident: int() of a
non-numeric input, index out of range, ...) so that "same kind of exception at the same line" is exercised at
top level, inside functions, methods, comprehensions, handlers and multi-line statements.

A case is JSON-able:
  {"code": str, "filename": str, "inputs": [str], "calls": [{"fn", "args": [expr], "kwargs": {k: expr},
   "fkw": {k: expr}|absent (keywords handed over through function_kwargs=), "via": "get_function"|absent,
   "target": str|absent, "inputs": [str]|absent}], "api": "commands"|"sandbox"|"commands+report",
   "run_via": a spelling of queueing the inputs and starting the run|absent, "shape": [tags]}
(the public spellings are laid over the generated cases by sandboxequiv_api.respell)
"""

INT_NAMES = ["a", "b", "n", "count", "total", "i2", "num", "_"]
STR_NAMES = ["s", "name", "word", "msg", "text"]
LIST_NAMES = ["items", "xs", "nums", "data", "values"]
DICT_NAMES = ["d", "table", "ages"]
FLOAT_NAMES = ["f1", "ratio", "avg"]
OVERRIDE_LIKE = ["compile", "open", "exit", "globals", "eval", "exec", "input"]   # names the sandbox overrides
FUNC_NAMES = ["f", "g", "helper", "compute", "make", "area"]
CLASS_NAMES = ["Dog", "Point", "Acc"]

INPUT_POOL = ["5", "12", "hello", "", "3.5", "x y", "0", "-1", "  7 ", "Ada", "ünï", "100", "2", "a,b"]
PROMPTS = ["'Name? '", "'> '", "''", "'Enter a number: '", "'x'", "'Line\\n'", "5", "'ünï? '", None, None]
# text that is not "printable characters and \\n" (escape sequences in the source; CPython makes the characters):
# carriage returns, the other separators str.splitlines knows, NUL, ANSI escapes, non-BMP, whitespace-only
ODD_LITERALS = ["'a\\rb'", "'row\\r\\n'", "'\\r'", "'\\x0c'", "'v\\x0bt'", "'\\x85'", "'\\u2028'", "'\\x00'", "'\\x1b[1mB\\x1b[0m'",
                "'\\U0001F600'", "'   '", "' \\n'", "'\\x1c'", "'\\t'", "'\\n\\n'", "'\\x08'", "'e\\u0301'"]
ODD_PROMPTS = ["'Name\\r'", "'\\x1b[1m> '", "'Q\\r\\n'", "'\\x0c? '", "'  '"]
ODD_INPUTS = ["a\x0bb", "\x0c", "x\x1cy", "\x85", "\u2028z", "\t7\t", "\U0001F600", "5 ", " "]


class G:
    def __init__(self, rng, size="small"):
        self.rng = rng
        self.lines = []
        self.vars = {}          # name -> type tag
        self.funcs = {}         # name -> {"arity": n, "defaults": k, "kw": [names], "takes": type}
        self.classes = []
        self.subclasses = {}    # name -> (builtin base, literals of that base)
        self.funcs_helpers = set()
        self.n_inputs = 0
        self.shape = set()
        self.imports = set()
        self.budget = rng.randint(4, 10) if size == "small" else rng.randint(8, 22)
        self.depth = 0
        self.in_func = False

    # ----- helpers
    def emit(self, line, ind):
        self.lines.append("    " * ind + line)

    def names_of(self, t, local=None):
        scope = local if local is not None else self.vars
        return [n for n, tt in scope.items() if tt == t]

    def pick_name(self, t):
        pool = {"int": INT_NAMES, "str": STR_NAMES, "list": LIST_NAMES, "dict": DICT_NAMES, "float": FLOAT_NAMES,
                "bool": ["flag", "ok", "done"], "tuple": ["pair", "tup"], "set": ["seen", "uniq"],
                "strlist": ["words", "parts"]}[t]
        return self.rng.choice(pool)

    # ----- expressions
    def int_expr(self, scope, d=0):
        r = self.rng
        cands = self.names_of("int", scope)
        k = r.random()
        if d >= 2 or k < 0.3:
            if cands and r.random() < 0.6:
                return r.choice(cands)
            return str(r.choice([0, 1, 2, 3, 5, 7, 10, -1, -4, 12, 100]))
        if k < 0.6:
            op = r.choice(["+", "-", "*", "//", "%", "**"])
            right = self.int_expr(scope, d + 1)
            left = self.int_expr(scope, d + 1)
            if op == "**":          # bounded growth: literal base and exponent
                left, right = str(r.choice([2, 3, -2, 10, 0])), str(r.choice([0, 1, 2, 3]))
            if op == "*":           # no squaring inside loops: one factor is a small literal
                right = str(r.choice([0, 2, 3, -1, 10]))
            if op in ("//", "%") and r.random() < 0.85:
                right = str(r.choice([1, 2, 3, 7, -2]))
            return "(%s %s %s)" % (left, op, right)
        if k < 0.7:
            ls = self.names_of("list", scope)
            if ls:
                return r.choice(["len(%s)", "sum(%s)", "max(%s + [0])", "%s[0]", "%s[-1]", "%s[%d]" % ("%s", r.randint(0, 4))]) \
                    % r.choice(ls)
        if k < 0.78:
            ss = self.names_of("str", scope)
            if ss:
                return r.choice(["len(%s)", "%s.count('a')", "%s.find('e')", "int(%s)", "ord(%s[0])"]) % r.choice(ss)
        if k < 0.84:
            ds = self.names_of("dict", scope)
            if ds:
                return r.choice(["%s['a']", "%s.get('zz', 0)", "len(%s)", "%s['missing']", "sum(%s.values())"]) % r.choice(ds)
        if k < 0.9:
            return "abs(%s)" % self.int_expr(scope, d + 1)
        if k < 0.95 and self.funcs:
            fn = r.choice(sorted(self.funcs))
            if self.funcs[fn]["takes"] == "int" and self.funcs[fn]["arity"] - self.funcs[fn]["defaults"] <= 1 \
                    and self.funcs[fn]["arity"] >= 1 and self.funcs[fn].get("defined"):
                self.shape.add("call-in-expr")
                return "%s(%s)" % (fn, self.int_expr(scope, d + 1))
        return "int(%s)" % self.float_expr(scope, d + 1)

    def float_expr(self, scope, d=0):
        r = self.rng
        cands = self.names_of("float", scope)
        k = r.random()
        if d >= 2 or k < 0.35:
            if cands and r.random() < 0.5:
                return r.choice(cands)
            return r.choice(["0.5", "2.0", "3.25", "1e3", "-0.0", "0.1", "1.5e-3", "7.0"])
        if k < 0.7:
            op = r.choice(["+", "-", "*", "/"])
            return "(%s %s %s)" % (self.float_expr(scope, d + 1), op,
                                   self.int_expr(scope, d + 1) if r.random() < 0.5 else self.float_expr(scope, d + 1))
        if k < 0.8:
            return "round(%s, %d)" % (self.float_expr(scope, d + 1), r.randint(0, 3))
        if k < 0.9:
            self.imports.add("math")
            return r.choice(["math.sqrt(abs(%s))", "math.floor(%s) + 0.5", "math.pi * %s", "math.fabs(%s)"]) \
                % self.int_expr(scope, d + 1)
        return "float(%s)" % self.int_expr(scope, d + 1)

    def str_expr(self, scope, d=0):
        r = self.rng
        cands = self.names_of("str", scope)
        k = r.random()
        if d >= 2 or k < 0.35:
            if cands and r.random() < 0.6 and d < 9:
                return r.choice(cands)
            if r.random() < 0.12:
                self.shape.add("odd-text")
                return r.choice(ODD_LITERALS)
            return r.choice(["'abc'", "''", "'Hello, World'", "\"it's\"", "'a\\tb'", "'line1\\nline2'", "'ünïcödé'",
                             "'  pad  '", "'x'", "'42'", "'a,b,c'"])
        if k < 0.5:     # no doubling inside loops: the right operand is a literal
            return "(%s + %s)" % (self.str_expr(scope, d + 1), self.str_expr(scope, 9))
        if k < 0.58:
            return "(%s * %s)" % (self.str_expr(scope, 9), r.choice(["2", "0", "3"]))
        if k < 0.72:
            return "%s.%s" % (self.str_expr(scope, d + 1),
                              r.choice(["upper()", "lower()", "strip()", "title()", "replace('a', 'b')", "center(9, '*')",
                                        "zfill(5)", "capitalize()"]))
        if k < 0.8:
            return "str(%s)" % (self.int_expr(scope, d + 1) if r.random() < 0.6 else self.float_expr(scope, d + 1))
        if k < 0.88:
            return "f\"{%s}-{%s!r}:{%s:>6.2f}\"" % (self.int_expr(scope, 2), self.str_expr(scope, 2), self.float_expr(scope, 2))
        if k < 0.93:
            return "%s[%s]" % (self.str_expr(scope, d + 1), r.choice(["0", "-1", "1:3", "::-1", "5", ":2"]))
        if k < 0.97:
            return "'%%s=%%d' %% (%s, %s)" % (self.str_expr(scope, 2), self.int_expr(scope, 2))
        return "'-'.join(%s)" % self.strlist_expr(scope, d + 1)

    def bool_expr(self, scope, d=0):
        r = self.rng
        k = r.random()
        if k < 0.5:
            return "%s %s %s" % (self.int_expr(scope, 1), r.choice(["<", "<=", "==", "!=", ">", ">="]), self.int_expr(scope, 1))
        if k < 0.6:
            return "%s %s %s" % (self.str_expr(scope, 2), r.choice(["==", "!=", "<", "in"]), self.str_expr(scope, 2))
        if k < 0.7 and self.names_of("list", scope):
            return "%s in %s" % (self.int_expr(scope, 2), r.choice(self.names_of("list", scope)))
        if k < 0.8 and d < 2:
            return "(%s) %s (%s)" % (self.bool_expr(scope, d + 1), r.choice(["and", "or"]), self.bool_expr(scope, d + 1))
        if k < 0.86 and d < 2:
            return "not (%s)" % self.bool_expr(scope, d + 1)
        if k < 0.92 and self.names_of("str", scope):
            return "%s.%s" % (r.choice(self.names_of("str", scope)), r.choice(["isdigit()", "isalpha()", "startswith('a')", "isupper()"]))
        return r.choice(["True", "False"] + self.names_of("bool", scope))

    def list_expr(self, scope, d=0):
        r = self.rng
        cands = self.names_of("list", scope)
        k = r.random()
        if d >= 2 or k < 0.35:
            if cands and r.random() < 0.5:
                return r.choice(cands)
            return r.choice(["[1, 2, 3]", "[]", "[5]", "[3, 1, 2, 1]", "[0, -1, 10, 7, 7]", "list(range(4))"])
        if k < 0.5:
            return "[%s for %s in %s%s]" % (r.choice(["v * 2", "v + 1", "v % 3", "v"]), "v",
                                            r.choice(["range(%d)" % r.randint(0, 5)] + cands),
                                            r.choice(["", " if v % 2", " if v > 1"]))
        if k < 0.62:
            return "(%s + %s)" % (self.list_expr(scope, d + 1), r.choice(["[1, 2, 3]", "[]", "[5]"]))
        if k < 0.74:
            return "sorted(%s%s)" % (self.list_expr(scope, d + 1), r.choice(["", ", reverse=True"]))
        if k < 0.84:
            return "%s[%s]" % (self.list_expr(scope, d + 1), r.choice(["1:", ":2", "::-1", "::2"]))
        if k < 0.92:
            return "[%s, %s]" % (self.int_expr(scope, 2), self.int_expr(scope, 2))
        return "list(map(abs, %s))" % self.list_expr(scope, d + 1)

    def strlist_expr(self, scope, d=0):
        r = self.rng
        cands = self.names_of("strlist", scope)
        if cands and r.random() < 0.4:
            return r.choice(cands)
        k = r.random()
        if k < 0.4:
            return r.choice(["['a', 'b']", "[]", "['x']", "['pear', 'fig', 'apple']"])
        if k < 0.7:
            return "%s.split(%s)" % (self.str_expr(scope, 2), r.choice(["", "','", "' '"]))
        return "[w.upper() for w in %s]" % self.strlist_expr(scope, d + 1) if d < 1 else "['q']"

    def dict_expr(self, scope, d=0):
        r = self.rng
        cands = self.names_of("dict", scope)
        if cands and r.random() < 0.4:
            return r.choice(cands)
        k = r.random()
        if k < 0.5:
            return r.choice(["{'a': 1, 'b': 2}", "{}", "{'a': 0}", "{'x': 10, 'a': -3, 'longer key': 7}"])
        if k < 0.8:
            return "{k: len(k) for k in %s}" % self.strlist_expr(scope, 1)
        return "dict(a=%s, z=%s)" % (self.int_expr(scope, 2), self.int_expr(scope, 2))

    def tuple_expr(self, scope, d=0):
        return "(%s, %s)" % (self.int_expr(scope, 2), self.str_expr(scope, 2))

    def set_expr(self, scope, d=0):
        r = self.rng
        return r.choice(["{1, 2, 3}", "set()", "{7, 3, 5}", "set(%s)" % self.list_expr(scope, 2),
                         "{v %% 3 for v in %s}" % self.list_expr(scope, 2)])

    def expr_of(self, t, scope):
        return {"int": self.int_expr, "float": self.float_expr, "str": self.str_expr, "bool": self.bool_expr,
                "list": self.list_expr, "dict": self.dict_expr, "tuple": self.tuple_expr, "set": self.set_expr,
                "strlist": self.strlist_expr}[t](scope)

    def any_expr(self, scope):
        t = self.rng.choice(["int", "int", "str", "float", "list", "bool", "dict", "tuple", "set", "strlist"])
        return self.expr_of(t, scope), t

    # ----- statements
    def stmt(self, ind, scope):
        r = self.rng
        self.budget -= 1
        k = r.random()
        table = [
            (0.20, self.s_assign), (0.34, self.s_print), (0.42, self.s_if), (0.49, self.s_for), (0.54, self.s_while),
            (0.61, self.s_input), (0.66, self.s_aug), (0.71, self.s_mutate), (0.77, self.s_try), (0.83, self.s_error),
            (0.87, self.s_multiline), (0.91, self.s_stdout_write), (0.95, self.s_import_use), (1.01, self.s_misc),
        ]
        for p, fn in table:
            if k < p:
                return fn(ind, scope)

    def block(self, ind, scope, n=None):
        n = n or self.rng.randint(1, 3)
        if self.depth >= 3 or self.budget <= 0:
            n = 1
        self.depth += 1
        for _ in range(n):
            if self.depth >= 3:
                self.rng.choice([self.s_assign, self.s_print, self.s_aug])(ind, scope)
            else:
                self.stmt(ind, scope)
        self.depth -= 1

    ANNOTATION_OF = {"int": "int", "str": "str", "list": "list", "dict": "dict", "float": "float", "bool": "bool",
                     "tuple": "tuple", "set": "set", "strlist": "list[str]", "any": "object"}
    # a type name that does not exist: plain CPython evaluates the annotation and stops with NameError on that line
    MISSPELT = ["integer", "strng", "Int", "string", "number", "List[int]", "boolean", "array", "Str"]

    def annotation(self, t):
        r = self.rng
        if r.random() < 0.06:
            self.shape.add("annotation-misspelt")
            return r.choice(self.MISSPELT)
        self.shape.add("annotation")
        k = r.random()
        if k < 0.15:
            return "'%s'" % self.ANNOTATION_OF.get(t, "object")          # a string annotation stays a string
        if k < 0.25:
            return "%s | None" % self.ANNOTATION_OF.get(t, "object")
        return self.ANNOTATION_OF.get(t, "object")

    def s_assign(self, ind, scope):
        e, t = self.any_expr(scope)
        n = self.pick_name(t)
        if self.rng.random() < 0.07:
            self.emit("%s: %s = %s" % (n, self.annotation(t), e), ind)
        else:
            self.emit("%s = %s" % (n, e), ind)
        scope[n] = t
        if self.rng.random() < 0.05 and t == "tuple":
            self.emit("p0, p1 = %s" % n, ind)
            scope["p0"], scope["p1"] = "int", "str"

    def s_print(self, ind, scope):
        r = self.rng
        n = r.choice([0, 1, 1, 1, 2, 2, 3])
        args = [self.any_expr(scope)[0] for _ in range(n)]
        kw = []
        if r.random() < 0.3:
            kw.append("sep=%s" % r.choice(["'-'", "''", "', '", "'\\n'", "None"] + (ODD_LITERALS if r.random() < 0.3 else [])))
        if r.random() < 0.3:
            kw.append("end=%s" % r.choice(["''", "'!\\n'", "' '", "'\\n\\n'", "None"] + (ODD_LITERALS if r.random() < 0.3 else [])))
        if r.random() < 0.05:
            self.imports.add("sys")
            kw.append("file=sys.stdout")
        if r.random() < 0.05:
            kw.append("flush=True")
        self.emit("print(%s)" % ", ".join(args + kw), ind)

    def s_if(self, ind, scope):
        self.emit("if %s:" % self.bool_expr(scope), ind)
        self.block(ind + 1, scope)
        if self.rng.random() < 0.3:
            self.emit("elif %s:" % self.bool_expr(scope), ind)
            self.block(ind + 1, scope)
        if self.rng.random() < 0.5:
            self.emit("else:", ind)
            self.block(ind + 1, scope)

    def s_for(self, ind, scope):
        r = self.rng
        var = r.choice(["i", "j", "k", "item"])
        src = r.choice(["range(%d)" % r.randint(0, 4), "range(1, %d)" % r.randint(1, 5),
                        "list(%s)" % self.list_expr(scope, 1),      # a copy: the body may mutate the list
                        "enumerate(%s[:4])" % self.str_expr(scope, 2)])     # bounded, whatever the body appends
        if src.startswith("enumerate"):
            self.emit("for %s, ch in %s:" % (var, src), ind)
            scope["ch"] = "str"
        else:
            self.emit("for %s in %s:" % (var, src), ind)
        scope[var] = "int"
        self.block(ind + 1, scope)
        if r.random() < 0.15:
            self.emit("    " + r.choice(["break", "continue"]), ind)
        if r.random() < 0.1:
            self.emit("else:", ind)
            self.emit("    print('for-else')", ind)

    def s_while(self, ind, scope):
        r = self.rng
        c = r.choice(["w", "steps", "left"]) + str(ind)
        self.emit("%s = %d" % (c, r.randint(0, 4)), ind)
        scope.pop(c, None)              # the counter is not offered to the body (termination)
        self.emit("while %s > 0:" % c, ind)
        self.block(ind + 1, scope, n=r.randint(1, 2))
        scope.pop(c, None)
        self.emit("    %s -= 1" % c, ind)
        scope[c] = "int"

    def s_input(self, ind, scope):
        r = self.rng
        p = r.choice(PROMPTS + (ODD_PROMPTS if r.random() < 0.15 else []))
        call = "input(%s)" % (p if p is not None else "")
        self.n_inputs += 1
        self.shape.add("input")
        k = r.random()
        if k < 0.5:
            n = self.pick_name("str")
            self.emit("%s = %s" % (n, call), ind)
            scope[n] = "str"
        elif k < 0.8:
            n = self.pick_name("int")
            self.emit("%s = int(%s)" % (n, call), ind)
            scope[n] = "int"
        elif k < 0.9:
            n = self.pick_name("float")
            self.emit("%s = float(%s)" % (n, call), ind)
            scope[n] = "float"
        else:
            self.emit("print('You said', %s)" % call, ind)

    def s_aug(self, ind, scope):
        r = self.rng
        ints = self.names_of("int", scope)
        if ints and r.random() < 0.6:
            op = r.choice(["+=", "-=", "*=", "//=", "%="])
            self.emit("%s %s %s" % (r.choice(ints), op,
                                    r.choice(["1", "2", "3"] + ([self.int_expr(scope, 2)] if op != "*=" else []))), ind)
            return
        strs = self.names_of("str", scope)
        if strs:
            self.emit("%s += %s" % (r.choice(strs), self.str_expr(scope, 9)), ind)
            return
        self.s_assign(ind, scope)

    def s_mutate(self, ind, scope):
        r = self.rng
        ls, ds = self.names_of("list", scope), self.names_of("dict", scope)
        k = r.random()
        if ls and k < 0.6:
            l = r.choice(ls)
            self.emit(r.choice(["%s.append(%s)" % (l, self.int_expr(scope, 2)), "%s.sort()" % l, "%s.reverse()" % l,
                                "%s.pop()" % l, "%s[0] = %s" % (l, self.int_expr(scope, 2)),
                                "%s.extend([9, 8])" % l, "%s.remove(1)" % l, "%s.insert(1, 4)" % l,
                                "del %s[0]" % l]), ind)
        elif ds:
            d = r.choice(ds)
            self.emit(r.choice(["%s['k%d'] = %s" % (d, r.randint(0, 2), self.int_expr(scope, 2)),
                                "%s.pop('a')" % d, "%s.update({'u': 1})" % d, "del %s['b']" % d,
                                "%s.setdefault('a', 5)" % d]), ind)
        else:
            self.s_assign(ind, scope)

    def s_try(self, ind, scope):
        r = self.rng
        self.shape.add("try")
        self.emit("try:", ind)
        self.block(ind + 1, scope, n=1)
        if r.random() < 0.7:
            self.error_line(ind + 1, scope)
        excs = r.choice(["ZeroDivisionError", "ValueError", "(IndexError, KeyError)", "Exception", "TypeError",
                         "NameError", "ArithmeticError", "LookupError"])
        asname = r.random() < 0.5
        self.emit("except %s%s:" % (excs, " as err" if asname else ""), ind)
        if asname and r.random() < 0.6:
            self.emit("    print('caught', type(err).__name__, err)", ind)
        else:
            self.emit("    print('caught')", ind)
        if r.random() < 0.15:
            self.emit("    raise", ind)
        if r.random() < 0.2:
            self.emit("else:", ind)
            self.emit("    print('no error')", ind)
        if r.random() < 0.3:
            self.emit("finally:", ind)
            self.emit("    fin = %s" % self.int_expr(scope, 2), ind)
            scope["fin"] = "int"

    ERRORS = [
        "boom = 1 // 0", "boom = [1, 2][5]", "boom = {'a': 1}['zz']", "boom = int('x1')", "boom = undefined_name + 1",
        "boom = 'a' + 1", "boom = None.attr", "boom = len(5)", "boom = float('abc')", "raise ValueError('bad value')",
        "raise RuntimeError", "assert 1 == 2, 'nope'", "boom = (1).real.missing", "boom = [].pop()",
        "boom = 'abc'.index('z')", "a_list, b_list = [1, 2, 3]", "boom = 1 / 0.0", "boom = {}.popitem()",
        "boom = {1, 2} + {3}", "boom = int(None)", "boom = next(iter([]))", "boom = 2 ** 'x'", "raise KeyError('k')",
        "raise IndexError", "boom = 5()", "boom = 'x'.nope()", "import not_a_real_module_xyz",
        "from math import not_there", "boom = max([])", "boom = chr(-1)", "boom = [0] * 'a'", "raise StopIteration",
        "raise OSError('disk')", "raise ZeroDivisionError('custom')",
    ]

    def error_line(self, ind, scope):
        self.shape.add("planted-error")
        self.emit(self.rng.choice(self.ERRORS), ind)

    def s_error(self, ind, scope):
        if self.rng.random() < 0.45:
            self.error_line(ind, scope)
        elif self.rng.random() < 0.3:
            self.shape.add("custom-exception")
            self.emit("class MyError(%s):" % self.rng.choice(["Exception", "ValueError", "KeyError"]), ind)
            self.emit("    pass", ind)
            self.emit("raise MyError(%s)" % self.rng.choice(["'bad'", "", "1, 2"]), ind)
        else:
            self.s_assign(ind, scope)

    def s_multiline(self, ind, scope):
        r = self.rng
        self.shape.add("multiline")
        k = r.random()
        if k < 0.35:
            n = self.pick_name("list")
            self.emit("%s = [" % n, ind)
            for _ in range(r.randint(1, 3)):
                self.emit("    %s," % self.int_expr(scope, 1), ind)
            if r.random() < 0.3:
                self.emit("    1 // 0,", ind)
            self.emit("]", ind)
            scope[n] = "list"
        elif k < 0.65:
            self.emit("print(", ind)
            self.emit("    %s," % self.any_expr(scope)[0], ind)
            self.emit("    %s," % r.choice([self.any_expr(scope)[0], "[1][3]", "int('q')"]), ind)
            self.emit("    sep='|')", ind)
        elif k < 0.85:
            n = self.pick_name("int")
            self.emit("%s = %s + \\" % (n, self.int_expr(scope, 1)), ind)
            self.emit("    %s" % r.choice([self.int_expr(scope, 1), "(1 % 0)"]), ind)
            scope[n] = "int"
        else:
            n = self.pick_name("str")
            self.emit('%s = """first' % n, ind)
            self.lines.append("second %d" % r.randint(0, 9))
            self.lines.append('third"""')
            scope[n] = "str"

    def s_stdout_write(self, ind, scope):
        self.imports.add("sys")
        self.shape.add("sys.stdout.write")
        self.emit("sys.stdout.write(%s)" % self.str_expr(scope, 1), ind)

    def s_import_use(self, ind, scope):
        r = self.rng
        k = r.random()
        self.shape.add("stdlib")
        if k < 0.3:
            self.imports.add("random")
            self.emit("random.seed(%d)" % r.randint(0, 99), ind)
            n = self.pick_name("int")
            self.emit("%s = random.randint(1, 100)" % n, ind)
            scope[n] = "int"
        elif k < 0.5:
            self.imports.add("math")
            n = self.pick_name("float")
            self.emit("%s = math.%s" % (n, r.choice(["pi", "e", "sqrt(2)", "floor(2.7) / 2", "sqrt(-1)", "log(0)"])), ind)
            scope[n] = "float"
        elif k < 0.65:
            self.emit("from math import sqrt as root, ceil", ind)
            self.emit("print(root(16), ceil(2.1))", ind)
        elif k < 0.78:
            self.imports.add("string")
            self.emit("print(string.ascii_lowercase[:5], string.digits)", ind)
        elif k < 0.88:
            self.emit("import time", ind)
            self.emit("time.sleep(0)", ind)
        else:
            self.emit("from collections import Counter", ind)
            self.emit("print(sorted(Counter(%s).items()))" % self.str_expr(scope, 1), ind)

    def s_misc(self, ind, scope):
        r = self.rng
        k = r.random()
        if k < 0.2:
            self.emit("if __name__ == '__main__':", ind)
            self.emit("    print('main', __name__)", ind)
            self.shape.add("__name__")
        elif k < 0.35 and [n for n in scope if n not in OVERRIDE_LIKE] and not self.in_func:
            n = r.choice(sorted(n for n in scope if n not in OVERRIDE_LIKE))
            self.emit("del %s" % n, ind)
            del scope[n]
            self.shape.add("del")
        elif k < 0.5:
            self.emit("pass", ind)
        elif k < 0.62:
            self.emit("print(sorted(%s))" % self.set_expr(scope), ind)
        elif k < 0.74:
            n = self.pick_name("int")
            self.emit("%s = (lambda q: q * 2)(%s)" % (n, self.int_expr(scope, 1)), ind)
            scope[n] = "int"
        elif k < 0.86:
            self.emit("x1, y1 = %s, %s" % (self.int_expr(scope, 1), self.str_expr(scope, 1)), ind)
            scope["x1"], scope["y1"] = "int", "str"
        elif k < 0.92:
            self.emit("# a comment: ünï %s" % r.choice(["", "print('no')", "'''"]), ind)
        elif k < 0.96:
            # what an optimising compilation would drop
            self.shape.add("assert")
            self.emit(r.choice(["assert %s" % self.bool_expr(scope), "assert %s, %s" % (self.bool_expr(scope), self.str_expr(scope, 2)),
                                "assert __debug__", "print('debug build' if __debug__ else 'optimised build')"]), ind)
        else:
            # an expression statement: evaluated, never shown
            self.shape.add("expression-statement")
            self.emit(self.any_expr(scope)[0], ind)

    # ----- definitions
    def def_function(self):
        r = self.rng
        pool = FUNC_NAMES + (OVERRIDE_LIKE if r.random() < 0.12 else [])
        name = r.choice(pool)
        if name in OVERRIDE_LIKE:
            self.shape.add("function-named-like-override")
        takes = r.choice(["int", "int", "list", "str", "any"])
        arity = r.choice([0, 1, 1, 2, 2, 3])
        params = ["p%d" % i for i in range(arity)]
        if arity and r.random() < 0.15:
            # parameters NAMED like the parameters of the grader's own call() / run() (target, inputs, report, ...): a
            # keyword argument with such a name has to reach the student's function all the same
            picked = r.sample(self.WRAPPER_NAMES, min(len(self.WRAPPER_NAMES), r.randint(1, arity)))
            for i, n in enumerate(picked):
                if n not in self.vars and n not in self.funcs:
                    params[arity - 1 - i] = n
            self.shape.add("wrapper-named-parameter")
        defaults = r.choice([0, 0, 1]) if arity else 0
        sig = []
        for i, p in enumerate(params):
            if i >= arity - defaults:
                sig.append("%s=%s" % (p, {"int": "2", "list": "None", "str": "'dflt'", "any": "None"}[takes]))
            else:
                sig.append(p)
        star = r.random() < 0.08
        if star:
            sig.append("*rest")
        kwonly = r.random() < 0.08
        if kwonly:
            sig.append("**opts")
        self.funcs[name] = {"arity": arity, "defaults": defaults, "takes": takes, "params": params, "star": star,
                            "kwonly": kwonly}
        returns = ""
        if r.random() < 0.22:           # annotated signature (evaluated when the def statement runs)
            sig = [(x.split("=")[0] + ": " + self.annotation(takes) + (" = " + x.split("=", 1)[1] if "=" in x else ""))
                   if not x.startswith("*") and r.random() < 0.8 else x for x in sig]
            if r.random() < 0.6:
                returns = " -> " + self.annotation(r.choice(["int", "str", "list", "any"]))
        decorated = r.random() < 0.07
        if decorated:
            self.shape.add("decorator")
            if "noted" not in self.funcs_helpers:
                self.funcs_helpers.add("noted")
                self.emit("def noted(fn):", 0)
                self.emit("    def inner(*a, **k):", 0)
                self.emit("        return fn(*a, **k)", 0)
                self.emit("    inner.__name__ = fn.__name__", 0)
                self.emit("    inner.__doc__ = fn.__doc__", 0)
                self.emit("    return inner", 0)
            for line in r.choice([["@noted"], ["@noted"], ["@noted", "@noted"], ["@undefined_decorator"]]):
                self.emit(line, 0)
        self.emit("def %s(%s)%s:" % (name, ", ".join(sig), returns), 0)
        self.vars.pop(name, None)       # the name now holds a function: never printed (its repr has an address)
        documented = r.random() < 0.15
        if documented:
            self.shape.add("docstring")
            self.emit('    """%s"""' % r.choice(["Compute something.", "Return the value.\n\n    More text.\n    ", "ünï doc"]), 0)
        local = {}
        if takes != "any":
            for p in params:
                local[p] = takes
        self.in_func = True
        saved_budget, self.budget = self.budget, r.randint(1, 4)
        body_kind = r.random()
        if r.random() < 0.2 and self.names_of("int"):
            gname = r.choice(self.names_of("int"))
            self.emit("    global %s" % gname, 0)
            self.emit("    %s += 1" % gname, 0)
            self.shape.add("global-stmt")
        if body_kind < 0.5:
            self.depth += 1
            self.block(1, local, n=r.randint(1, 2))
            self.depth -= 1
        if r.random() < 0.15:
            self.emit("    print('in %s', %s)" % (name, ", ".join(params) or "'-'"), 0)
        ret = r.random()
        if takes == "any":
            rexp = r.choice(["(%s)" % ", ".join(params + ["'t'"]), "[%s]" % ", ".join(params), "repr(%s)" % (params[0] if params else "1"),
                             "type(%s).__name__" % (params[0] if params else "1"),
                             "{'got': %s}" % (params[0] if params else "0"),
                             "%s" % (params[0] if params else "None"),
                             "%s == %s" % (params[0], params[0]) if params else "True",
                             "len(%s)" % params[0] if params else "0",
                             "str(%s) + '!'" % params[0] if params else "'!'",
                             "%s[0]" % params[0] if params else "0"])
        elif ret < 0.8:
            rexp = self.expr_of(r.choice(["int", "str", "list", "bool", "tuple", "float", "dict"]), local)
        else:
            rexp = None
        if star and r.random() < 0.7:
            rexp = "(%s, rest)" % (rexp or "None")
        if kwonly and r.random() < 0.7:
            rexp = "(%s, sorted(opts.items()))" % (rexp or "None")
        if rexp is not None:
            if r.random() < 0.15:
                self.emit("    if %s:" % self.bool_expr(local), 0)
                self.emit("        return %s" % r.choice(["None", "-1", "'early'"]), 0)
            self.emit("    return %s" % rexp, 0)
        elif body_kind >= 0.5:
            self.emit("    pass", 0)
        self.in_func = False
        self.budget = saved_budget
        self.funcs[name]["defined"] = True
        self.shape.add("def")
        if documented and r.random() < 0.5:
            self.emit("print(%s.__doc__, %s.__name__)" % (name, name), 0)
        if returns and r.random() < 0.5 and not decorated:
            self.emit("print(sorted(%s.__annotations__), %s)" % (
                name, r.choice(["[type(v).__name__ for v in %s.__annotations__.values()]" % name,
                                "%s.__annotations__.get('return')" % name])), 0)
        if r.random() < 0.08:     # recursion
            self.emit("def fact(n):", 0)
            self.emit("    return 1 if n < 2 else n * fact(n - 1)", 0)
            self.funcs["fact"] = {"arity": 1, "defaults": 0, "takes": "int", "params": ["n"], "star": False,
                                  "kwonly": False, "defined": True}
        if r.random() < 0.10:     # a call chain of boundary depth with a planted error (or a value) at the bottom
            self.shape.add("deep-chain")
            bottom = r.choice(self.ERRORS + ["return 0", "return [n]"])
            if not bottom.startswith(("raise", "return", "assert", "import", "from")):
                bottom = bottom.replace("boom = ", "return ")
            self.emit("def dive(n, trail=()):", 0)
            self.emit("    if n <= 0:", 0)
            self.emit("        %s" % bottom, 0)
            if r.random() < 0.3:
                self.emit("    print('dive', n)", 0)
            self.emit("    below = dive(n - 1, trail + (n,))", 0)
            self.emit("    return below", 0)
            self.funcs["dive"] = {"arity": 1, "defaults": 0, "takes": "depth", "params": ["n"], "star": False,
                                  "kwonly": False, "defined": True}

    def def_class(self):
        r = self.rng
        name = r.choice(CLASS_NAMES)
        self.vars.pop(name, None)
        self.classes.append(name)
        self.shape.add("class")
        base = ""
        self.emit("class %s%s:" % (name, base), 0)
        if r.random() < 0.3:
            self.emit("    kind = %s" % r.choice(["'thing'", "3"]), 0)
        self.emit("    def __init__(self, v, w=%s):" % r.choice(["0", "'w'", "None"]), 0)
        self.emit("        self.v = v", 0)
        self.emit("        self.w = w", 0)
        if r.random() < 0.6:
            self.emit("    def __repr__(self):", 0)
            self.emit("        return '%s(%%r, %%r)' %% (self.v, self.w)" % name, 0)
        if r.random() < 0.5:
            self.emit("    def __eq__(self, other):", 0)
            self.emit("        return isinstance(other, %s) and self.v == other.v" % name, 0)
        self.emit("    def bump(self, by=1):", 0)
        self.emit("        self.v = self.v + by", 0)
        self.emit("        return self.v", 0)
        inst = r.choice(["obj", "thing", "p"])
        self.emit("%s = %s(%s)" % (inst, name, self.int_expr(self.vars, 2)), 0)
        self.vars[inst] = "obj"
        self.emit("print(%s.bump(), %s.w, type(%s).__name__, %s.__module__)" % (inst, inst, inst, name), 0)
        if r.random() < 0.3:
            self.emit("%s.bump('x')" % inst, 0)

    SUBCLASSES = [("Bag", "list", ["[1, 2, 3]", "[]", "[5]", "['a', 'b']"]), ("Temp", "float", ["3.5", "-0.0", "1e22"]),
                  ("Label", "str", ["'abc'", "''", "'42'"]), ("Level", "int", ["3", "0", "-7"]),
                  ("Pt", "tuple", ["(1, 'a')", "()", "(3,)"]), ("Reg", "dict", ["{'k': [1, 2]}", "{}"])]

    def def_subclass(self):
        r = self.rng
        name, base, lits = r.choice(self.SUBCLASSES)
        self.shape.add("builtin-subclass")
        self.emit("class %s(%s):" % (name, base), 0)
        self.emit("    def extra(self):", 0)
        self.emit("        return '%s:' + %s.__repr__(self)" % (name, base), 0)
        self.subclasses[name] = (base, lits)
        self.vars.pop(name, None)

    def program(self):
        r = self.rng
        n_defs = r.choice([0, 1, 1, 2])
        pre = r.randint(0, 2)
        if r.random() < 0.04:
            # a global with the name of a builtin the sandbox overrides: bound unconditionally on the first line and
            # never deleted, so the program never reads the (blocked) builtin itself
            n = r.choice(OVERRIDE_LIKE[:4])
            self.emit("%s = %d" % (n, r.randint(1, 9)), 0)
            self.vars[n] = "int"
            self.shape.add("global-named-like-override")
        for _ in range(pre):
            self.stmt(0, self.vars)
        for _ in range(n_defs):
            self.def_function()
        if r.random() < 0.2:
            self.def_class()
        if self.funcs and r.random() < 0.15:
            self.def_subclass()
        while self.budget > 0:
            if self.funcs and r.random() < 0.25:
                fn = r.choice(sorted(self.funcs))
                self.emit("%s = %s(%s)" % (r.choice(["res", "out", "answer"]), fn, ", ".join(self.call_args(fn, inline=True))), 0)
                self.vars.setdefault("res", "any")
                self.budget -= 1
            else:
                self.stmt(0, self.vars)
        header = ["import %s" % m for m in sorted(self.imports)]
        if header and r.random() < 0.15:
            header = ["import " + ", ".join(sorted(self.imports))]
        lines = header + self.lines
        code = "\n".join(lines)
        if r.random() < 0.85:
            code += "\n"
        return code

    DEPTHS = [1, 3, 6, 7, 8, 9, 10, 12, 17, 31, 64]       # replaced by c06.py with the sizes around the tree's constants
    # replaced by c06.py with the parameter names read from pedal/sandbox/commands.py of the tree under test
    WRAPPER_NAMES = ["function", "target", "threaded", "inputs", "function_kwargs", "args_locals", "kwargs_locals", "report",
                     "self", "code", "filename"]

    ARG_EXPRS = {
        "depth": [],
        "int": ["3", "0", "-7", "10**20", "True", "2"],
        "str": ["'abc'", "''", "\"it's\"", "'a\"b'", "'line\\nbreak'", "'ünï'", "'x' * 300", "'\\\\'", "'42'", "'a\\rb'", "'r\\r\\n'",
                "'\\x0c\\x85'", "'\\x00'", "'\\U0001F600'", "' \\t '"],
        "list": ["[1, 2, 3]", "[]", "[5] * 150", "[[1], [2, [3]]]", "['a', 'b']", "list(range(90))"],
        "any": ["None", "3.5", "float('inf')", "float('-inf')", "float('nan')", "-0.0", "1e22", "(1, 'a')", "()",
                "{'k': [1, 2]}", "{}", "{1, 2}", "set()", "frozenset({1})", "b'ab'", "(1+2j)", "range(3)", "[float('nan')]",
                "{'a': float('inf')}", "1e-7", "0.1 + 0.2", "[1.5, None, True]", "'s'", "7", "[]", "(3,)", "[()]",
                "{(1, 2): 'v'}", "bytearray(b'x')", "10**400", "'y' * 201", "'z' * 198", "['ab'] * 60"],
    }

    def call_args(self, fn, inline=False):
        r = self.rng
        info = self.funcs[fn]
        need = info["arity"] - info["defaults"]
        n = need + (r.randint(0, info["defaults"]) if info["defaults"] else 0)
        if r.random() < 0.07:
            n = max(0, n + r.choice([-1, 1]))          # wrong arity: TypeError either way
        if info.get("star") and r.random() < 0.6:
            n += r.randint(1, 2)
        takes = info["takes"]
        out = []
        if takes == "depth":
            return [str(r.choice(self.DEPTHS))]
        for _ in range(n):
            t = takes if r.random() < 0.75 else "any"
            pool = self.ARG_EXPRS[t]
            if inline:
                pool = [p for p in pool if "nan" not in p][:6]
            out.append(r.choice(pool))
        return out

    def follow_up_calls(self):
        r = self.rng
        calls = []
        if not self.funcs:
            return calls
        for _ in range(r.choice([1, 2, 2, 3])):
            fn = r.choice(sorted(self.funcs))
            info = self.funcs[fn]
            args = self.call_args(fn)
            kwargs = {}
            if info["defaults"] and len(args) < info["arity"] and r.random() < 0.5:
                kwargs[info["params"][-1]] = r.choice(self.ARG_EXPRS[info["takes"]])
            if info.get("kwonly") and r.random() < 0.7:
                kwargs[r.choice(["extra", "mode"])] = r.choice(self.ARG_EXPRS["any"])
            if info["arity"] and len(args) < info["arity"] and info["params"][len(args)] in self.WRAPPER_NAMES and r.random() < 0.7:
                # the next parameter by keyword - its name is one of call()'s own
                kwargs[info["params"][len(args)]] = r.choice(self.ARG_EXPRS[info["takes"]] or ["3"])
            c = {"fn": fn, "args": args, "kwargs": kwargs}
            # a keyword named like a parameter of call() itself travels through function_kwargs= (the documented way)
            fkw = {k: v for k, v in kwargs.items() if k in self.WRAPPER_NAMES}
            if fkw:
                c["kwargs"] = {k: v for k, v in kwargs.items() if k not in fkw}
                c["fkw"] = fkw
            if r.random() < 0.25:
                c["target"] = r.choice(["res", "answer", "_out", "x"])
            if r.random() < 0.15:
                c["inputs"] = [r.choice(INPUT_POOL) for _ in range(r.randint(1, 3))]
            calls.append(c)
        # look-alikes one after the other: a plain value and an instance of the program's own subclass of that type with
        # the same text (the grader builds it from the student's class: "scope": "student"), in either order
        takers = [f for f in sorted(self.funcs) if self.funcs[f]["arity"] - self.funcs[f]["defaults"] <= 1 <= self.funcs[f]["arity"]
                  and self.funcs[f]["takes"] != "depth"]
        for name, (base, lits) in sorted(self.subclasses.items()):
            if not takers:
                break
            fn = r.choice(takers)
            lit = r.choice(lits)
            pair = [{"fn": fn, "args": [lit], "kwargs": {}, "scope": "student"},
                    {"fn": fn, "args": ["%s(%s)" % (name, lit)], "kwargs": {}, "scope": "student"}]
            if r.random() < 0.4:
                pair.reverse()
            if r.random() < 0.5:
                pair.append(dict(pair[0]))
            calls += pair
            self.shape.add("look-alike-calls")
        return calls


def gen_case(rng, size="small", exhausted_ok=False):
    g = G(rng, size)
    code = g.program()
    n_in = code.count("input(")
    # loops and functions may repeat an input(): be generous unless the exhausted queue is wanted
    if exhausted_ok:
        inputs = [rng.choice(INPUT_POOL) for _ in range(rng.randint(0, max(0, n_in)))]
    else:
        inputs = [rng.choice(INPUT_POOL) for _ in range(n_in * 6 + rng.randint(0, 2))]
    if rng.random() < 0.6:          # mostly numeric replies, so that int(input()) usually succeeds
        inputs = [x if x.strip().lstrip("-").isdigit() else rng.choice(["4", "0", "17", " 8", "-3"]) for x in inputs]
    elif inputs and rng.random() < 0.25:
        inputs = [rng.choice(ODD_INPUTS) if rng.random() < 0.5 else x for x in inputs]
        g.shape.add("odd-reply")
    if rng.random() < 0.03 and '"""' not in code:
        code = code.replace("\n", "\r\n")          # Windows line endings: same line numbers for CPython
        g.shape.add("crlf")
    case = {"code": code, "filename": rng.choice(["answer.py", "answer.py", "answer.py", "student.py", "hw 1.py"]),
            "inputs": inputs, "calls": g.follow_up_calls(), "api": rng.choice(["commands", "sandbox"]),
            "shape": sorted(g.shape)}
    return case

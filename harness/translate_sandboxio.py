"""
Regenerates lean/PedalModel/Gen/SandboxIOGen.lean from the tree under test (C15).

Four facts are translated from pedal/sandbox/sandbox.py; each is READ from the AST (primary) and MEASURED on a
fresh sandbox through the public API (cross-check, and fallback where the reading ends in `unknown`):

  * the condition under which `Sandbox.append_output` touches the line view, as a boolean expression
    (`GuardExpr`) over three observations of one call: own   = this execution's text is non-empty,
                                                        prior = the raw output before the call is non-empty,
                                                        acc   = the raw output after `+=` is non-empty.
    Reading = a small path-wise symbolic execution of the method body: early returns, else-branches, negations,
    `and`/`or`, conditional expressions, `bool(x)`, `len(x) > 0`, `x != ""`, flags kept in locals, walrus, private
    helper methods of Sandbox (inlined, also when the guard or the extend lives in the helper), for-loops over a
    `.split(sep)` result, `self.output.extend/append/+=`.  Whatever is not understood becomes `.unknown`.
    The Lean obligation (`guard_sem`) evaluates the generated expression on all four observations, so every
    expression that MEANS "own text non-empty" is accepted and every other one (accumulated, always, unknown) fails.
  * which end of the queue the mocked input() takes its value from (front / back / unknown) and
  * the string it returns when the queue is empty (the default input).
    Reading = the function installed with `mock_function('input', ...)` is located (factory method -> returned
    nested def / lambda / bound private method; the names `_track_inputs` / `_input_tracker` are only a fallback), every
    value it can return is followed back through locals, conditional expressions, aliases of `self.inputs`
    and private helper methods to its leaves: a call of the installed callable, `<queue>.pop(i)` / `<queue>[i]` +
    `del <queue>[i]`, a string constant (also through class / module level constants).  One kind of pop and one
    constant must remain and no leaf may be left unexplained; otherwise `unknown`.
  * WHEN the installed input() resolves the queue (`queueLookup`): `atCall` if it evaluates `self.inputs` (directly, via a
    per-call alias or an inlined helper method) each time it runs, `atCreation` if it uses a name or default argument
    that the enclosing factory bound to `self.inputs` once.  Student code can keep a reference to `input` beyond the
    execution that installed it (`ask = input`, a helper module, a generator); only with `atCall` does such a reference
    see the queue as it is when it is called.  Obligation `lookup_at_call`.  Measured with kept references + the queue
    rebound (clear_input / set_input(None) / callable then None) + new values queued.

Measuring (probe): histories run through harness/sandboxio_common.run_real (pedal.sandbox.commands on a fresh
sandbox): whether an execution (silent / writing, after a silent / writing one, several texts incl. whitespace-only)
makes the line view longer; which values two reads get from queues of three lengths and what is left; what reads
from an empty / exhausted queue return.  An inconsistent measurement is `unknown`.

Combination, per fact: reading and measurement agree -> the reading; reading `unknown`, measurement definite ->
the measurement ("probed"); both definite and different -> `unknown` (never guess); both unknown -> `unknown`.
`unknown` makes `guard_sem` / `popQueue_cons` / `default_known` fail to build.

The control flow around these facts stays hand-modelled (PedalModel/SandboxIO.lean) and validated by the correspondence.
"""
import ast
import hashlib
import os

from common import LEAN_DIR, REPO, lean_str, write_if_changed

OUT = os.path.join(LEAN_DIR, "PedalModel", "Gen", "SandboxIOGen.lean")
MAX_INLINE = 4


# --------------------------------------------------------------------------
# the class under translation

class Source:
    def __init__(self, tree, cls="Sandbox"):
        self.tree = tree
        self.cls = None
        self.methods = {}
        self.class_consts = {}
        self.module_consts = {}
        for node in tree.body:
            if isinstance(node, ast.ClassDef) and node.name == cls:
                self.cls = node
            for name, value in _const_assigns(node):
                self.module_consts[name] = value
        if self.cls is not None:
            for node in self.cls.body:
                if isinstance(node, (ast.FunctionDef, ast.AsyncFunctionDef)):
                    self.methods[node.name] = node
                for name, value in _const_assigns(node):
                    self.class_consts[name] = value

    def is_static(self, fn):
        return any(isinstance(d, ast.Name) and d.id == "staticmethod" for d in fn.decorator_list)

    def is_classmethod(self, fn):
        return any(isinstance(d, ast.Name) and d.id == "classmethod" for d in fn.decorator_list)

    def method_called(self, call):
        """the Sandbox method a call `self.m(...)` / `Sandbox.m(...)` / `type(self).m(...)` refers to, or None"""
        f = call.func
        if isinstance(f, ast.Attribute) and f.attr in self.methods:
            v = f.value
            if isinstance(v, ast.Name) and v.id in ("self", "cls", self.cls.name):
                return self.methods[f.attr]
            if isinstance(v, ast.Call) and isinstance(v.func, ast.Name) and v.func.id == "type":
                return self.methods[f.attr]
            if isinstance(v, ast.Attribute) and v.attr == "__class__":
                return self.methods[f.attr]
        return None

    def const_value(self, node):
        """a compile-time constant: literal, `-literal`, class constant (`self.X` / `Sandbox.X`), module constant"""
        if isinstance(node, ast.Constant):
            return True, node.value
        if isinstance(node, ast.UnaryOp) and isinstance(node.op, ast.USub) and isinstance(node.operand, ast.Constant) \
                and isinstance(node.operand.value, (int, float)):
            return True, -node.operand.value
        if isinstance(node, ast.Attribute) and isinstance(node.value, ast.Name) \
                and node.value.id in ("self", "cls", self.cls.name if self.cls else "") and node.attr in self.class_consts \
                and node.attr not in self.methods:
            return True, self.class_consts[node.attr]
        if isinstance(node, ast.Name) and node.id in self.module_consts:
            return True, self.module_consts[node.id]
        return False, None


def _const_assigns(node):
    if isinstance(node, ast.Assign) and len(node.targets) == 1 and isinstance(node.targets[0], ast.Name) \
            and isinstance(node.value, ast.Constant):
        yield node.targets[0].id, node.value.value
    if isinstance(node, ast.AnnAssign) and isinstance(node.target, ast.Name) and isinstance(node.value, ast.Constant):
        yield node.target.id, node.value.value


def _is_self_attr(node, attr):
    return (isinstance(node, ast.Attribute) and node.attr == attr and isinstance(node.value, ast.Name)
            and node.value.id == "self")


def _walk_no_nested(node):
    """ast.walk that does not descend into nested function / class definitions / lambdas (except the root)"""
    todo = [node]
    first = True
    while todo:
        n = todo.pop()
        if not first and isinstance(n, (ast.FunctionDef, ast.AsyncFunctionDef, ast.ClassDef, ast.Lambda)):
            continue
        first = False
        yield n
        todo.extend(ast.iter_child_nodes(n))


# --------------------------------------------------------------------------
# boolean expressions: ("own",) ("prior",) ("acc",) ("const", b) ("not", e) ("and", a, b) ("or", a, b) ("unknown", why)

TRUE, FALSE = ("const", True), ("const", False)


def b_unknown(why):
    return ("unknown", why)


def b_not(e):
    if e[0] == "const":
        return ("const", not e[1])
    if e[0] == "not":
        return e[1]
    if e[0] == "unknown":
        return e
    return ("not", e)


def b_and(a, b):
    if a == FALSE or b == FALSE:
        return FALSE
    if a == TRUE:
        return b
    if b == TRUE:
        return a
    if a == b:
        return a
    return ("and", a, b)


def b_or(a, b):
    if a == TRUE or b == TRUE:
        return TRUE
    if a == FALSE:
        return b
    if b == FALSE:
        return a
    if a == b:
        return a
    return ("or", a, b)


def b_eval(e, p, o):
    """value on the observation (prior non-empty = p, own non-empty = o); None = not known"""
    k = e[0]
    if k == "own":
        return o
    if k == "prior":
        return p
    if k == "acc":
        return p or o
    if k == "const":
        return e[1]
    if k == "not":
        v = b_eval(e[1], p, o)
        return None if v is None else not v
    if k in ("and", "or"):
        x, y = b_eval(e[1], p, o), b_eval(e[2], p, o)
        if x is None or y is None:
            return None
        return (x and y) if k == "and" else (x or y)
    return None


OBSERVATIONS = [(False, False), (False, True), (True, False), (True, True)]


def b_table(e):
    """tuple of values over OBSERVATIONS, or None if any is unknown"""
    vals = tuple(b_eval(e, p, o) for p, o in OBSERVATIONS)
    return None if any(v is None for v in vals) else vals


def b_from_table(tab):
    named = {b_table((k,)): (k,) for k in ("own", "prior", "acc")}
    named[(True,) * 4] = TRUE
    named[(False,) * 4] = FALSE
    if tab in named:
        return named[tab]
    e = FALSE
    for (p, o), v in zip(OBSERVATIONS, tab):
        if v:
            term = b_and(("prior",) if p else b_not(("prior",)), ("own",) if o else b_not(("own",)))
            e = b_or(e, term)
    return e


def b_lean(e):
    k = e[0]
    if k in ("own", "prior", "acc"):
        return "." + k
    if k == "const":
        return "(.const %s)" % ("true" if e[1] else "false")
    if k == "not":
        return "(.not %s)" % b_lean(e[1])
    if k in ("and", "or"):
        return "(.%s %s %s)" % (k, b_lean(e[1]), b_lean(e[2]))
    return ".unknown"


def b_text(e):
    k = e[0]
    if k in ("own", "prior", "acc"):
        return k
    if k == "const":
        return str(e[1])
    if k == "not":
        return "not " + b_text(e[1])
    if k in ("and", "or"):
        return "(%s %s %s)" % (b_text(e[1]), k, b_text(e[2]))
    return "unknown[%s]" % (e[1] if len(e) > 1 else "")


def b_has_unknown(e):
    return e[0] == "unknown" or any(isinstance(x, tuple) and b_has_unknown(x) for x in e[1:])


# --------------------------------------------------------------------------
# append_output: path-wise symbolic execution
#
# symbolic values: ("str", atom)  a string, non-empty iff atom (own / prior / acc)
#                  ("len", atom)  an int, > 0 iff atom
#                  ("const", v) | ("bool", bexpr) | ("other", why)

class _State:
    def __init__(self, env, raw="prior", ext=FALSE, aliases=None):
        self.env = env              # local name -> (symbolic value, bexpr "iterating it yields an element")
        self.raw = raw              # what `self.raw_output` is at this point: "prior" / "acc" / None (not understood)
        self.ext = ext              # bexpr: the line view has been touched on this path
        self.aliases = aliases or set()     # local names bound to `self.output`

    def copy(self):
        return _State(dict(self.env), self.raw, self.ext, set(self.aliases))


class GuardReader:
    def __init__(self, src):
        self.src = src

    # ---- the line view and statements that touch it
    def _is_view(self, node, st):
        return _is_self_attr(node, "output") or (isinstance(node, ast.Name) and node.id in st.aliases)

    def _touches_view(self, node, st=None, depth=0, seen=None):
        """does any code under `node` (helper methods followed) modify `self.output`?"""
        seen = seen if seen is not None else set()
        aliases = st.aliases if st is not None else set()

        def view(n):
            return _is_self_attr(n, "output") or (isinstance(n, ast.Name) and n.id in aliases)
        for sub in ast.walk(node):
            if isinstance(sub, ast.Call) and isinstance(sub.func, ast.Attribute) and view(sub.func.value) \
                    and sub.func.attr in ("extend", "append", "insert", "__iadd__", "clear", "pop", "remove", "sort",
                                          "reverse", "__setitem__", "__delitem__"):
                return True
            if isinstance(sub, ast.AugAssign) and (view(sub.target) or (isinstance(sub.target, ast.Subscript)
                                                                       and view(sub.target.value))):
                return True
            if isinstance(sub, (ast.Assign, ast.Delete)):
                for t in sub.targets:
                    if view(t) or (isinstance(t, ast.Subscript) and view(t.value)):
                        return True
            if isinstance(sub, ast.Call):
                m = self.src.method_called(sub)
                if m is not None and m.name not in seen and depth < 8:
                    seen.add(m.name)
                    if self._touches_view(m, None, depth + 1, seen):
                        return True
                # the view handed to foreign code
                if m is None and any(view(a) for a in list(sub.args) + [k.value for k in sub.keywords]) \
                        and not (isinstance(sub.func, ast.Name) and sub.func.id in ("len", "list", "tuple", "bool", "str",
                                                                                    "repr", "print", "id", "type")):
                    return True
        return False

    # ---- expressions
    def sym(self, node, st):
        if isinstance(node, ast.Name):
            if node.id in st.env:
                return st.env[node.id][0]
            ok, v = self.src.const_value(node)
            return ("const", v) if ok else ("other", "name " + node.id)
        if _is_self_attr(node, "raw_output"):
            return ("str", st.raw) if st.raw else ("other", "self.raw_output after an update that was not understood")
        ok, v = self.src.const_value(node)
        if ok:
            return ("const", v)
        if isinstance(node, ast.Call) and isinstance(node.func, ast.Name) and len(node.args) == 1 and not node.keywords:
            inner = self.sym(node.args[0], st)
            if node.func.id == "bool":
                return ("bool", self.truth(inner))
            if node.func.id == "len" and inner[0] == "str":
                return ("len", inner[1])
            if node.func.id == "len" and inner[0] == "const" and isinstance(inner[1], (str, list, tuple)):
                return ("const", len(inner[1]))
            if node.func.id == "str" and inner[0] == "str":
                return inner
        if isinstance(node, (ast.UnaryOp, ast.BoolOp, ast.Compare, ast.IfExp, ast.NamedExpr)):
            if isinstance(node, ast.NamedExpr):
                v = self.sym(node.value, st)
                st.env[node.target.id] = (v, self.ne(node.value, st))
                return v
            if isinstance(node, ast.IfExp):
                c = self.test(node.test, st)
                a, b = self.sym(node.body, st), self.sym(node.orelse, st)
                if c == TRUE:
                    return a
                if c == FALSE:
                    return b
                if a == b:
                    return a
            if isinstance(node, ast.UnaryOp) and not isinstance(node.op, ast.Not):
                return ("other", ast.unparse(node))
            return ("bool", self.test(node, st))
        return ("other", ast.unparse(node)[:60])

    def truth(self, v):
        if v[0] in ("str", "len"):
            return (v[1],)
        if v[0] == "const":
            try:
                return ("const", bool(v[1]))
            except Exception:
                return b_unknown("truth of constant")
        if v[0] == "bool":
            return v[1]
        return b_unknown(v[1])

    def test(self, node, st):
        if isinstance(node, ast.UnaryOp) and isinstance(node.op, ast.Not):
            return b_not(self.test(node.operand, st))
        if isinstance(node, ast.BoolOp):
            parts = [self.test(v, st) for v in node.values]
            acc = parts[0]
            for p in parts[1:]:
                acc = b_and(acc, p) if isinstance(node.op, ast.And) else b_or(acc, p)
            return acc
        if isinstance(node, ast.IfExp):
            c, a, b = self.test(node.test, st), self.test(node.body, st), self.test(node.orelse, st)
            return b_or(b_and(c, a), b_and(b_not(c), b))
        if isinstance(node, ast.Compare) and len(node.ops) == 1:
            return self._compare(self.sym(node.left, st), node.ops[0], self.sym(node.comparators[0], st), node)
        return self.truth(self.sym(node, st))

    _FLIP = {ast.Lt: ast.Gt, ast.Gt: ast.Lt, ast.LtE: ast.GtE, ast.GtE: ast.LtE, ast.Eq: ast.Eq, ast.NotEq: ast.NotEq}

    def _compare(self, left, op, right, node):
        why = b_unknown(ast.unparse(node)[:60])
        if left[0] == "const" and right[0] != "const":
            flipped = self._FLIP.get(type(op))
            if flipped is None:
                return why
            left, right, op = right, left, flipped()
        if left[0] == "const" and right[0] == "const":
            try:
                fn = {ast.Eq: lambda a, b: a == b, ast.NotEq: lambda a, b: a != b, ast.Lt: lambda a, b: a < b,
                      ast.LtE: lambda a, b: a <= b, ast.Gt: lambda a, b: a > b, ast.GtE: lambda a, b: a >= b}[type(op)]
                return ("const", bool(fn(left[1], right[1])))
            except Exception:
                return why
        if right[0] != "const":
            return why
        c = right[1]
        if left[0] == "str" and isinstance(c, str) and c == "":
            if isinstance(op, ast.NotEq):
                return (left[1],)
            if isinstance(op, ast.Eq):
                return b_not((left[1],))
            return why
        if left[0] == "len" and isinstance(c, int) and not isinstance(c, bool):
            atom = (left[1],)
            # len(x) is a natural number: decide `len(x) op c` from "x is non-empty" where that is possible
            if isinstance(op, ast.Gt) and c == 0 or isinstance(op, ast.GtE) and c == 1 or isinstance(op, ast.NotEq) and c == 0:
                return atom
            if isinstance(op, ast.Eq) and c == 0 or isinstance(op, ast.Lt) and c == 1 or isinstance(op, ast.LtE) and c == 0:
                return b_not(atom)
            if isinstance(op, ast.GtE) and c <= 0 or isinstance(op, ast.Gt) and c < 0 or isinstance(op, ast.NotEq) and c < 0:
                return TRUE
            if isinstance(op, ast.Lt) and c <= 0 or isinstance(op, ast.LtE) and c < 0 or isinstance(op, ast.Eq) and c < 0:
                return FALSE
        return why

    def ne(self, node, st, depth=0):
        """bexpr: iterating over the value of `node` yields at least one element (`unknown` where that is not certain):
        `<x>.split(sep)` with an explicit separator always does; literals, comprehensions without filter, list()/tuple()/...
        of such a value, conditional expressions, `a + b`, results of pure private helpers, locals (their value at binding)"""
        why = b_unknown("may be empty: " + ast.unparse(node)[:50])
        if depth > 6:
            return why
        if isinstance(node, ast.Name):
            return st.env[node.id][1] if node.id in st.env else why
        if isinstance(node, ast.IfExp):
            c = self.test(node.test, st)
            return b_or(b_and(c, self.ne(node.body, st, depth + 1)), b_and(b_not(c), self.ne(node.orelse, st, depth + 1)))
        if isinstance(node, (ast.List, ast.Tuple, ast.Set)):
            if any(isinstance(e, ast.Starred) for e in node.elts):
                return why
            return ("const", len(node.elts) > 0)
        if isinstance(node, ast.BinOp) and isinstance(node.op, ast.Add):
            return b_or(self.ne(node.left, st, depth + 1), self.ne(node.right, st, depth + 1))
        if isinstance(node, ast.Call):
            f = node.func
            if isinstance(f, ast.Attribute) and f.attr in ("split", "rsplit"):
                sep = node.args[0] if node.args else next((k.value for k in node.keywords if k.arg == "sep"), None)
                return TRUE if sep is not None and not (isinstance(sep, ast.Constant) and sep.value is None) else why
            if isinstance(f, ast.Name) and f.id in ("list", "tuple", "reversed", "enumerate", "sorted") and len(node.args) >= 1:
                return self.ne(node.args[0], st, depth + 1)
            m = self.src.method_called(node)
            if m is not None and not self._touches_view(m) and not self.src.is_classmethod(m):
                rets = [r for r in _walk_no_nested(m) if isinstance(r, ast.Return)]
                if rets and all(r.value is not None for r in rets):
                    inner = _State(self._bind(m, node, st), st.raw)
                    for stmt in m.body:      # straight-line locals of the helper
                        if isinstance(stmt, ast.Assign) and len(stmt.targets) == 1 and isinstance(stmt.targets[0], ast.Name):
                            inner.env[stmt.targets[0].id] = self.bound(stmt.value, inner)
                    acc = TRUE
                    for r in rets:
                        acc = b_and(acc, self.ne(r.value, inner, depth + 1))
                    return acc
            return why
        if isinstance(node, (ast.ListComp, ast.GeneratorExp)) and len(node.generators) == 1 \
                and not node.generators[0].ifs:
            return self.ne(node.generators[0].iter, st, depth + 1)
        v = self.sym(node, st)
        if v[0] == "str":
            return (v[1],)
        if v[0] == "const" and isinstance(v[1], (str, tuple, list)):
            return ("const", len(v[1]) > 0)
        return why

    def bound(self, node, st):
        """what a local bound to the value of `node` stands for: (symbolic value, yields-an-element bexpr)"""
        return (self.sym(node, st), self.ne(node, st))

    # ---- statements
    def _bind(self, fn, call, st):
        """environment of an inlined helper: parameter -> what the argument stands for"""
        params = [a.arg for a in fn.args.posonlyargs + fn.args.args]
        if not self.src.is_static(fn) and params:
            params = params[1:]
        env = {}
        for name, arg in zip(params, call.args):
            env[name] = (("other", "starred"), b_unknown("starred")) if isinstance(arg, ast.Starred) else self.bound(arg, st)
        for k in call.keywords:
            if k.arg is not None:
                env[k.arg] = self.bound(k.value, st)
        # defaults of parameters that were not passed
        defaults = fn.args.defaults
        allp = [a.arg for a in fn.args.posonlyargs + fn.args.args]
        for name, d in zip(allp[len(allp) - len(defaults):], defaults):
            if name not in env and name != "self":
                env[name] = self.bound(d, _State({}))
        return env

    def block(self, stmts, st, depth):
        """-> list of (path condition, state, flow) with flow in next / return"""
        paths = [(TRUE, st, "next")]
        for stmt in stmts:
            out = []
            for cond, s, flow in paths:
                if flow != "next":
                    out.append((cond, s, flow))
                    continue
                for c2, s2, f2 in self.stmt(stmt, s, depth):
                    c = b_and(cond, c2)
                    if c != FALSE:
                        out.append((c, s2, f2))
            paths = out
            if len(paths) > 256:
                raise _TooComplex("more than 256 paths")
        return paths

    def stmt(self, node, st, depth):
        one = lambda s, flow="next": [(TRUE, s, flow)]      # noqa: E731
        if isinstance(node, ast.Pass) or (isinstance(node, ast.Expr) and isinstance(node.value, ast.Constant)):
            return one(st)
        if isinstance(node, ast.Return):
            if node.value is not None and self._touches_view(node.value, st):
                st.ext = b_or(st.ext, b_unknown("return value touches the line view"))
            return one(st, "return")
        if isinstance(node, ast.If):
            base = st.copy()
            c = self.test(node.test, base)            # (a walrus in the test binds in both branches)
            res = []
            if c != FALSE:
                for c2, s2, f2 in self.block(node.body, base.copy(), depth):
                    res.append((b_and(c, c2), s2, f2))
            if c != TRUE:
                for c2, s2, f2 in self.block(node.orelse, base.copy(), depth):
                    res.append((b_and(b_not(c), c2), s2, f2))
            return res
        if isinstance(node, ast.With):
            if any(self._touches_view(i.context_expr, st) for i in node.items):
                st.ext = b_or(st.ext, b_unknown("with-item touches the line view"))
            return self.block(node.body, st, depth)
        if isinstance(node, ast.Try) and not any(self._touches_view(h, st) for h in node.handlers):
            # the normal (no exception) flow; handlers that cannot reach the line view do not matter for the fact
            res = []
            for c1, s1, f1 in self.block(node.body + node.orelse, st, depth):
                for c2, s2, f2 in self.block(node.finalbody, s1, depth):
                    res.append((b_and(c1, c2), s2, f1 if f2 == "next" else f2))
            return res
        # -- raw output bookkeeping (only to know what `self.raw_output` means in a later test)
        if isinstance(node, ast.AugAssign) and _is_self_attr(node.target, "raw_output"):
            v = self.sym(node.value, st)
            st.raw = "acc" if (isinstance(node.op, ast.Add) and v == ("str", "own") and st.raw == "prior") else None
            return one(st)
        if isinstance(node, ast.Assign) and len(node.targets) == 1 and _is_self_attr(node.targets[0], "raw_output"):
            v = node.value
            ok = (isinstance(v, ast.BinOp) and isinstance(v.op, ast.Add) and _is_self_attr(v.left, "raw_output")
                  and self.sym(v.right, st) == ("str", "own") and st.raw == "prior")
            if not ok and isinstance(v, ast.Call) and isinstance(v.func, ast.Attribute) and v.func.attr == "join" \
                    and isinstance(v.func.value, ast.Constant) and v.func.value.value == "" and len(v.args) == 1 \
                    and isinstance(v.args[0], (ast.List, ast.Tuple)) and len(v.args[0].elts) == 2 \
                    and _is_self_attr(v.args[0].elts[0], "raw_output") \
                    and self.sym(v.args[0].elts[1], st) == ("str", "own") and st.raw == "prior":
                ok = True
            st.raw = "acc" if ok else None
            return one(st)
        # -- the line view
        grows = self._extension(node, st)
        if grows is not None:
            st.ext = b_or(st.ext, grows)
            return one(st)
        if isinstance(node, ast.Expr) and isinstance(node.value, ast.Call):
            m = self.src.method_called(node.value)
            if m is not None and self._touches_view(m):
                if depth >= MAX_INLINE or self.src.is_classmethod(m):
                    st.ext = b_or(st.ext, b_unknown("helper nesting"))
                    return one(st)
                inner = _State(self._bind(m, node.value, st), st.raw, st.ext)
                res = []
                for c2, s2, _flow in self.block(m.body, inner, depth + 1):
                    back = st.copy()
                    back.ext, back.raw = s2.ext, s2.raw
                    res.append((c2, back, "next"))
                return res
        if isinstance(node, ast.For) and self._touches_view(node, st):
            if not node.orelse and not any(isinstance(x, (ast.Break, ast.Continue)) for x in ast.walk(node)):
                runs = self.ne(node.iter, st)      # the body runs at least once
                body_state = st.copy()
                for t in ast.walk(node.target):
                    if isinstance(t, ast.Name):
                        body_state.env[t.id] = (("other", "loop variable"), b_unknown("loop variable"))
                res = self.block(node.body, body_state, depth)
                # the first iteration decides whether the view grows, provided every path through the body falls
                # through (further iterations only repeat the body) and the body's decision does not depend on the item
                if all(f == "next" for _, _, f in res):
                    out = [(b_and(runs, c2), s2, f2) for c2, s2, f2 in res]
                    if runs != TRUE:
                        out.append((b_not(runs), st, "next"))
                    return out
            st.ext = b_or(st.ext, b_unknown("loop that touches the line view"))
            return one(st)
        if isinstance(node, ast.Assign) and len(node.targets) == 1 and isinstance(node.targets[0], ast.Name) \
                and not self._touches_view(node.value, st):
            name = node.targets[0].id
            if _is_self_attr(node.value, "output"):
                st.aliases.add(name)
            else:
                st.aliases.discard(name)
            st.env[name] = self.bound(node.value, st)
            return one(st)
        if isinstance(node, ast.AnnAssign) and isinstance(node.target, ast.Name) and node.value is not None \
                and not self._touches_view(node.value, st):
            st.env[node.target.id] = self.bound(node.value, st)
            return one(st)
        # -- anything else: harmless unless it can reach the line view; locals it (re)binds are forgotten
        if self._touches_view(node, st):
            st.ext = b_or(st.ext, b_unknown("statement touches the line view: " + ast.unparse(node)[:50]))
        for sub in ast.walk(node):
            if isinstance(sub, ast.Name) and isinstance(sub.ctx, (ast.Store, ast.Del)):
                st.env[sub.id] = (("other", "rebound"), b_unknown("rebound"))
                st.aliases.discard(sub.id)
            if isinstance(sub, (ast.Return, ast.Raise)) and not isinstance(node, ast.Raise):
                st.ext = b_or(st.ext, b_unknown("control flow inside " + type(node).__name__))
        if isinstance(node, ast.Raise):
            return one(st, "return")
        return one(st)

    def _extension(self, node, st):
        """None, or - for a statement that appends to the line view - the bexpr "it appends at least one entry"
        (WHAT it appends is the hand-modelled part)"""
        if isinstance(node, ast.Expr) and isinstance(node.value, ast.Call) and isinstance(node.value.func, ast.Attribute) \
                and self._is_view(node.value.func.value, st) and not node.value.keywords and len(node.value.args) == 1:
            if node.value.func.attr == "append":
                return TRUE
            if node.value.func.attr in ("extend", "__iadd__"):
                return self.ne(node.value.args[0], st)
        if isinstance(node, ast.AugAssign) and isinstance(node.op, ast.Add) and self._is_view(node.target, st):
            return self.ne(node.value, st)
        if isinstance(node, ast.Assign) and len(node.targets) == 1:
            t, v = node.targets[0], node.value
            if self._is_view(t, st) and isinstance(v, ast.BinOp) and isinstance(v.op, ast.Add) and self._is_view(v.left, st):
                return self.ne(v.right, st)
            # self.output[len(self.output):] = lines
            if isinstance(t, ast.Subscript) and self._is_view(t.value, st) and isinstance(t.slice, ast.Slice) \
                    and t.slice.upper is None and t.slice.step is None and isinstance(t.slice.lower, ast.Call) \
                    and isinstance(t.slice.lower.func, ast.Name) and t.slice.lower.func.id == "len" \
                    and len(t.slice.lower.args) == 1 and self._is_view(t.slice.lower.args[0], st):
                return self.ne(v, st)
        return None

    def read(self):
        fn = self.src.methods.get("append_output")
        if fn is None:
            return b_unknown("Sandbox.append_output not found")
        params = [a.arg for a in fn.args.posonlyargs + fn.args.args]
        if len(params) < 2:
            return b_unknown("append_output has no text parameter")
        st = _State({params[1]: (("str", "own"), ("own",))})
        try:
            paths = self.block(fn.body, st, 0)
        except _TooComplex as e:
            return b_unknown(str(e))
        guard = FALSE
        for cond, s, _flow in paths:
            guard = b_or(guard, b_and(cond, s.ext))
        return guard


class _TooComplex(Exception):
    pass


# --------------------------------------------------------------------------
# the mocked input(): which end is popped, what is the default

PARAM = "<parameter>"      # marker in TrackerReader._assignments: the name is a parameter of the function


class TrackerReader:
    def __init__(self, src):
        self.src = src
        self.notes = []
        self._cands = []
        self._inlined = []

    # ---- locate the function that is installed as `input`
    def locate(self):
        """-> list of candidate (function-like node, enclosing factory or None)"""
        src = self.src
        if src.cls is None:
            return []
        for call in ast.walk(src.cls):
            if isinstance(call, ast.Call) and isinstance(call.func, ast.Attribute) and call.func.attr == "mock_function" \
                    and len(call.args) >= 2 and isinstance(call.args[0], ast.Constant) and call.args[0].value == "input":
                found = self._resolve_callable(call.args[1], None, 0)
                if found:
                    self.notes.append("located through mock_function('input', ...)")
                    return found
        fac = src.methods.get("_track_inputs")
        if fac is not None:
            for sub in fac.body:
                if isinstance(sub, ast.FunctionDef) and sub.name == "_input_tracker":
                    self.notes.append("located by name")
                    return [(sub, fac)]
        return []

    def _resolve_callable(self, node, scope, depth):
        """the function definitions an expression that evaluates to a callable may denote"""
        src = self.src
        if depth > 4:
            return []
        if isinstance(node, ast.Lambda):
            return [(node, scope)]
        if isinstance(node, ast.Attribute) and isinstance(node.value, ast.Name) and node.value.id == "self" \
                and node.attr in src.methods:
            return [(src.methods[node.attr], None)]
        if isinstance(node, ast.Name) and scope is not None:
            for sub in ast.walk(scope):
                if isinstance(sub, ast.FunctionDef) and sub is not scope and sub.name == node.id:
                    return [(sub, scope)]
            vals = [s.value for s in ast.walk(scope) if isinstance(s, ast.Assign) and len(s.targets) == 1
                    and isinstance(s.targets[0], ast.Name) and s.targets[0].id == node.id]
            if len(vals) == 1:
                return self._resolve_callable(vals[0], scope, depth + 1)
            return []
        if isinstance(node, ast.Call):
            m = src.method_called(node)
            if m is not None:      # a factory: what it returns
                out = []
                rets = [r for r in _walk_no_nested(m) if isinstance(r, ast.Return) and r.value is not None]
                for r in rets:
                    got = self._resolve_callable(r.value, m, depth + 1)
                    if not got:
                        return []
                    out += got
                return out
            f = node.func
            is_partial = (isinstance(f, ast.Name) and f.id == "partial") or (isinstance(f, ast.Attribute) and f.attr == "partial")
            if is_partial and node.args:
                return self._resolve_callable(node.args[0], scope, depth + 1)
        return []

    # ---- leaves of the returned value
    def _queue_names(self, fn):
        """local names bound (only) to `self.inputs` inside fn"""
        binds = {}
        for sub in _walk_no_nested(fn):
            if isinstance(sub, ast.Assign):
                for t in sub.targets:
                    for n in ast.walk(t):
                        if isinstance(n, ast.Name):
                            binds.setdefault(n.id, []).append(sub.value if t is n else None)
            elif isinstance(sub, (ast.AugAssign, ast.AnnAssign)) and isinstance(sub.target, ast.Name):
                binds.setdefault(sub.target.id, []).append(None)
            elif isinstance(sub, ast.NamedExpr):
                binds.setdefault(sub.target.id, []).append(sub.value)
            elif isinstance(sub, (ast.For, ast.comprehension)):
                for n in ast.walk(sub.target):
                    if isinstance(n, ast.Name):
                        binds.setdefault(n.id, []).append(None)
        return {name for name, vals in binds.items() if vals and all(v is not None and _is_self_attr(v, "inputs") for v in vals)}

    def _assignments(self, fn, name):
        """every value the local `name` can be given inside fn (None = a binding that is not understood)"""
        vals = []
        params = set()
        if not isinstance(fn, ast.Lambda):
            a = fn.args
            params = {x.arg for x in a.posonlyargs + a.args + a.kwonlyargs} | {x.arg for x in (a.vararg, a.kwarg) if x}
        if name in params:
            vals.append(PARAM)
        for sub in _walk_no_nested(fn):
            if isinstance(sub, ast.Assign):
                for t in sub.targets:
                    if isinstance(t, ast.Name) and t.id == name:
                        vals.append(sub.value)
                    elif any(isinstance(n, ast.Name) and n.id == name for n in ast.walk(t)):
                        vals.append(None)
            elif isinstance(sub, ast.AnnAssign) and isinstance(sub.target, ast.Name) and sub.target.id == name:
                vals.append(sub.value)
            elif isinstance(sub, ast.AugAssign) and isinstance(sub.target, ast.Name) and sub.target.id == name:
                vals.append(None)
            elif isinstance(sub, ast.NamedExpr) and sub.target.id == name:
                vals.append(sub.value)
            elif isinstance(sub, (ast.For, ast.comprehension, ast.withitem, ast.ExceptHandler)):
                tgt = getattr(sub, "target", None) or getattr(sub, "optional_vars", None)
                if isinstance(tgt, ast.AST) and any(isinstance(n, ast.Name) and n.id == name for n in ast.walk(tgt)):
                    vals.append(None)
                if isinstance(sub, ast.ExceptHandler) and sub.name == name:
                    vals.append(None)
        return vals

    def _index_end(self, args, fn):
        """front / back / unknown for the index argument list of pop / a subscript"""
        if not args:
            return "back"
        if len(args) != 1:
            return "unknown"
        node = args[0]
        ok, v = self.src.const_value(node)
        if not ok and isinstance(node, ast.Name):
            vals = self._assignments(fn, node.id)
            if len(vals) == 1 and isinstance(vals[0], ast.AST):
                ok, v = self.src.const_value(vals[0])
        if ok and isinstance(v, int) and not isinstance(v, bool):
            return {0: "front", -1: "back"}.get(v, "unknown")
        # len(q) - 1
        if isinstance(node, ast.BinOp) and isinstance(node.op, ast.Sub) and isinstance(node.right, ast.Constant) \
                and node.right.value == 1 and isinstance(node.left, ast.Call) and isinstance(node.left.func, ast.Name) \
                and node.left.func.id == "len":
            return "back"
        return "unknown"

    def leaves(self, node, fn, queues, depth, seen, args=None):
        """-> list of ("callable",) | ("pop", end) | ("peek", end) | ("const", str) | ("unknown", why)
        `args`: for an inlined helper, parameter name -> (argument node, the caller's fn, queues, args)"""
        args = args or {}
        is_queue = lambda n: _is_self_attr(n, "inputs") or (isinstance(n, ast.Name) and n.id in queues)    # noqa: E731
        rec = lambda n: self.leaves(n, fn, queues, depth, seen, args)      # noqa: E731
        if node is None:
            return [("unknown", "binding not understood")]
        if isinstance(node, ast.IfExp):
            return rec(node.body) + rec(node.orelse)
        if isinstance(node, ast.NamedExpr):
            return rec(node.value)
        ok, v = self.src.const_value(node)
        if ok:
            return [("const", v)] if isinstance(v, str) else [("unknown", "constant %r" % (v,))]
        if isinstance(node, ast.Name):
            key = (id(fn), node.id)
            if key in seen:
                return []
            seen = seen | {key}
            vals = self._assignments(fn, node.id)
            if not vals:
                return [("unknown", "free name " + node.id)]
            out = []
            for v in vals:
                if v is PARAM:
                    if node.id in args:
                        anode, afn, aqueues, aargs = args[node.id]
                        out += self.leaves(anode, afn, aqueues, depth, seen, aargs)
                    else:
                        out.append(("unknown", "parameter " + node.id))
                else:
                    out += self.leaves(v, fn, queues, depth, seen, args)
            return out
        if isinstance(node, ast.Call):
            f = node.func
            if is_queue(f):
                return [("callable",)]
            if isinstance(f, ast.Attribute) and f.attr == "pop" and is_queue(f.value) and not node.keywords:
                return [("pop", self._index_end(node.args, fn))]
            m = self.src.method_called(node)
            if m is not None and depth < MAX_INLINE:
                rets = [r for r in _walk_no_nested(m) if isinstance(r, ast.Return)]
                if not rets:
                    return [("unknown", "helper without return")]
                params = [a.arg for a in m.args.posonlyargs + m.args.args]
                if not self.src.is_static(m) and params:
                    params = params[1:]
                bound = {}
                for name, arg in zip(params, node.args):
                    if not isinstance(arg, ast.Starred):
                        bound[name] = (arg, fn, queues, args)
                for k in node.keywords:
                    if k.arg is not None:
                        bound[k.arg] = (k.value, fn, queues, args)
                out = []
                q2 = self._queue_names(m)
                self._inlined.append(m)
                for r in rets:
                    out += self.leaves(r.value, m, q2, depth + 1, seen, bound) if r.value is not None \
                        else [("unknown", "bare return")]
                return out
            return [("unknown", "call " + ast.unparse(node)[:50])]
        if isinstance(node, ast.Subscript) and is_queue(node.value) and not isinstance(node.slice, ast.Slice):
            return [("peek", self._index_end([node.slice], fn))]
        return [("unknown", ast.unparse(node)[:50])]

    def _removals(self, fns):
        """ends removed by statements: `del q[i]`, a pop whose value is dropped"""
        ends = []
        for fn in fns:
            queues = self._queue_names(fn)
            is_queue = lambda n: _is_self_attr(n, "inputs") or (isinstance(n, ast.Name) and n.id in queues)    # noqa: E731
            for sub in _walk_no_nested(fn):
                if isinstance(sub, ast.Delete):
                    for t in sub.targets:
                        if isinstance(t, ast.Subscript) and is_queue(t.value):
                            ends.append("unknown" if isinstance(t.slice, ast.Slice) else self._index_end([t.slice], fn))
                if isinstance(sub, ast.Expr) and isinstance(sub.value, ast.Call) and isinstance(sub.value.func, ast.Attribute) \
                        and sub.value.func.attr == "pop" and is_queue(sub.value.func.value):
                    ends.append(self._index_end(sub.value.args, fn))
        return ends

    def read_lookup(self):
        """WHEN does the installed input() resolve the sandbox's queue: "atCall" (it evaluates `self.inputs` - directly,
        through a per-call local alias or an inlined helper method - each time it is called), "atCreation" (it uses a
        name / default argument that the enclosing factory bound to `self.inputs` once), else "unknown".
        Must be called after read() (uses the located candidates and the inlined helpers)."""
        cands = self._cands
        if not cands:
            return "unknown"
        at_call = at_creation = False

        def mentions_queue(nodes):
            return any(_is_self_attr(n, "inputs") for root in nodes for n in ast.walk(root))

        for fn, scope in cands:
            if isinstance(fn, ast.Lambda):
                body, defaults = [fn.body], list(fn.args.defaults) + [d for d in fn.args.kw_defaults if d is not None]
            else:
                body, defaults = list(fn.body), list(fn.args.defaults) + [d for d in fn.args.kw_defaults if d is not None]
            if scope is None:
                defaults = []        # a method of the class: its defaults are not per-sandbox objects
            if mentions_queue(body):
                at_call = True
            if mentions_queue(defaults):
                at_creation = True
                self.notes.append("lookup: a default argument of the installed function holds self.inputs")
            if scope is not None:
                own = set()
                if not isinstance(fn, ast.Lambda):
                    a = fn.args
                    own = {x.arg for x in a.posonlyargs + a.args + a.kwonlyargs} | {x.arg for x in (a.vararg, a.kwarg) if x}
                    for sub in ast.walk(fn):
                        if isinstance(sub, ast.Name) and isinstance(sub.ctx, (ast.Store, ast.Del)):
                            own.add(sub.id)
                free = {n.id for root in body for n in ast.walk(root)
                        if isinstance(n, ast.Name) and isinstance(n.ctx, ast.Load) and n.id not in own}
                for name in sorted(free):
                    vals = [v for v in self._assignments(scope, name) if v is not PARAM]
                    if any(isinstance(v, ast.AST) and mentions_queue([v]) for v in vals):
                        at_creation = True
                        self.notes.append("lookup: free name %r is bound to self.inputs by the enclosing %s" %
                                          (name, getattr(scope, "name", "scope")))
        for m in self._inlined:
            if mentions_queue(m.body):
                at_call = True
        if at_call and not at_creation:
            return "atCall"
        if at_creation and not at_call:
            return "atCreation"
        self.notes.append("lookup: at_call=%s at_creation=%s" % (at_call, at_creation))
        return "unknown"

    def read(self):
        """-> (pop_end, default or None)"""
        cands = self.locate()
        self._cands = cands
        if not cands:
            self.notes.append("the function installed as input() was not found")
            return "unknown", None
        all_leaves, fns = [], []
        self._inlined = []
        for fn, _scope in cands:
            fns.append(fn)
            queues = self._queue_names(fn) if not isinstance(fn, ast.Lambda) else set()
            if isinstance(fn, ast.Lambda):
                all_leaves += self.leaves(fn.body, fn, queues, 0, frozenset())
                continue
            rets = [r for r in _walk_no_nested(fn) if isinstance(r, ast.Return)]
            if not rets:
                all_leaves.append(("unknown", "no return"))
            for r in rets:
                all_leaves += self.leaves(r.value, fn, queues, 0, frozenset()) if r.value is not None \
                    else [("unknown", "bare return")]
        fns += self._inlined
        unknown = [l for l in all_leaves if l[0] == "unknown"]
        pops = {l[1] for l in all_leaves if l[0] == "pop"}
        peeks = {l[1] for l in all_leaves if l[0] == "peek"}
        consts = {l[1] for l in all_leaves if l[0] == "const"}
        removed = self._removals(fns)
        self.notes.append("leaves: " + ", ".join(sorted({"%s:%s" % (l[0], l[1] if len(l) > 1 else "") for l in all_leaves})))
        if unknown:
            return "unknown", None
        ends = set(pops)
        if peeks:
            # value read by index and removed by a separate statement: both must name the same end
            if pops or len(peeks) != 1 or set(removed) != peeks:
                return "unknown", (consts.pop() if len(consts) == 1 else None)
            ends = set(peeks)
        elif removed:
            return "unknown", (consts.pop() if len(consts) == 1 else None)
        pop_end = ends.pop() if len(ends) == 1 else "unknown"
        default = consts.pop() if len(consts) == 1 else None
        return pop_end, default


# --------------------------------------------------------------------------
# measuring the same three facts on a fresh sandbox

def _call(events, kind="call"):
    return {"k": "exec", "kind": kind, "pre": None, "events": events, "raises": False, "student_file": True}


def probe():
    """-> {"guard": 4-tuple over OBSERVATIONS or None, "pop_end": front/back/unknown, "default": str or None,
    "lookup": atCall/atCreation/unknown, "notes": [...]}"""
    import sandboxio_common as sc
    notes = []
    out = {"guard": None, "pop_end": "unknown", "default": None, "lookup": "unknown", "notes": notes}
    # -- guard: does an execution with / without own text, after one with / without text, lengthen the line view?
    own_texts = ["y\n", "y", " ", "\n", "\x0c", "a\n\nb \n", "\xa0\n"]
    prior_texts = ["x\n", " "]
    try:
        table = []
        for p, o in OBSERVATIONS:
            seen = set()
            for prior in (prior_texts if p else [None]):
                targets = [_call([["w", t]]) for t in own_texts] + [_call([["p", ["v"], " ", "\n"]], "run")] if o else \
                    [_call([]), _call([["w", ""]]), _call([], "run"), _call([], "eval")]
                for target in targets:
                    ops = ([_call([["w", prior]])] if p else []) + [target]
                    obs = sc.run_real({"ops": ops})[0]
                    before, after = obs[-2]["lines"], obs[-1]["lines"]
                    if any(x["err"] for x in obs) or after[:len(before)] != before:
                        seen.add("odd")
                    else:
                        seen.add(len(after) > len(before))
            if len(seen) != 1 or "odd" in seen:
                notes.append("guard: observation prior=%s own=%s is not uniform: %s" % (p, o, sorted(map(str, seen))))
                table = None
                break
            table.append(seen.pop())
        out["guard"] = tuple(table) if table is not None else None
    except Exception as e:  # noqa: the probe could not run
        notes.append("guard probe failed: %s: %s" % (type(e).__name__, e))
    # -- which end of the queue two reads are served from, and what is left
    try:
        ends = set()
        for q in (["a", "b", "c"], ["1", "2"], ["w", "x", "y", "z", "w"]):
            for pre in (False, True):
                ops = ([] if pre else [{"k": "set_input", "arg": ["many", q], "clear": True}]) + [_call([["r", "p"], ["r0"]])]
                if pre:
                    ops[-1]["pre"] = ["many", q]
                obs, _ctx, student = sc.run_real({"ops": ops})
                got, left = student[-1], obs[-1]["inputs"]
                if got == q[:2] and left == ["q"] + q[2:] and obs[-1]["last_in"] == q[:2]:
                    ends.add("front")
                elif got == [q[-1], q[-2]] and left == ["q"] + q[:-2]:
                    ends.add("back")
                else:
                    ends.add("unknown")
        out["pop_end"] = ends.pop() if len(ends) == 1 else "unknown"
        if len(ends) > 1:
            notes.append("pop end not uniform")
    except Exception as e:  # noqa
        notes.append("pop probe failed: %s: %s" % (type(e).__name__, e))
    # -- the default: reads from an empty and from an exhausted queue
    try:
        ops = [_call([["r", "p"], ["r0"]]), {"k": "set_input", "arg": ["many", ["a"]], "clear": True},
               _call([["r0"], ["r", "q"], ["r0"]], "run"), {"k": "clear_input"}, _call([["r", 5]], "eval")]
        obs, _ctx, student = sc.run_real({"ops": ops})
        served = list(student[1]) + list(student[3][1:]) + list(student[5])
        recorded = list(obs[1]["last_in"]) + list(obs[3]["last_in"][1:]) + list(obs[5]["last_in"])
        vals = set(map(repr, served + recorded))
        if len(served) == 5 and len(vals) == 1 and isinstance(served[0], str):
            out["default"] = served[0]
        else:
            notes.append("default not uniform: %s" % sorted(vals)[:4])
    except Exception as e:  # noqa
        notes.append("default probe failed: %s: %s" % (type(e).__name__, e))
    # -- when is the queue resolved: a reference to input() kept from an EARLIER execution (a stored `input`, a helper
    #    module imported earlier, the setup execution's own binding, a generator that captured it), the queue REBOUND
    #    in between (clear_input / set_input(None) / callable then None), new values queued afterwards
    try:
        seen = set()
        rebinds = [[{"k": "clear_input"}], [{"k": "set_input", "arg": ["none"], "clear": True}],
                   [{"k": "set_input", "arg": ["none"], "clear": False}],
                   [{"k": "set_input", "arg": ["callable", 1], "clear": False}, {"k": "clear_input"}]]
        for rb in rebinds:
            for gen in (False, True):
                first = [["gnew", 1, [["r", "g"], ["r0"], ["r", "h"]], True]] if gen else [["keep", 1], ["kr", 1, "p"]]
                later = [["gnext", 1, 3]] if gen else [["kr", 1, "p"], ["hr", 1, "q"], ["kr0", 0]]
                ops = [{"k": "set_input", "arg": ["many", ["a", "b", "c"]], "clear": True}, _call(first)] + rb + \
                      [{"k": "queue_input", "items": ["d", "e"]}, _call(later, "eval" if gen else "call")]
                obs, _ctx, student = sc.run_real({"ops": ops})
                got, left = student[-1], obs[-1]["inputs"]
                if any(x["err"] for x in obs) or got is None or len(got) != 3:
                    seen.add("unknown")
                elif got[:2] == ["d", "e"] and got[2] not in ("a", "b", "c", "d", "e") and left == ["q"] \
                        and obs[-1]["last_in"] == got:
                    seen.add("atCall")
                elif "d" not in got and "e" not in got and left == ["q", "d", "e"]:
                    seen.add("atCreation")
                else:
                    seen.add("unknown")
        out["lookup"] = seen.pop() if len(seen) == 1 else "unknown"
        if seen:
            notes.append("queue lookup not uniform")
    except Exception as e:  # noqa
        notes.append("lookup probe failed: %s: %s" % (type(e).__name__, e))
    return out


# --------------------------------------------------------------------------

def combine(read, measured, unknown, label, notes):
    """reading is primary; the measurement confirms it, replaces an `unknown` reading, or - if it contradicts a
    definite reading - turns the fact into `unknown`"""
    if read != unknown and measured != unknown:
        if read == measured:
            return read, "read, confirmed by measurement"
        notes.append("%s: reading %r contradicts measurement %r" % (label, read, measured))
        return unknown, "CONFLICT"
    if read != unknown:
        return read, "read (measurement unavailable)"
    if measured != unknown:
        return measured, "probed"
    return unknown, "unknown"


def read_source(path=None):
    path = path or os.path.join(REPO, "pedal", "sandbox", "sandbox.py")
    with open(path, encoding="utf-8") as fh:
        return Source(ast.parse(fh.read()))


def facts(use_probe=True):
    notes = []
    src = read_source()
    try:
        guard_read = GuardReader(src).read()
    except Exception as e:  # noqa: a shape the reader does not survive is a shape it does not understand
        guard_read = b_unknown("reader failed: %s: %s" % (type(e).__name__, e))
    tr = TrackerReader(src)
    try:
        pop_read, default_read = tr.read()
    except Exception as e:  # noqa
        pop_read, default_read = "unknown", None
        tr.notes.append("reader failed: %s: %s" % (type(e).__name__, e))
    try:
        lookup_read = tr.read_lookup()
    except Exception as e:  # noqa
        lookup_read = "unknown"
        tr.notes.append("lookup reader failed: %s: %s" % (type(e).__name__, e))
    notes += ["tracker: " + n for n in tr.notes]
    measured = probe() if use_probe else {"guard": None, "pop_end": "unknown", "default": None, "lookup": "unknown", "notes": ["probe off"]}
    notes += ["probe: " + n for n in measured["notes"]]

    read_table = b_table(guard_read)
    table, guard_src = combine(read_table, measured["guard"], None, "guard", notes)
    if table is None:
        guard = guard_read if b_has_unknown(guard_read) and guard_src != "CONFLICT" else b_unknown(guard_src)
    elif guard_src == "probed":
        guard = b_from_table(table)
    else:
        guard = guard_read
    pop_end, pop_src = combine(pop_read, measured["pop_end"], "unknown", "pop end", notes)
    default, default_src = combine(default_read, measured["default"], None, "default", notes)
    lookup, lookup_src = combine(lookup_read, measured["lookup"], "unknown", "queue lookup", notes)
    return {"guard": guard, "guard_read": b_text(guard_read), "guard_source": guard_src,
            "guard_table": None if table is None else ["prior=%d own=%d -> %d" % (p, o, v)
                                                       for (p, o), v in zip(OBSERVATIONS, table)],
            "pop_end": pop_end, "pop_source": pop_src, "default": default, "default_source": default_src,
            "lookup": lookup, "lookup_source": lookup_src, "notes": notes}


def _ascii(text):
    return "".join(c if " " <= c <= "~" else "?" for c in text)


def translate():
    f = facts()
    guard, pop_end, default = f["guard"], f["pop_end"], f["default"]
    src = "\n".join([
        "/- GENERATED by harness/translate_sandboxio.py from the tree under test. Do not edit. -/",
        "namespace Pedal.Gen.SandboxIO",
        "",
        "/-- When `Sandbox.append_output` touches the line view: a boolean expression over what one call can see.",
        "`own`: the text of this execution is non-empty; `prior`: the raw output before the call is non-empty;",
        "`acc`: the raw output after the call is non-empty; `unknown`: something the translator does not understand. -/",
        "inductive GuardExpr where",
        "  | own | prior | acc",
        "  | const (b : Bool)",
        "  | not (e : GuardExpr)",
        "  | and (a b : GuardExpr)",
        "  | or (a b : GuardExpr)",
        "  | unknown",
        "  deriving Repr",
        "",
        "/-- Which end of `self.inputs` the mocked `input` takes its value from. -/",
        "inductive PopEnd where",
        "  | front | back | unknown",
        "  deriving Repr, DecidableEq",
        "",
        "/-- When the mocked `input` resolves the sandbox's queue (`self.inputs`): each time it is called, or once when",
        "it is created (then a reference to `input` kept from an earlier execution serves a stale object). -/",
        "inductive Lookup where",
        "  | atCall | atCreation | unknown",
        "  deriving Repr, DecidableEq",
        "",
        "-- " + f["guard_source"] + "; as read: " + _ascii(f["guard_read"])[:200],
        "def appendGuard : GuardExpr := %s" % b_lean(guard),
        "-- " + f["pop_source"],
        "def popEnd : PopEnd := .%s" % pop_end,
        "-- " + f["default_source"],
        "def defaultInput : String := %s" % lean_str(default if default is not None else ""),
        "def defaultKnown : Bool := %s" % ("true" if default is not None else "false"),
        "-- " + f["lookup_source"],
        "def queueLookup : Lookup := .%s" % f["lookup"],
        "",
        "end Pedal.Gen.SandboxIO",
        "",
    ])
    changed = write_if_changed(OUT, src)
    return {"file": os.path.relpath(OUT, LEAN_DIR), "sha1": hashlib.sha1(src.encode()).hexdigest()[:12],
            "changed": changed, "guard": b_text(guard), "guard_read": f["guard_read"], "guard_source": f["guard_source"],
            "guard_table": f["guard_table"], "pop_end": pop_end, "pop_source": f["pop_source"], "default": default,
            "default_source": f["default_source"], "lookup": f["lookup"], "lookup_source": f["lookup_source"],
            "notes": f["notes"]}


if __name__ == "__main__":
    import json
    import sys
    from common import use_repo
    use_repo()
    if "--facts" in sys.argv:      # read + measure, do not write the generated file
        f = facts()
        f["guard"] = b_text(f["guard"])
        print(json.dumps(f, indent=1))
    else:
        print(json.dumps(translate(), indent=1))

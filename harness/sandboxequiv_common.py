"""
C06 shared Python side: running a case in the real sandbox, running it in unmodified CPython (reference
subprocess, see sandboxequiv_ref.py; and `python prog.py` with nothing touched at all), canonical observables,
and the oracle written from the property text.
"""
import json
import os
import re
import shutil
import subprocess
import sys
import tempfile
from concurrent.futures import ThreadPoolExecutor

from common import VERIF, use_repo

use_repo()
from pedal.core.commands import contextualize_report        # noqa: E402
from pedal.core.report import MAIN_REPORT                     # noqa: E402
from pedal.core.submission import Submission                  # noqa: E402
from pedal.sandbox import commands                            # noqa: E402
from pedal.sandbox.sandbox import Sandbox                     # noqa: E402

import sandboxequiv_ref as ref                                # noqa: E402  (describe(): the same canonical form)

PY = "/venv/bin/python"
REF_SCRIPT = os.path.join(VERIF, "harness", "sandboxequiv_ref.py")
SCRATCH = os.environ.get("VERIF_C06_SCRATCH", "/tmp/verif_c06_ref")


# --------------------------------------------------------------------------
# reference side

def child_env():
    env = {"PATH": os.environ.get("PATH", "/usr/bin:/bin"), "PYTHONHASHSEED": "0", "PYTHONDONTWRITEBYTECODE": "1",
           "PYTHONIOENCODING": "utf-8", "LANG": "C.UTF-8"}
    return env


def run_reference(cases, pad=None, chunk=60, workers=8, limit=None):
    """Traced unmodified-CPython runs of many cases (batched: several fresh `__main__` modules per interpreter).
    `pad`: None = stdin ends after the queued inputs (what `python prog.py < inputs` does); "0" = the queue is
    followed by the sandbox's default reply for ever (the path the sandbox takes; used for the model tie only)."""
    os.makedirs(SCRATCH, exist_ok=True)
    jobs = [{"code": c["code"], "filename": c.get("filename", "answer.py"), "inputs": c.get("inputs", []),
             "pad": pad, "limit": limit, "calls": [dict(k) for k in c.get("calls", [])] if pad is None else []}
            for c in cases]
    chunks = [jobs[i:i + chunk] for i in range(0, len(jobs), chunk)]

    def work(args):
        idx, part = args
        d = tempfile.mkdtemp(prefix="ref%d_" % idx, dir=SCRATCH)
        try:
            jf, rf = os.path.join(d, "jobs.json"), os.path.join(d, "res.json")
            with open(jf, "w") as fh:
                json.dump(part, fh)
            p = subprocess.run([PY, "-X", "utf8", "-s", "-W", "ignore", REF_SCRIPT, jf, rf], cwd=d, env=child_env(),
                               capture_output=True, text=True, timeout=300)
            if p.returncode != 0 or not os.path.exists(rf):
                return [{"harness_error": "reference process failed: " + (p.stderr or "")[-300:]}] * len(part)
            with open(rf) as fh:
                return json.load(fh)
        finally:
            shutil.rmtree(d, ignore_errors=True)
    out = []
    with ThreadPoolExecutor(max_workers=workers) as ex:
        for res in ex.map(work, list(enumerate(chunks))):
            out.extend(res)
    return out


TB_FILE = re.compile(r'^\s*File "([^"]*)", line (\d+)')


def run_pure(case, timeout=30):
    """`python <file>` with the inputs on stdin and NOTHING else: the property's reference, literally.
    -> {"out": stdout text, "outcome": None | [class name, line]} (line parsed from the traceback CPython prints)."""
    os.makedirs(SCRATCH, exist_ok=True)
    d = tempfile.mkdtemp(prefix="pure_", dir=SCRATCH)
    try:
        fn = case.get("filename", "answer.py")
        path = os.path.join(d, fn)
        with open(path, "w", encoding="utf-8", newline="") as fh:
            fh.write(case["code"])
        stdin = "".join(x + "\n" for x in case.get("inputs", []))
        p = subprocess.run([PY, "-X", "utf8", "-s", fn], cwd=d, env=child_env(), input=stdin.encode("utf-8"),
                           capture_output=True, timeout=timeout)
        out = p.stdout.decode("utf-8", "replace")       # the bytes as written: no newline translation of any kind
        err = p.stderr.decode("utf-8", "replace")
        outcome = None
        if p.returncode != 0:
            lines = [l for l in err.split("\n") if l.strip()]
            cls = None
            for l in reversed(lines):
                m = re.match(r"^([A-Za-z_][\w.<>]*)(:|$)", l)      # e.g. __main__.f.<locals>.MyError: text
                if m:
                    cls = m.group(1).split(".")[-1]
                    break
            own = []
            for l in lines:
                m = TB_FILE.match(l)
                if m and os.path.basename(m.group(1)) == fn and os.path.dirname(m.group(1)) in ("", d):
                    own.append(int(m.group(2)))
            outcome = [cls, own[-1] if own else None]
        return {"out": out, "outcome": outcome, "stderr_tail": err[-300:]}
    finally:
        shutil.rmtree(d, ignore_errors=True)


def plain_text(events):
    """What an unmodified interpreter writes: printed text, and each prompt as it is (no newline)."""
    return "".join(e[1] if e[0] == "out" else (e[1] or "") for e in events)


# --------------------------------------------------------------------------
# sandbox side

def is_injected(value):
    """A function object defined inside pedal (the sandbox's replacement builtins)."""
    mod = getattr(value, "__module__", None)
    return callable(value) and isinstance(mod, str) and (mod == "pedal" or mod.startswith("pedal."))


SANDBOX_OWN = {"__builtins__", "__name__"}


def sandbox_globals(data):
    out = {}
    for k, v in data.items():
        if k in SANDBOX_OWN or is_injected(v):
            continue
        if k in ref.FRESH_MAIN:
            continue
        if k == "__annotations__" and not v:
            continue
        out[k] = ref.describe(v)
    return out


def student_env(data):
    """What a grader's expression sees when it builds an argument from the student's own classes: the program's
    globals (not what the sandbox put there) over the real builtins."""
    env = {k: v for k, v in data.items() if k not in SANDBOX_OWN and not is_injected(v)}
    env["__builtins__"] = BUILTINS
    return env


BUILTINS = __builtins__ if isinstance(__builtins__, dict) else __builtins__.__dict__


DECOY_MAIN = "decoy_main.py"
DECOY_CODE = "print('this is NOT the program under test')\ndecoy_global = 'decoy'\n"
RUN_VIAS = ("set_input", "run-inputs", "queue_input", "two-part", "set-then-queue", "clear-first", "tuple", "single-str",
            "filename", "code-filename")


class Entry:
    """Every public way into the sandbox for one case.  `api`:

      commands          the module-level command functions of pedal.sandbox.commands on the MAIN report (run, call,
                        evaluate, set_input, queue_input, clear_input, get_input, get_output, get_raw_output,
                        get_exception, get_student_data, get_sandbox, get_function, clear_output)
      commands+report   the same functions with an explicit `report=` (a Report of its own; the MAIN report holds another
                        program, so a command that forgets its `report` acts on the wrong sandbox)
      sandbox           the Sandbox object's methods and attributes

    Observations go through the same door as the commands: get_raw_output() / get_output() / get_exception() /
    get_student_data() / get_input() for the command spellings, the attributes for the object."""

    def __init__(self, api):
        from pedal.core.report import Report
        self.api = api
        if api == "commands+report":
            self.report = Report()
            self.kw = {"report": self.report}
        else:
            self.report = MAIN_REPORT
            self.kw = {}

    def submit(self, fn, code, decoy_main=False):
        files = {fn: code}
        main = fn
        if decoy_main:
            # the program under test is NOT the main file: it is named in the run() call
            files[DECOY_MAIN] = DECOY_CODE
            main = DECOY_MAIN
        if self.api == "commands+report":
            contextualize_report(Submission(files={"answer.py": DECOY_CODE}, main_file="answer.py"))
            contextualize_report(Submission(files=files, main_file=main), report=self.report)
        else:
            contextualize_report(Submission(files=files, main_file=main))

    @property
    def sb(self):
        if self.api == "sandbox":
            return self.report["sandbox"]["sandbox"]
        return commands.get_sandbox(**self.kw)

    # ---- the program
    def run(self, fn, code, inputs, via=None, threaded=False):
        inputs = list(inputs)
        t = {"threaded": True} if threaded else {}
        if threaded:
            self.sb.allowed_time = 60       # (instance attribute) a loaded machine must not turn into a TimeoutError
        if via is None:
            via = "run-inputs" if self.api == "sandbox" else "set_input"
        if via == "single-str" and len(inputs) != 1:
            via = "set_input"
        if self.api == "sandbox":
            sb = self.sb
            set_input = sb.set_input
            queue = lambda *xs: sb.set_input(xs, clear=False)          # noqa: E731
            clear, run = sb.clear_input, sb.run
        else:
            kw = self.kw
            set_input = lambda x, **o: commands.set_input(x, **o, **kw)          # noqa: E731
            queue = lambda *xs: commands.queue_input(*xs, **kw)          # noqa: E731
            clear = lambda: commands.clear_input(**kw)          # noqa: E731
            run = lambda *a, **o: commands.run(*a, **o, **kw)          # noqa: E731
        if via == "set_input":
            set_input(inputs)
            run(**t)
        elif via == "run-inputs":
            run(inputs=inputs, **t)
        elif via == "queue_input":
            queue(*inputs)
            run(**t)
        elif via == "two-part":
            k = len(inputs) // 2
            set_input(inputs[:k])
            set_input(inputs[k:], clear=False)
            run(**t)
        elif via == "set-then-queue":
            k = len(inputs) // 2
            set_input(inputs[:k])
            queue(*inputs[k:])          # adds to what is queued
            run(**t)
        elif via == "clear-first":
            set_input(["left over from the previous student"])
            clear()
            queue(*inputs)
            run(**t)
        elif via == "tuple":
            set_input(tuple(inputs))
            run(**t)
        elif via == "single-str":
            set_input(inputs[0])
            run(**t)
        elif via == "filename":
            run(filename=fn, inputs=inputs, **t)
        elif via == "code-filename":
            if self.api == "sandbox":
                run(code, fn, inputs, **t)
            else:
                run(code, filename=fn, inputs=inputs, **t)
        else:
            raise ValueError("unknown run spelling %r" % (via,))

    # ---- a function of the program
    def call(self, c, args, kwargs, extra):
        opts = {}
        if "target" in c:
            opts["target"] = c["target"]
        if "inputs" in c:
            opts["inputs"] = list(c["inputs"])
        if c.get("threaded"):
            opts["threaded"] = True
            self.sb.allowed_time = 60       # (instance attribute) a loaded machine must not turn into a TimeoutError
        if "fkw" in c:
            opts["function_kwargs"] = extra
        if "args_locals" in c:
            opts["args_locals"] = list(c["args_locals"])
        if "kwargs_locals" in c:
            opts["kwargs_locals"] = dict(c["kwargs_locals"])
        if c.get("via") == "get_function":
            f = self.sb.get_function(c["fn"]) if self.api == "sandbox" else commands.get_function(c["fn"], **self.kw)
            return f(*args, **opts, **kwargs)
        if self.api == "sandbox":
            return self.sb.call(c["fn"], *args, **opts, **kwargs)
        return commands.call(c["fn"], *args, **opts, **kwargs, **self.kw)

    def evaluate(self, c):
        opts = {}
        if "target" in c:
            opts["target"] = c["target"]
        if c.get("threaded"):
            opts["threaded"] = True
            self.sb.allowed_time = 60
        if self.api == "sandbox":
            return self.sb.evaluate(c["expr"], **opts)
        return commands.evaluate(c["expr"], **opts, **self.kw)

    def clear_output(self):
        if self.api == "sandbox":
            self.sb.clear_output()
        else:
            commands.clear_output(**self.kw)

    # ---- observations
    def raw(self):
        return self.sb.raw_output if self.api == "sandbox" else commands.get_raw_output(**self.kw)

    def lines(self):
        """the LINE VIEW of what was printed (Sandbox.output / get_output())"""
        return list(self.sb.output if self.api == "sandbox" else commands.get_output(**self.kw))

    def exception(self):
        return self.sb.exception if self.api == "sandbox" else commands.get_exception(**self.kw)

    def data(self):
        return self.sb.data if self.api == "sandbox" else commands.get_student_data(**self.kw)

    def queue_left(self):
        q = self.sb.inputs if self.api == "sandbox" else commands.get_input(**self.kw)
        return list(q) if isinstance(q, list) else None

    def outcome(self):
        exc = self.exception()
        if exc is None:
            return None
        sb = self.sb
        loc = getattr(sb.feedback, "location", None) if sb.feedback is not None else None
        return [type(exc).__name__, getattr(loc, "line", None) if loc is not None else None]

    def observe_run(self):
        return {"out": self.raw(), "raw": self.raw(), "lines": self.lines(), "globals": sandbox_globals(self.data()),
                "outcome": self.outcome()}


def run_sandbox(case):
    """-> {"out", "globals", "outcome", "lines", "calls": [...], "consumed": [...], "code_of_calls": [...]}"""
    fn = case.get("filename", "answer.py")
    res = {"calls": []}
    api = case.get("api", "commands")
    via = case.get("run_via")
    try:
        ent = Entry(api)
        ent.submit(fn, case["code"], decoy_main=via in ("filename", "code-filename"))
        if case.get("limit") is not None:
            ent.sb.MAXIMUM_INPUTS = case["limit"]       # instance attribute: the class constant stays what it is
        ent.run(fn, case["code"], case.get("inputs", []), via, case.get("threaded"))
    except BaseException as e:      # noqa
        return {"escaped": type(e).__name__, "calls": []}
    sb = ent.sb
    res.update(ent.observe_run())
    res["data_keys"] = sorted(k for k in ent.data() if isinstance(k, str))
    res["consumed"] = list(sb._context[-1].inputs) if sb._context else []
    res["queue_left"] = ent.queue_left()
    hv = {}         # the grader's own variables (steps {"op": "let"}), alive over the whole history
    for c in case.get("calls", []):
        op = c.get("op", "call")
        if op == "let":
            try:
                exec(c["stmt"], student_env(ent.data()), hv)
                res["calls"].append({"op": "let", "result": ["let"]})
            except BaseException as e:      # noqa
                res["calls"].append({"op": "let", "result": ["harness", type(e).__name__]})
            continue
        if op == "rerun":
            # the same process grades again (the same or another program), as a grader does for the next submission
            try:
                ent.submit(fn, c.get("code", case["code"]))
                ent.run(fn, c.get("code", case["code"]), c.get("inputs", []), c.get("run_via"))
            except BaseException as e:      # noqa
                res["calls"].append({"op": "rerun", "result": ["escaped", type(e).__name__]})
                continue
            sb = ent.sb
            obs = ent.observe_run()
            res["calls"].append(dict(obs, op="rerun", result=["rerun", obs["outcome"]]))
            continue
        if op == "clear_output":
            try:
                ent.clear_output()
            except BaseException as e:      # noqa
                res["calls"].append({"op": "clear_output", "result": ["escaped", type(e).__name__]})
                continue
            res["calls"].append({"op": "clear_output", "result": ["cleared"], "raw": ent.raw(), "lines": ent.lines()})
            continue
        data = ent.data()
        args, kwargs, extra = [], {}, {}
        if op != "evaluate":
            env = student_env(data) if c.get("scope") == "student" else {"__builtins__": BUILTINS}
            try:
                args = [eval(a, dict(env), hv) for a in c.get("args", [])]
                kwargs = {k: eval(a, dict(env), hv) for k, a in c.get("kwargs", {}).items()}
                extra = {k: eval(a, dict(env), hv) for k, a in c.get("fkw", {}).items()}
            except Exception as e:      # noqa
                res["calls"].append({"result": ["harness", type(e).__name__]})
                continue
        before = len(ent.raw())
        keys_before = {k: id(v) for k, v in data.items()}
        try:
            r = ent.evaluate(c) if op == "evaluate" else ent.call(c, args, kwargs, extra)
        except BaseException as e:  # noqa
            res["calls"].append({"result": ["escaped", type(e).__name__]})
            continue
        line = None
        target = c.get("target", "_")
        target_value = None
        if ent.exception() is not None:
            exc = ent.exception()
            exc = getattr(exc, "_actual_value", exc)
            out = ["exc", type(exc).__name__]
            loc = getattr(sb.feedback, "location", None) if sb.feedback is not None else None
            line = getattr(loc, "line", None) if loc is not None else None
        else:
            out = ["ret", ref.describe(getattr(r, "_actual_value", r))]
            target_value = ref.describe(data[target]) if target in data else ["missing"]
        code = sb._context[-1].code if sb._context else None
        changed = sorted(k for k in set(keys_before) | set(data)
                         if isinstance(k, str) and k not in SANDBOX_OWN and
                         (k not in data or k not in keys_before or id(data[k]) != keys_before[k])
                         and not is_injected(data.get(k, keys_before.get(k))))
        raw = ent.raw()
        res["calls"].append({"result": out, "line": line, "out": raw[before:], "raw": raw, "lines": ent.lines(), "code": code,
                             "changed_keys": changed, "target": target, "target_value": target_value,
                             "temporaries_left": sorted(k for k in data if isinstance(k, str) and k.startswith("_temporary_")
                                                        and k not in keys_before)})
    return res


class SandboxHung(BaseException):
    """The sandbox side of a case did not finish in time (BaseException: the sandbox reports `Exception`s as the
    student's, this one has to come out)."""


def run_sandbox_guarded(case, seconds=20):
    """run_sandbox under an alarm.  The reference ran first and ENDED; when the sandbox takes another path than plain
    CPython (that is what a defect is) the rest of the program - or what the shrinker left of it - is code that the
    reference never executed, and nothing says that it terminates.  -> run_sandbox's result or {"hung": seconds}."""
    import signal
    import threading
    if threading.current_thread() is not threading.main_thread():
        return run_sandbox(case)

    def on_alarm(*a):
        raise SandboxHung()
    old = signal.signal(signal.SIGALRM, on_alarm)
    signal.setitimer(signal.ITIMER_REAL, seconds)
    try:
        return run_sandbox(case)
    except SandboxHung:
        return {"hung": seconds, "calls": []}
    finally:
        signal.setitimer(signal.ITIMER_REAL, 0)
        signal.signal(signal.SIGALRM, old)


# --------------------------------------------------------------------------
# the property

ECHO_FORMS = [lambda p: p + "\n", lambda p: p, lambda p: ""]


def echo_variants(events):
    """The texts the sandbox may legitimately produce for these events: printed text is fixed, each prompt is
    echoed in one consistent way (the property leaves the echo open: prompt + newline, prompt, or nothing)."""
    outs = []
    for form in ECHO_FORMS:
        outs.append("".join(e[1] if e[0] == "out" else form(e[1] or "") for e in events))
    return outs


def line_view(text):
    """The LINE VIEW of one execution's printed text, from the documentation (Sandbox.output: "the list of strings that
    have been printed ... line endings have been removed using rstrip"; append_output: "split on newlines and rstripped";
    C15's statement: "that execution's text with trailing whitespace removed and split into right-stripped lines"):
    the text is cut where print() ends a line - at "\n" and nowhere else (NOT at \r, VT, FF, FS/GS/RS, NEL, LS, PS, which
    str.splitlines also takes for boundaries) - and an execution that printed only blank text shows one blank line."""
    if not text:
        return []
    return [line.rstrip() for line in text.rstrip().split("\n")]


def accumulated_views(executions):
    """[(raw text, line view)] per echo form for the executions (their event lists) since the output was last cleared."""
    out = []
    for form in ECHO_FORMS:
        texts = ["".join(e[1] if e[0] == "out" else form(e[1] or "") for e in ev) for ev in executions]
        out.append(("".join(texts), [l for t in texts for l in line_view(t)]))
    return out


def view_problem(executions, sb_obs):
    """None, or (kind, what): the accumulated raw text / the line view the sandbox shows after these executions against
    what plain CPython printed (one consistent echo form)."""
    if sb_obs.get("lines") is None or sb_obs.get("raw") is None:
        return None
    views = accumulated_views(executions)
    if (sb_obs["raw"], sb_obs["lines"]) in views:
        return None
    for raw, lines in views:
        if raw == sb_obs["raw"]:
            k = 0
            while k < min(len(lines), len(sb_obs["lines"])) and lines[k] == sb_obs["lines"][k]:
                k += 1
            return ("output-lines", "the printed LINES (Sandbox.output / get_output()) differ from entry %d on: sandbox %r, "
                                    "plain CPython's text cut at its newlines %r" % (k, sb_obs["lines"][k:k + 4], lines[k:k + 4]))
    return ("output-accumulated", "the text printed since the output was last cleared: sandbox %r, plain %r" % (
        sb_obs["raw"][-80:], views[0][0][-80:]))


def exhausted(events):
    return any(e[0] == "inp" and e[2] is None for e in events)


def compare_globals(rg, sg):
    """student-defined globals: same names; same values for data, same kind for everything else."""
    problems = []
    for k in sorted(set(rg) | set(sg)):
        if k not in sg:
            problems.append(("missing-global", k))
        elif k not in rg:
            problems.append(("extra-global", k))
        elif rg[k] != sg[k]:
            problems.append(("global-value", k))
    return problems


def compare_run(refres, sb):
    """One execution of a program (not the first of a case: no exhausted-queue handling): outcome, text, globals."""
    so, ro = sb["outcome"], refres["outcome"]
    if so and ro and so[0] == ro[0] == "RecursionError":
        so = ro = ["RecursionError", None]
    if so != ro:
        return ({"kind": "outcome", "plain": ro[0] if ro else None, "sandbox": so[0] if so else None},
                "outcome %r in the sandbox, %r in plain CPython" % (so, ro))
    if sb["out"] not in echo_variants(refres["events"]):
        return {"kind": "output"}, "printed text differs: sandbox %r, plain %r" % (sb["out"][-80:],
                                                                                  plain_text(refres["events"])[-80:])
    gp = compare_globals(refres["globals"], sb["globals"])
    if gp:
        kind, name = gp[0]
        return {"kind": kind}, "student globals differ: %s %r (plain %r, sandbox %r)" % (
            kind, name, refres["globals"].get(name), sb["globals"].get(name))
    vp = view_problem([refres["events"]], sb)
    if vp:
        return {"kind": vp[0]}, vp[1]
    return None


def oracle(case, refres, sb):
    """None, or (signature, what).  `refres` is the traced unmodified run, `sb` the sandbox run."""
    if "harness_error" in refres:
        raise RuntimeError(refres["harness_error"])
    if "hung" in sb:
        return ({"kind": "sandbox-does-not-finish"},
                "the program ended in plain CPython (outcome %r) and was still running in the sandbox after %s s" % (
                    refres.get("outcome"), sb["hung"]))
    if "escaped" in sb:
        return {"kind": "escaped", "cls": sb["escaped"]}, "run() let %s escape" % sb["escaped"]
    ev = refres["events"]
    if exhausted(ev):
        # CPython raised EOFError inside the program; the sandbox answers '0' instead.
        same = (sb["outcome"] == refres["outcome"] and sb["out"] in echo_variants(ev)
                and not compare_globals(refres["globals"], sb["globals"]))
        if same:
            return None
        return ({"kind": "input-queue-exhausted"},
                "input() with an exhausted queue answers '0' where CPython raises EOFError: outcome %r vs %r"
                % (sb["outcome"], refres["outcome"]))
    so, ro = sb["outcome"], refres["outcome"]
    if so and ro and so[0] == ro[0] == "RecursionError":
        # where CPython gives up depends on how deep the stack already is (the sandbox's own frames count):
        # only the kind of exception is compared for runaway recursion
        so = ro = ["RecursionError", None]
    if so != ro:
        mro = refres.get("outcome_mro", [])
        if so and ro and so[0] == "KeyError" and ro[0] != "KeyError" and "KeyError" in mro and so[1] == ro[1]:
            sig = {"kind": "outcome", "cause": "keyerror-subclass-replaced"}
        elif so and ro and so[0] == ro[0]:
            # one signature per way of locating, not per exception class (a defect in how the line is found shows
            # under every class that can be raised): a program that does not compile vs a run-time exception
            sig = {"kind": "outcome-line", "cls": "compile-time" if ro[0] in ("SyntaxError", "IndentationError", "TabError")
                   else "run-time"}
        else:
            sig = {"kind": "outcome", "plain": ro[0] if ro else None, "sandbox": so[0] if so else None}
        return sig, "outcome %r in the sandbox, %r in plain CPython" % (so, ro)
    if sb["out"] not in echo_variants(ev):
        return {"kind": "output"}, "printed text differs: sandbox %r, plain %r" % (sb["out"][-80:], plain_text(ev)[-80:])
    gp = compare_globals(refres["globals"], sb["globals"])
    if gp:
        kind, name = gp[0]
        sig = {"kind": kind}
        if name in ("compile", "eval", "exec", "globals", "exit", "open", "input", "__import__"):
            sig["name"] = "override-name"
        return sig, "student globals differ: %s %r (plain %r, sandbox %r)" % (
            kind, name, refres["globals"].get(name), sb["globals"].get(name))
    consumed_plain = [e[2] for e in ev if e[0] == "inp"]
    if sb.get("consumed") is not None and sb["consumed"] != consumed_plain:
        return {"kind": "inputs-consumed"}, "inputs consumed: sandbox %r, plain %r" % (sb["consumed"], consumed_plain)
    # what is left of the queue (Sandbox.inputs / get_input()): the replies the program did not read, in order
    left = list(case.get("inputs", []))[len(consumed_plain):]
    if sb.get("queue_left") is not None and sb["queue_left"] != left:
        return {"kind": "queue-left"}, "inputs left in the queue: sandbox %r, not read by the program %r" % (
            sb["queue_left"][:6], left[:6])
    # the LINE VIEW of the printed text (Sandbox.output / get_output()), and the text accumulated over the executions
    executions = [ev]           # since the output was last cleared
    in_step = True              # False once an execution took the exhausted-queue path (the two sides part for good)
    vp = view_problem(executions, sb)
    if vp:
        return {"kind": vp[0]}, vp[1]
    # call() vs calling the function directly
    program_globals = refres["globals"]
    for i, (c, rc, sc) in enumerate(zip(case.get("calls", []), refres.get("calls", []), sb.get("calls", []))):
        if rc["result"][0] == "harness" or sc["result"][0] == "harness":
            if rc["result"] != sc["result"]:
                # the grader's own expression (an argument built from the student's classes) could be evaluated on one
                # side only: the namespaces differ
                return ({"kind": "grader-expression", "plain": rc["result"][0], "sandbox": sc["result"][0]},
                        "step %d %r: %r in the sandbox, %r in plain CPython" % (i, c.get("stmt") or c.get("args"),
                                                                                sc["result"], rc["result"]))
            continue
        if c.get("op") == "let":
            continue
        if c.get("op") == "rerun":
            if sc["result"][0] == "escaped":
                return {"kind": "escaped", "cls": sc["result"][1], "after": "rerun"}, "run() let %s escape" % sc["result"][1]
            v = compare_run(rc, sc)
            if v:
                return dict(v[0], after="rerun"), "second run in the same process: " + v[1]
            program_globals = rc["globals"]
            executions, in_step = [rc["events"]], not exhausted(rc["events"])
            continue
        if c.get("op") == "clear_output":
            if sc["result"][0] == "escaped":
                return {"kind": "call-escaped", "cls": sc["result"][1]}, "clear_output() let %s escape" % sc["result"][1]
            executions = []
            vp = view_problem(executions, sc) if in_step else None
            if vp:
                return {"kind": vp[0], "after": "clear_output"}, "after clear_output(): " + vp[1]
            continue
        if c.get("op") == "evaluate":
            c = dict(c, fn="evaluate", args=[c["expr"]])
        if rc["result"][0] == "nofn":
            # not one of the program's functions (it stopped before defining it, or the name is one of the sandbox's own
            # replacement builtins): outside the property; whatever the sandbox printed while refusing is its own
            executions.append([["out", sc.get("out") or ""]])
            continue
        if exhausted(rc.get("events", [])):
            in_step = False
            continue
        if sc["result"][0] == "escaped":
            return {"kind": "call-escaped", "cls": sc["result"][1]}, "call() let %s escape" % sc["result"][1]
        if rc["result"] != sc["result"]:
            return call_signature(case, c, rc, sc, program_globals), "call %d %s: sandbox %s, direct call %s" % (
                i, spelled(c), short(sc["result"]), short(rc["result"]))
        if rc["result"][0] == "exc" and rc["result"][1] != "RecursionError" and rc.get("line") is not None \
                and sc.get("line") != rc["line"]:
            # the exception was raised inside the program's own code: "the same exception" is the same kind of
            # exception at the same line of the program (a failure of the call expression itself - wrong arity,
            # a name that is not a function - has no line in the program and is not compared)
            return (override_cause(c, program_globals) or {"kind": "call-line"},
                    "call %s(%s): %s located at line %r by the sandbox, raised at line %r when called directly" % (
                        c["fn"], ", ".join(c.get("args", []))[:80], rc["result"][1], sc.get("line"), rc["line"]))
        if rc.get("events") is not None and sc.get("out") is not None and not exhausted(rc["events"]) \
                and sc["out"] not in echo_variants(rc["events"]):
            return (override_cause(c, program_globals) or {"kind": "call-output"},
                    "call %s(%s): printed text differs: sandbox %r, direct call %r" % (
                        c["fn"], ", ".join(c.get("args", []))[:80], sc["out"][-80:], plain_text(rc["events"])[-80:]))
        if rc["result"][0] == "ret" and sc.get("target_value") is not None and sc["target_value"] != rc["result"][1]:
            return (override_cause(c, program_globals) or {"kind": "call-target"},
                    "call %d %s: returned %r, but the target variable %r of the student namespace holds %r" % (
                        i, spelled(c), rc["result"][1], sc.get("target"), sc["target_value"]))
        executions.append(rc.get("events") or [])
        vp = view_problem(executions, sc) if in_step else None
        if vp:
            return (override_cause(c, program_globals) or {"kind": vp[0]}, "after call %d %s: %s" % (i, spelled(c), vp[1]))
    return None


def short(x, n=240):
    t = repr(x)
    return t if len(t) <= n else t[:n // 2] + " ... " + t[-n // 2:]


def spelled(c):
    """The call of a step as the grader wrote it."""
    if c.get("op") == "evaluate" or c.get("fn") == "evaluate" and "expr" in c:
        return "evaluate(%r%s)" % (c["expr"], ", target=%r" % c["target"] if "target" in c else "")
    parts = [repr(c["fn"])] + list(c.get("args", []))
    parts += ["%s=%s" % kv for kv in c.get("kwargs", {}).items()]
    for key in ("target", "inputs", "threaded", "args_locals", "kwargs_locals"):
        if key in c:
            parts.append("%s=%r" % (key, c[key]))
    if "fkw" in c:
        parts.append("function_kwargs={%s}" % ", ".join("%r: %s" % kv for kv in c["fkw"].items()))
    head = "get_function(%s)(" % parts[0] if c.get("via") == "get_function" else "call(" + parts[0] + (", " if parts[1:] else "")
    return head + ", ".join(parts[1:]) + ")"


GENERIC_KEYS = {"kind", "plain", "sandbox", "after", "cls"}


def stream_signature(case, sig):
    """The compile / history streams make one defect visible under dozens of (plain class, sandbox class) pairs:
    their generic signatures are folded to kind + dimension (a signature that names a cause is left alone)."""
    shape = (case.get("shape") or [""])[0]
    if sig.get("kind") == "input-queue-exhausted":
        return sig          # the open finding keeps its own signature in every stream
    if shape.startswith("api:") and set(sig) <= GENERIC_KEYS | {"arg"}:
        return {"kind": sig["kind"], "stream": ":".join(shape.split(":")[:2])}
    if shape.startswith(("compile:", "history:")) and set(sig) <= GENERIC_KEYS:
        out = {"kind": sig["kind"], "stream": ":".join(shape.split(":")[:2])}
        if "after" in sig:
            out["after"] = sig["after"]
        return out
    return sig


def judge(case, refres, sb):
    v = oracle(case, refres, sb)
    return (stream_signature(case, v[0]), v[1]) if v else None


def judge_alone(case, timeout=120):
    """The verdict's signature in a fresh process (sandboxequiv_alone.py); None = quiet there; "?" = could not tell."""
    os.makedirs(SCRATCH, exist_ok=True)
    fd, path = tempfile.mkstemp(prefix="alone_", suffix=".json", dir=SCRATCH)
    try:
        with os.fdopen(fd, "w") as fh:
            json.dump(case, fh)
        env = dict(os.environ, PYTHONHASHSEED="0")
        p = subprocess.run([PY, "-X", "utf8", "-W", "ignore", os.path.join(VERIF, "harness", "sandboxequiv_alone.py"), path],
                           cwd=os.path.join(VERIF, "harness"), env=env, capture_output=True, text=True, timeout=timeout)
        lines = [l for l in p.stdout.strip().split("\n") if l.strip()]
        if p.returncode != 0 or not lines:
            return "?"
        return json.loads(lines[-1])
    except Exception:       # noqa
        return "?"
    finally:
        try:
            os.unlink(path)
        except OSError:
            pass


def arg_class(expr):
    if "nan" in expr or "inf" in expr:
        return "float-nonfinite"
    return "other"


OVERRIDE_NAMES = ("compile", "eval", "exec", "globals", "exit", "open", "input", "__import__")


def override_cause(c, program_globals=()):
    if c["fn"] in OVERRIDE_NAMES or any(n in OVERRIDE_NAMES for n in program_globals):
        # the program defines a global with the name of a builtin the sandbox overrides: every execution after the
        # run() rewrites that global with the sandbox's own object (the open finding, whatever it then leads to)
        return {"kind": "call", "cause": "student-global-named-like-override"}
    return None


NESTED_SIGNATURE = {"kind": "call", "cause": "subclass-instance-nested-in-literal"}
KWARGS_LOCALS_SIGNATURE = {"kind": "call", "cause": "kwargs-locals-not-passed-as-keyword"}


def call_signature(case, c, rc, sc, program_globals=()):
    if override_cause(c, program_globals):
        return override_cause(c, program_globals)
    if c.get("kwargs_locals"):
        # kwargs_locals= (withheld unless VERIF_C06_KWARGS_LOCALS is set, sandboxequiv_api.kwargs_locals_enabled)
        return dict(KWARGS_LOCALS_SIGNATURE)
    if c.get("nested"):
        # an instance of a student subclass of a builtin INSIDE a container argument (sandboxequiv_history.NESTED_GROUPS)
        return dict(NESTED_SIGNATURE)
    if sc["result"] == ["exc", "KeyError"] and rc["result"][0] == "exc" and "KeyError" in rc.get("mro", []):
        return {"kind": "outcome", "cause": "keyerror-subclass-replaced"}
    classes = sorted({arg_class(a) for a in list(c.get("args", [])) + list(c.get("kwargs", {}).values()) +
                      list(c.get("fkw", {}).values())})
    sig = {"kind": "call", "plain": rc["result"][0], "sandbox": sc["result"][0] + (":" + sc["result"][1]
                                                                                if sc["result"][0] == "exc" else "")}
    if "float-nonfinite" in classes:
        sig["arg"] = "float-nonfinite"
    return sig


def describe_case(case):
    return "%d lines, %d inputs, %d calls [%s]" % (case["code"].count("\n") + 1, len(case.get("inputs", [])),
                                                   len(case.get("calls", [])), ",".join(case.get("shape", [])))

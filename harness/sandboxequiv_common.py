"""
C06 shared Python side: running a case in the real sandbox, running it in unmodified CPython (reference
subprocess, see sandboxequiv_ref.py; and `python prog.py` with nothing touched at all), canonical observables,
and the oracle written from the property text.
"""
import json
import os
import re
import shutil
import subprocess
import sys
import tempfile
from concurrent.futures import ThreadPoolExecutor

from common import VERIF, use_repo

use_repo()
from pedal.core.commands import contextualize_report        # noqa: E402
from pedal.core.report import MAIN_REPORT                     # noqa: E402
from pedal.core.submission import Submission                  # noqa: E402
from pedal.sandbox import commands                            # noqa: E402
from pedal.sandbox.sandbox import Sandbox                     # noqa: E402

import sandboxequiv_ref as ref                                # noqa: E402  (describe(): the same canonical form)

PY = "/venv/bin/python"
REF_SCRIPT = os.path.join(VERIF, "harness", "sandboxequiv_ref.py")
SCRATCH = os.environ.get("VERIF_C06_SCRATCH", "/tmp/verif_c06_ref")


# --------------------------------------------------------------------------
# reference side

def child_env():
    env = {"PATH": os.environ.get("PATH", "/usr/bin:/bin"), "PYTHONHASHSEED": "0", "PYTHONDONTWRITEBYTECODE": "1",
           "PYTHONIOENCODING": "utf-8", "LANG": "C.UTF-8"}
    return env


def run_reference(cases, pad=None, chunk=60, workers=8, limit=None):
    """Traced unmodified-CPython runs of many cases (batched: several fresh `__main__` modules per interpreter).
    `pad`: None = stdin ends after the queued inputs (what `python prog.py < inputs` does); "0" = the queue is
    followed by the sandbox's default reply for ever (the path the sandbox takes; used for the model tie only)."""
    os.makedirs(SCRATCH, exist_ok=True)
    jobs = [{"code": c["code"], "filename": c.get("filename", "answer.py"), "inputs": c.get("inputs", []),
             "pad": pad, "limit": limit, "calls": [dict(k) for k in c.get("calls", [])] if pad is None else []}
            for c in cases]
    chunks = [jobs[i:i + chunk] for i in range(0, len(jobs), chunk)]

    def work(args):
        idx, part = args
        d = tempfile.mkdtemp(prefix="ref%d_" % idx, dir=SCRATCH)
        try:
            jf, rf = os.path.join(d, "jobs.json"), os.path.join(d, "res.json")
            with open(jf, "w") as fh:
                json.dump(part, fh)
            p = subprocess.run([PY, "-X", "utf8", "-s", "-W", "ignore", REF_SCRIPT, jf, rf], cwd=d, env=child_env(),
                               capture_output=True, text=True, timeout=300)
            if p.returncode != 0 or not os.path.exists(rf):
                return [{"harness_error": "reference process failed: " + (p.stderr or "")[-300:]}] * len(part)
            with open(rf) as fh:
                return json.load(fh)
        finally:
            shutil.rmtree(d, ignore_errors=True)
    out = []
    with ThreadPoolExecutor(max_workers=workers) as ex:
        for res in ex.map(work, list(enumerate(chunks))):
            out.extend(res)
    return out


TB_FILE = re.compile(r'^\s*File "([^"]*)", line (\d+)')


def run_pure(case, timeout=30):
    """`python <file>` with the inputs on stdin and NOTHING else: the property's reference, literally.
    -> {"out": stdout text, "outcome": None | [class name, line]} (line parsed from the traceback CPython prints)."""
    os.makedirs(SCRATCH, exist_ok=True)
    d = tempfile.mkdtemp(prefix="pure_", dir=SCRATCH)
    try:
        fn = case.get("filename", "answer.py")
        path = os.path.join(d, fn)
        with open(path, "w", encoding="utf-8", newline="") as fh:
            fh.write(case["code"])
        stdin = "".join(x + "\n" for x in case.get("inputs", []))
        p = subprocess.run([PY, "-X", "utf8", "-s", fn], cwd=d, env=child_env(), input=stdin.encode("utf-8"),
                           capture_output=True, timeout=timeout)
        out = p.stdout.decode("utf-8", "replace")       # the bytes as written: no newline translation of any kind
        err = p.stderr.decode("utf-8", "replace")
        outcome = None
        if p.returncode != 0:
            lines = [l for l in err.split("\n") if l.strip()]
            cls = None
            for l in reversed(lines):
                m = re.match(r"^([A-Za-z_][\w.<>]*)(:|$)", l)      # e.g. __main__.f.<locals>.MyError: text
                if m:
                    cls = m.group(1).split(".")[-1]
                    break
            own = []
            for l in lines:
                m = TB_FILE.match(l)
                if m and os.path.basename(m.group(1)) == fn and os.path.dirname(m.group(1)) in ("", d):
                    own.append(int(m.group(2)))
            outcome = [cls, own[-1] if own else None]
        return {"out": out, "outcome": outcome, "stderr_tail": err[-300:]}
    finally:
        shutil.rmtree(d, ignore_errors=True)


def plain_text(events):
    """What an unmodified interpreter writes: printed text, and each prompt as it is (no newline)."""
    return "".join(e[1] if e[0] == "out" else (e[1] or "") for e in events)


# --------------------------------------------------------------------------
# sandbox side

def is_injected(value):
    """A function object defined inside pedal (the sandbox's replacement builtins)."""
    mod = getattr(value, "__module__", None)
    return callable(value) and isinstance(mod, str) and (mod == "pedal" or mod.startswith("pedal."))


SANDBOX_OWN = {"__builtins__", "__name__"}


def sandbox_globals(data):
    out = {}
    for k, v in data.items():
        if k in SANDBOX_OWN or is_injected(v):
            continue
        if k in ref.FRESH_MAIN:
            continue
        if k == "__annotations__" and not v:
            continue
        out[k] = ref.describe(v)
    return out


def student_env(data):
    """What a grader's expression sees when it builds an argument from the student's own classes: the program's
    globals (not what the sandbox put there) over the real builtins."""
    env = {k: v for k, v in data.items() if k not in SANDBOX_OWN and not is_injected(v)}
    env["__builtins__"] = BUILTINS
    return env


BUILTINS = __builtins__ if isinstance(__builtins__, dict) else __builtins__.__dict__


def observe_run(sb):
    res = {"out": sb.raw_output, "globals": sandbox_globals(sb.data)}
    exc = sb.exception
    if exc is None:
        res["outcome"] = None
    else:
        loc = getattr(sb.feedback, "location", None) if sb.feedback is not None else None
        res["outcome"] = [type(exc).__name__, getattr(loc, "line", None) if loc is not None else None]
    return res


def run_sandbox(case):
    """-> {"out", "globals", "outcome", "calls": [...], "consumed": [...], "code_of_calls": [...]}"""
    fn = case.get("filename", "answer.py")
    sub = Submission(files={fn: case["code"]}, main_file=fn)
    contextualize_report(sub)
    res = {"calls": []}
    api = case.get("api", "commands")
    try:
        sb = MAIN_REPORT["sandbox"]["sandbox"]
        if case.get("limit") is not None:
            sb.MAXIMUM_INPUTS = case["limit"]       # instance attribute: the class constant stays what it is
        if api == "commands":
            commands.set_input(list(case.get("inputs", [])))
            commands.run()
        else:
            sb.run(inputs=list(case.get("inputs", [])))
    except BaseException as e:      # noqa
        return {"escaped": type(e).__name__, "calls": []}
    res["out"] = sb.raw_output
    res["globals"] = sandbox_globals(sb.data)
    res["data_keys"] = sorted(k for k in sb.data if isinstance(k, str))
    res["consumed"] = list(sb._context[-1].inputs) if sb._context else []
    res["queue_left"] = list(sb.inputs) if isinstance(sb.inputs, list) else None
    exc = sb.exception
    if exc is None:
        res["outcome"] = None
    else:
        loc = getattr(sb.feedback, "location", None) if sb.feedback is not None else None
        res["outcome"] = [type(exc).__name__, getattr(loc, "line", None) if loc is not None else None]
    hv = {}         # the grader's own variables (steps {"op": "let"}), alive over the whole history
    for c in case.get("calls", []):
        op = c.get("op", "call")
        if op == "let":
            try:
                exec(c["stmt"], student_env(sb.data), hv)
                res["calls"].append({"op": "let", "result": ["let"]})
            except BaseException as e:      # noqa
                res["calls"].append({"op": "let", "result": ["harness", type(e).__name__]})
            continue
        if op == "rerun":
            # the same process grades again (the same or another program), as a grader does for the next submission
            try:
                contextualize_report(Submission(files={fn: c.get("code", case["code"])}, main_file=fn))
                sb = MAIN_REPORT["sandbox"]["sandbox"]
                if api == "commands":
                    commands.set_input(list(c.get("inputs", [])))
                    commands.run()
                else:
                    sb.run(inputs=list(c.get("inputs", [])))
            except BaseException as e:      # noqa
                res["calls"].append({"op": "rerun", "result": ["escaped", type(e).__name__]})
                continue
            obs = observe_run(sb)
            res["calls"].append(dict(obs, op="rerun", result=["rerun", obs["outcome"]]))
            continue
        env = student_env(sb.data) if c.get("scope") == "student" else {"__builtins__": BUILTINS}
        try:
            args = [eval(a, dict(env), hv) for a in c.get("args", [])]
            kwargs = {k: eval(a, dict(env), hv) for k, a in c.get("kwargs", {}).items()}
        except Exception as e:      # noqa
            res["calls"].append({"result": ["harness", type(e).__name__]})
            continue
        before = len(sb.raw_output)
        opts = {}
        if "target" in c:
            opts["target"] = c["target"]
        if "inputs" in c:
            opts["inputs"] = list(c["inputs"])
        keys_before = {k: id(v) for k, v in sb.data.items()}
        try:
            if api == "commands":
                r = commands.call(c["fn"], *args, **opts, **kwargs)
            else:
                r = sb.call(c["fn"], *args, **opts, **kwargs)
        except BaseException as e:  # noqa
            res["calls"].append({"result": ["escaped", type(e).__name__]})
            continue
        line = None
        if sb.exception is not None:
            exc = sb.exception
            exc = getattr(exc, "_actual_value", exc)
            out = ["exc", type(exc).__name__]
            loc = getattr(sb.feedback, "location", None) if sb.feedback is not None else None
            line = getattr(loc, "line", None) if loc is not None else None
        else:
            out = ["ret", ref.describe(getattr(r, "_actual_value", r))]
        code = sb._context[-1].code if sb._context else None
        target = c.get("target", "_")
        changed = sorted(k for k in set(keys_before) | set(sb.data)
                         if isinstance(k, str) and k not in SANDBOX_OWN and
                         (k not in sb.data or k not in keys_before or id(sb.data[k]) != keys_before[k])
                         and not is_injected(sb.data.get(k, keys_before.get(k))))
        res["calls"].append({"result": out, "line": line, "out": sb.raw_output[before:], "code": code,
                             "changed_keys": changed, "target": target,
                             "temporaries_left": sorted(k for k in sb.data if isinstance(k, str) and k.startswith("_temporary_")
                                                        and k not in keys_before)})
    return res


class SandboxHung(BaseException):
    """The sandbox side of a case did not finish in time (BaseException: the sandbox reports `Exception`s as the
    student's, this one has to come out)."""


def run_sandbox_guarded(case, seconds=20):
    """run_sandbox under an alarm.  The reference ran first and ENDED; when the sandbox takes another path than plain
    CPython (that is what a defect is) the rest of the program - or what the shrinker left of it - is code that the
    reference never executed, and nothing says that it terminates.  -> run_sandbox's result or {"hung": seconds}."""
    import signal
    import threading
    if threading.current_thread() is not threading.main_thread():
        return run_sandbox(case)

    def on_alarm(*a):
        raise SandboxHung()
    old = signal.signal(signal.SIGALRM, on_alarm)
    signal.setitimer(signal.ITIMER_REAL, seconds)
    try:
        return run_sandbox(case)
    except SandboxHung:
        return {"hung": seconds, "calls": []}
    finally:
        signal.setitimer(signal.ITIMER_REAL, 0)
        signal.signal(signal.SIGALRM, old)


# --------------------------------------------------------------------------
# the property

ECHO_FORMS = [lambda p: p + "\n", lambda p: p, lambda p: ""]


def echo_variants(events):
    """The texts the sandbox may legitimately produce for these events: printed text is fixed, each prompt is
    echoed in one consistent way (the property leaves the echo open: prompt + newline, prompt, or nothing)."""
    outs = []
    for form in ECHO_FORMS:
        outs.append("".join(e[1] if e[0] == "out" else form(e[1] or "") for e in events))
    return outs


def exhausted(events):
    return any(e[0] == "inp" and e[2] is None for e in events)


def compare_globals(rg, sg):
    """student-defined globals: same names; same values for data, same kind for everything else."""
    problems = []
    for k in sorted(set(rg) | set(sg)):
        if k not in sg:
            problems.append(("missing-global", k))
        elif k not in rg:
            problems.append(("extra-global", k))
        elif rg[k] != sg[k]:
            problems.append(("global-value", k))
    return problems


def compare_run(refres, sb):
    """One execution of a program (not the first of a case: no exhausted-queue handling): outcome, text, globals."""
    so, ro = sb["outcome"], refres["outcome"]
    if so and ro and so[0] == ro[0] == "RecursionError":
        so = ro = ["RecursionError", None]
    if so != ro:
        return ({"kind": "outcome", "plain": ro[0] if ro else None, "sandbox": so[0] if so else None},
                "outcome %r in the sandbox, %r in plain CPython" % (so, ro))
    if sb["out"] not in echo_variants(refres["events"]):
        return {"kind": "output"}, "printed text differs: sandbox %r, plain %r" % (sb["out"][-80:],
                                                                                  plain_text(refres["events"])[-80:])
    gp = compare_globals(refres["globals"], sb["globals"])
    if gp:
        kind, name = gp[0]
        return {"kind": kind}, "student globals differ: %s %r (plain %r, sandbox %r)" % (
            kind, name, refres["globals"].get(name), sb["globals"].get(name))
    return None


def oracle(case, refres, sb):
    """None, or (signature, what).  `refres` is the traced unmodified run, `sb` the sandbox run."""
    if "harness_error" in refres:
        raise RuntimeError(refres["harness_error"])
    if "hung" in sb:
        return ({"kind": "sandbox-does-not-finish"},
                "the program ended in plain CPython (outcome %r) and was still running in the sandbox after %s s" % (
                    refres.get("outcome"), sb["hung"]))
    if "escaped" in sb:
        return {"kind": "escaped", "cls": sb["escaped"]}, "run() let %s escape" % sb["escaped"]
    ev = refres["events"]
    if exhausted(ev):
        # CPython raised EOFError inside the program; the sandbox answers '0' instead.
        same = (sb["outcome"] == refres["outcome"] and sb["out"] in echo_variants(ev)
                and not compare_globals(refres["globals"], sb["globals"]))
        if same:
            return None
        return ({"kind": "input-queue-exhausted"},
                "input() with an exhausted queue answers '0' where CPython raises EOFError: outcome %r vs %r"
                % (sb["outcome"], refres["outcome"]))
    so, ro = sb["outcome"], refres["outcome"]
    if so and ro and so[0] == ro[0] == "RecursionError":
        # where CPython gives up depends on how deep the stack already is (the sandbox's own frames count):
        # only the kind of exception is compared for runaway recursion
        so = ro = ["RecursionError", None]
    if so != ro:
        mro = refres.get("outcome_mro", [])
        if so and ro and so[0] == "KeyError" and ro[0] != "KeyError" and "KeyError" in mro and so[1] == ro[1]:
            sig = {"kind": "outcome", "cause": "keyerror-subclass-replaced"}
        elif so and ro and so[0] == ro[0]:
            # one signature per way of locating, not per exception class (a defect in how the line is found shows
            # under every class that can be raised): a program that does not compile vs a run-time exception
            sig = {"kind": "outcome-line", "cls": "compile-time" if ro[0] in ("SyntaxError", "IndentationError", "TabError")
                   else "run-time"}
        else:
            sig = {"kind": "outcome", "plain": ro[0] if ro else None, "sandbox": so[0] if so else None}
        return sig, "outcome %r in the sandbox, %r in plain CPython" % (so, ro)
    if sb["out"] not in echo_variants(ev):
        return {"kind": "output"}, "printed text differs: sandbox %r, plain %r" % (sb["out"][-80:], plain_text(ev)[-80:])
    gp = compare_globals(refres["globals"], sb["globals"])
    if gp:
        kind, name = gp[0]
        sig = {"kind": kind}
        if name in ("compile", "eval", "exec", "globals", "exit", "open", "input", "__import__"):
            sig["name"] = "override-name"
        return sig, "student globals differ: %s %r (plain %r, sandbox %r)" % (
            kind, name, refres["globals"].get(name), sb["globals"].get(name))
    consumed_plain = [e[2] for e in ev if e[0] == "inp"]
    if sb.get("consumed") is not None and sb["consumed"] != consumed_plain:
        return {"kind": "inputs-consumed"}, "inputs consumed: sandbox %r, plain %r" % (sb["consumed"], consumed_plain)
    # call() vs calling the function directly
    program_globals = refres["globals"]
    for i, (c, rc, sc) in enumerate(zip(case.get("calls", []), refres.get("calls", []), sb.get("calls", []))):
        if rc["result"][0] == "harness" or sc["result"][0] == "harness":
            if rc["result"] != sc["result"]:
                # the grader's own expression (an argument built from the student's classes) could be evaluated on one
                # side only: the namespaces differ
                return ({"kind": "grader-expression", "plain": rc["result"][0], "sandbox": sc["result"][0]},
                        "step %d %r: %r in the sandbox, %r in plain CPython" % (i, c.get("stmt") or c.get("args"),
                                                                                sc["result"], rc["result"]))
            continue
        if c.get("op") == "let":
            continue
        if c.get("op") == "rerun":
            if sc["result"][0] == "escaped":
                return {"kind": "escaped", "cls": sc["result"][1], "after": "rerun"}, "run() let %s escape" % sc["result"][1]
            v = compare_run(rc, sc)
            if v:
                return dict(v[0], after="rerun"), "second run in the same process: " + v[1]
            program_globals = rc["globals"]
            continue
        if rc["result"][0] == "nofn":
            continue        # not one of the program's functions (it stopped before defining it): outside the property
        if exhausted(rc.get("events", [])):
            continue
        if sc["result"][0] == "escaped":
            return {"kind": "call-escaped", "cls": sc["result"][1]}, "call() let %s escape" % sc["result"][1]
        if rc["result"] != sc["result"]:
            return call_signature(case, c, rc, sc, program_globals), "call %d %s(%s%s): sandbox %r, direct call %r" % (
                i, c["fn"], ", ".join(c.get("args", [])),
                "".join(", %s=%s" % kv for kv in c.get("kwargs", {}).items()), sc["result"], rc["result"])
        if rc["result"][0] == "exc" and rc["result"][1] != "RecursionError" and rc.get("line") is not None \
                and sc.get("line") != rc["line"]:
            # the exception was raised inside the program's own code: "the same exception" is the same kind of
            # exception at the same line of the program (a failure of the call expression itself - wrong arity,
            # a name that is not a function - has no line in the program and is not compared)
            return (override_cause(c, program_globals) or {"kind": "call-line"},
                    "call %s(%s): %s located at line %r by the sandbox, raised at line %r when called directly" % (
                        c["fn"], ", ".join(c.get("args", []))[:80], rc["result"][1], sc.get("line"), rc["line"]))
        if rc.get("events") is not None and sc.get("out") is not None and not exhausted(rc["events"]) \
                and sc["out"] not in echo_variants(rc["events"]):
            return (override_cause(c, program_globals) or {"kind": "call-output"},
                    "call %s(%s): printed text differs: sandbox %r, direct call %r" % (
                        c["fn"], ", ".join(c.get("args", []))[:80], sc["out"][-80:], plain_text(rc["events"])[-80:]))
    return None


GENERIC_KEYS = {"kind", "plain", "sandbox", "after", "cls"}


def stream_signature(case, sig):
    """The compile / history streams make one defect visible under dozens of (plain class, sandbox class) pairs:
    their generic signatures are folded to kind + dimension (a signature that names a cause is left alone)."""
    shape = (case.get("shape") or [""])[0]
    if shape.startswith(("compile:", "history:")) and set(sig) <= GENERIC_KEYS:
        out = {"kind": sig["kind"], "stream": ":".join(shape.split(":")[:2])}
        if "after" in sig:
            out["after"] = sig["after"]
        return out
    return sig


def judge(case, refres, sb):
    v = oracle(case, refres, sb)
    return (stream_signature(case, v[0]), v[1]) if v else None


def judge_alone(case, timeout=120):
    """The verdict's signature in a fresh process (sandboxequiv_alone.py); None = quiet there; "?" = could not tell."""
    os.makedirs(SCRATCH, exist_ok=True)
    fd, path = tempfile.mkstemp(prefix="alone_", suffix=".json", dir=SCRATCH)
    try:
        with os.fdopen(fd, "w") as fh:
            json.dump(case, fh)
        env = dict(os.environ, PYTHONHASHSEED="0")
        p = subprocess.run([PY, "-X", "utf8", "-W", "ignore", os.path.join(VERIF, "harness", "sandboxequiv_alone.py"), path],
                           cwd=os.path.join(VERIF, "harness"), env=env, capture_output=True, text=True, timeout=timeout)
        lines = [l for l in p.stdout.strip().split("\n") if l.strip()]
        if p.returncode != 0 or not lines:
            return "?"
        return json.loads(lines[-1])
    except Exception:       # noqa
        return "?"
    finally:
        try:
            os.unlink(path)
        except OSError:
            pass


def arg_class(expr):
    if "nan" in expr or "inf" in expr:
        return "float-nonfinite"
    return "other"


OVERRIDE_NAMES = ("compile", "eval", "exec", "globals", "exit", "open", "input", "__import__")


def override_cause(c, program_globals=()):
    if c["fn"] in OVERRIDE_NAMES or any(n in OVERRIDE_NAMES for n in program_globals):
        # the program defines a global with the name of a builtin the sandbox overrides: every execution after the
        # run() rewrites that global with the sandbox's own object (the open finding, whatever it then leads to)
        return {"kind": "call", "cause": "student-global-named-like-override"}
    return None


NESTED_SIGNATURE = {"kind": "call", "cause": "subclass-instance-nested-in-literal"}


def call_signature(case, c, rc, sc, program_globals=()):
    if override_cause(c, program_globals):
        return override_cause(c, program_globals)
    if c.get("nested"):
        # an instance of a student subclass of a builtin INSIDE a container argument (sandboxequiv_history.NESTED_GROUPS)
        return dict(NESTED_SIGNATURE)
    if sc["result"] == ["exc", "KeyError"] and rc["result"][0] == "exc" and "KeyError" in rc.get("mro", []):
        return {"kind": "outcome", "cause": "keyerror-subclass-replaced"}
    classes = sorted({arg_class(a) for a in list(c.get("args", [])) + list(c.get("kwargs", {}).values())})
    sig = {"kind": "call", "plain": rc["result"][0], "sandbox": sc["result"][0] + (":" + sc["result"][1]
                                                                                if sc["result"][0] == "exc" else "")}
    if "float-nonfinite" in classes:
        sig["arg"] = "float-nonfinite"
    return sig


def describe_case(case):
    return "%d lines, %d inputs, %d calls [%s]" % (case["code"].count("\n") + 1, len(case.get("inputs", [])),
                                                   len(case.get("calls", [])), ",".join(case.get("shape", [])))

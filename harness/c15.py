"""C15 — captured output and mocked input exactly record what student code did, in order."""
import itertools
import json
import os
import random
import sys

from common import VERIF, CorrResult, Failure, canon, enc_str, load_known_findings, run_check, use_repo
use_repo()
import sandboxio_common as sc                      # noqa: E402
from translate_sandboxio import translate          # noqa: E402

THEOREMS = [
    "Pedal.SandboxIO.c15_raw_is_concat_since_clear",
    "Pedal.SandboxIO.c15_context_share",
    "Pedal.SandboxIO.c15_lines_view",
    "Pedal.SandboxIO.c15_silent_contributes_nothing",
    "Pedal.SandboxIO.c15_printing_appends",
    "Pedal.SandboxIO.c15_clear_output",
    "Pedal.SandboxIO.c15_exec_inputs_fifo",
    "Pedal.SandboxIO.c15_input_fifo_once_default",
    "Pedal.SandboxIO.c15_input_record",
    "Pedal.SandboxIO.c15_run_with_before",
    "Pedal.SandboxIO.c15_callable_reads",
    "Pedal.SandboxIO.runEvents_buf",
    "Pedal.SandboxIO.runEvents_popped",
    "Pedal.SandboxIO.inv_step",
    # obligations on the generated file (what the translator read / measured)
    "Pedal.SandboxIO.guard_sem",
    "Pedal.SandboxIO.pop_front",
    "Pedal.SandboxIO.default_known",
    "Pedal.SandboxIO.lookup_at_call",
    # objects that outlive an execution: a kept `input` is the current `input`
    "Pedal.SandboxIO.runEvents_readKept",
    "Pedal.SandboxIO.c15_kept_input_is_current_input",
]
NOTES = [
    "a student execution is abstracted to its trace of stdout writes and input() calls; that print(*a, sep, end) "
    "writes sep.join(map(str,a))+end and that io.StringIO returns exactly what was written is CPython, trusted and "
    "sampled by the correspondence (print / sys.stdout.write / input(prompt) / input() through run, call and evaluate)",
    "str.isspace is compared with the model's isPySpace over EVERY code point on every run; rstrip/split('\\n') on "
    "seeded strings over all 29 whitespace code points and non-whitespace look-alikes",
    "the condition under which append_output touches the line view (a boolean expression over: own text non-empty, "
    "raw output before / after non-empty), the popped end of the queue and the default input are read from the source "
    "(path-wise symbolic reading: early returns, negations, flags in locals, private helpers inlined, the installed "
    "input() located through mock_function) AND measured on a fresh sandbox through the public API; the two must agree "
    "(a contradiction or a fact established neither way is `unknown` and fails guard_sem / pop_front / default_known); "
    "the control flow of the mocked input() / set_input / append_output around these facts is hand-modelled",
    "set_input/queue_input/run(inputs=) with a non-None value while a callable is installed raise AttributeError in "
    "the code; modelled (operation raises, state unchanged) and compared, but outside the oracle's domain",
    "objects that outlive an execution: a call of input() through a reference an EARLIER execution handed out (a "
    "stored `input`, a helper module of a two-file submission imported earlier, a generator that captured it) is an "
    "event of its own in the model (readKept); that it is served exactly like a call through the current input() "
    "(c15_kept_input_is_current_input) rests on the fourth translated + measured fact: the mocked input() resolves "
    "self.inputs at each call (lookup_at_call; a tracker that captures the queue object when it is created fails it). "
    "A stored `print`, a print / sys.stdout.write inside an earlier-imported module and generators advanced in a "
    "later execution are CPython (print looks sys.stdout up when called): writes of the execution that makes them, "
    "sampled by the correspondence. Text written through a stored sys.stdout OBJECT (out = sys.stdout, "
    "file=sys.stdout default argument, bound sys.stdout.write) in a later execution vanishes in the code as it is: "
    "OPEN finding (KNOWN_FINDINGS signature raw-output / kept-stdout-write-lost); the model side drops that text, the "
    "oracle demands it, the search shows the finding once and then tolerates it so that it cannot hide another "
    "failure (switch sandboxio_common.KEPT_STDOUT = off | open | fixed; notes/C15.md section 6)",
    "the capture buffer (round 4): with real printing allowed (allow_function('print') through commands or the "
    "Sandbox, allow_real_io, run(real_io=True)) the sandbox captures through PrintingStringIO, a tee to the console, "
    "instead of io.StringIO. The Lean model has ONE buffer (the property does not mention it): the switches are "
    "annotations the model and the oracle ignore (allow_real_io = set_input(callable), block_real_io = clear_input, "
    "run(real_io=True) = run(inputs=callable) + clear_input), so every tee'd history is compared with the same model "
    "run and judged by the same oracle - 'the recorded text is the same under both buffers' is sampled (correspondence "
    "+ search + small-scope enumeration over write forms x switches), not proved; what is echoed to the console is "
    "swallowed and not judged. Write forms: print (explicit / default sep,end, file=sys.stdout, flush=True), "
    "sys.stdout.write, writelines, flush in between, kept print / helper module / generator / kept stdout object",
    "MAXIMUM_INPUTS (read from the tree under test) is a safety valve of ONE execution and is not in the Lean model; "
    "search-only limit histories: one execution reading limit-1 times (full oracle), limit and limit+1 times (only the "
    "reads BELOW the limit are judged: FIFO / default values in the record, their prompts at the head of the output), "
    "several executions each far below the limit whose TOTAL crosses it (full oracle: every execution gets FIFO / "
    "default however many reads the sandbox served before), also with real printing allowed",
    "not modelled: output written by the abandoned thread of a timed-out execution (C14), the text echoed to the real "
    "console, student code that replaces or closes sys.stdout or calls sandbox APIs itself, "
    "clear() / clear_student_data() (they delete everything student code could have kept)",
]


def corpus_cases():
    d = os.path.join(VERIF, "corpus", "C15")
    out = []
    if os.path.isdir(d):
        for name in sorted(os.listdir(d)):
            if name.endswith(".json"):
                with open(os.path.join(d, name)) as fh:
                    case = json.load(fh)
                # histories that write through a stored sys.stdout object wait for the decision on that finding
                if sc.uses_kept_stdout(case) and sc.KEPT_STDOUT == "off":
                    continue
                out.append(case)
    return out


def nontrivial_key(case):
    """>=2 executions of which one prints and one is silent or reads input, or a queue op between executions"""
    execs = [op for op in sc.flat_ops(case)[1:] if op["k"] == "exec"]
    if len(execs) >= 2 and (any(not op["events"] for op in execs) or any(sc.is_read(e) for op in execs
                                                                           for e in op["events"])):
        return json.dumps(case, sort_keys=True)
    return None


def survivor_class(case):
    """which kind of kept object a history really uses in a LATER execution (for the evidence counters)"""
    kinds = set()
    kept, gens = {0: 0}, {}
    for i, (op, raises) in enumerate(sc.walk([sc.SETUP_OP] + case["ops"])):
        if op["k"] != "exec" or raises:
            continue
        for e in op["events"]:
            if e[0] == "keep":
                kept[e[1]] = i
            elif e[0] == "gnew":
                gens[e[1]] = i
            elif e[0] == "gnext":
                if gens.get(e[1], i) != i:
                    kinds.add("generator")
            elif e[0] not in sc.BASE_KINDS and kept.get(e[1], i) != i:
                kinds.add({"kr": "input", "kr0": "input", "hr": "module-input", "kp": "print", "hp": "module-print",
                           "hw": "module-write"}.get(e[0], "stdout-object"))
    return kinds


def buffer_class(case):
    """evidence counters for the capture-buffer dimension: which switch, and which write forms were executed while the
    tee buffer was the capture buffer"""
    if not sc.uses_tee(case):
        return set()
    out = {"buffer:tee-history"}
    on = bool(case.get("tee0"))
    if on:
        out.add("buffer:switch:" + case["tee0"] + "-before-setup")
    for op, raises in sc.walk(case["ops"]):
        if op.get("tee"):
            on = op["tee"] != "off"
            out.add("buffer:switch:" + op["tee"])
        if op.get("via") == "allow_real_io" and not raises:
            on = True
            out.add("buffer:switch:allow_real_io")
        if op.get("via") == "block_real_io":
            on = False
            out.add("buffer:switch:block_real_io")
        if op["k"] == "exec" and op.get("real_io") is not None:
            out.add("buffer:switch:run(real_io=True)")
            if not raises:
                for e in op["events"]:
                    out.add("buffer:tee-write:" + e[0])
            on = on if raises else False
            continue
        if op["k"] == "exec" and on and not raises:
            for e in op["events"]:
                out.add("buffer:tee-write:" + e[0])
    return out


def string_corr(rng, tier, driver, res):
    """isPySpace over every code point; rstrip / split / linesOf on seeded strings."""
    ans = driver.ask(["spaces 0 1114112"])[0]
    model = set(int(x) for x in ans[3:].split(",") if x) if ans.startswith("ok") else None
    real = set(c for c in range(0x110000) if chr(c).isspace())
    res.evaluations += 1
    res.count("isspace-table")
    if model != real:
        res.disagreements.append({"case": {"isspace": True}, "real": sorted(real)[:40],
                                  "model": None if model is None else sorted(model)[:40], "fields": ["isspace"],
                                  "request": "spaces 0 1114112"})
    n = 400 if tier == "quick" else 20000
    strs = ["", "\n", " ", "a", "a\n", "\n\n", " \n ", "a \n\nb  \n", "\x0c\n", "x\r\n", "\x1c\x1d\x1e\x1f", "\x85\xa0",
            "a​ ", "　a　"]
    alph = sc.WS + sc.NOT_WS + ["\n", "\n", "\n", " "]
    for _ in range(n):
        strs.append("".join(rng.choice(alph) for _ in range(rng.randint(0, 9))))
    reqs = []
    for s in strs:
        reqs += ["rstrip " + enc_str(s), "split " + enc_str(s), "lines " + enc_str(s)]
    answers = driver.ask(reqs)
    for i, s in enumerate(strs):
        reals = [s.rstrip(), s.split("\n"), [ln.rstrip() for ln in s.rstrip().split("\n")]]
        a = answers[3 * i:3 * i + 3]
        models = [None, None, None]
        if all(x.startswith("ok") for x in a):
            models = [sc._dec(a[0][3:]), sc._dec_list(a[1][3:]), sc._dec_list(a[2][3:])]
        res.evaluations += 1
        res.count("strings")
        if reals != models:
            res.disagreements.append({"case": {"string": s}, "real": reals, "model": models, "fields": ["string-fn"],
                                      "request": reqs[3 * i]})


def correspond(rng, tier, driver):
    res = CorrResult()
    res.rule = ("cases = corpus + seeded histories (1-8 ops: run/call/evaluate executing print(sep,end)/"
                "sys.stdout.write/input(prompt)/input() traces incl. silent, whitespace-only, raising; clear_output; "
                "set_input(None|str|int|list|callable, clear); queue_input; clear_input; run/call(inputs=)); real = "
                "pedal.sandbox.commands on a fresh sandbox observed after EVERY op (raw, line view, queue, record count, "
                "last record) + all records at the end; model = Pedal.SandboxIO.run through driver_c15; non-trivial = "
                ">=2 executions with a silent or reading one; + survivor histories: an execution stores input / print / "
                "a fresh import of the helper module of a two-file submission / a generator (slot 0: the setup "
                "execution's own), later executions read and write through them, with clear_input / set_input(None| "
                "str|list|callable, clear) / queue_input / clear_output / inputs= in between")
    n = 500 if tier == "quick" else 6000
    cases = corpus_cases()
    for _ in range(n):
        cases.append(sc.gen_case(rng, allow_callable=True))
    # objects that outlive an execution: references stored by one execution, used by later ones, with every queue /
    # output operation (in place and rebinding) in between
    for _ in range(250 if tier == "quick" else 3000):
        cases.append(sc.gen_survivor_case(rng, allow_callable=rng.random() < 0.4))
    # the capture buffer as a dimension: the same kinds of history with real printing allowed (PrintingStringIO
    # instead of io.StringIO) through each public switch, for the whole history or switched on / off along it
    for j in range(300 if tier == "quick" else 3000):
        base = sc.gen_survivor_case(rng, allow_callable=rng.random() < 0.4) if j % 3 == 2 else \
            sc.gen_case(rng, allow_callable=True)
        cases.append(sc.add_tee(rng, base))
    # run(inputs=..., before=<code>): the inputs are queued BEFORE the `before` code executes.  Own PRNG (derived from
    # the seed) so that the streams above stay what they were
    brng = random.Random("c15-before-%s" % os.environ.get("VERIF_SEED", "0"))
    for _ in range(200 if tier == "quick" else 2500):
        cases.append(sc.gen_before_case(brng))
    reals, lines = [], []
    for case in cases:
        real = sc.run_real(case)
        reals.append((case, real))
        lines.append(sc.request_line(case))
    answers = driver.ask(lines)
    for (case, real), line, ans in zip(reals, lines, answers):
        model = sc.parse_model(ans, case)
        res.evaluations += 1
        res.count("nops=%d" % len(case["ops"]))
        for op in case["ops"]:
            res.count("op:" + op["k"] + (":" + op["kind"] if op["k"] == "exec" else ""))
        if any(o["err"] for o in real[0]):
            res.count("history-with-raising-op")
        for kind in survivor_class(case):
            res.count("kept:" + kind)
        for what in buffer_class(case):
            res.count(what)
        for op in case["ops"]:
            if op.get("before") is not None:
                res.count("run(before=)" + ("+inputs=" if op.get("pre") is not None else "") +
                          (":before-reads" if any(e[0] in ("r", "r0") for e in op["before"]) else ""))
        if sc.has_stale_route(case) and any(op["k"] in ("clear_input", "set_input") and
                                            (op["k"] == "clear_input" or op["arg"][0] in ("none", "callable"))
                                            for op in case["ops"]):
            res.count("kept-reference+queue-rebound")
        k = nontrivial_key(case)
        if k:
            res.nontrivial.add(k)
        d = sc.compare((real[0], real[1]), model)
        if d:
            res.disagreements.append({"case": case, "real": real[0][-1], "model": model[0][-1] if model else None,
                                      "fields": d[:6], "request": line})
    res.samples = [c for c, _ in reals[-3:]]
    string_corr(rng, tier, driver, res)
    res.reals = reals
    return res


# reduced alphabet for the exhaustive enumeration
def _ex(events, kind="call"):
    return {"k": "exec", "kind": kind, "pre": None, "events": events, "raises": False, "student_file": True}


SMALL_OPS = [
    _ex([]), _ex([], "eval"), _ex([["w", "a\n"]]), _ex([["p", ["b"], " ", ""]], "run"), _ex([["w", " \n"]]),
    _ex([["r", "p"]]), _ex([["r0"], ["w", "x\n\ny \n"]], "run"),
    {"k": "clear_output"}, {"k": "set_input", "arg": ["many", ["1", "2"]], "clear": True},
    {"k": "queue_input", "items": ["3"]}, {"k": "clear_input"},
    # through what the setup execution left behind: its `input`, then the helper module it imported
    _ex([["kr", 0, "k"], ["hr", 0, "h"]]),
]


# the capture buffer: every way of writing, and every public switch that turns real printing on / off
TEE_OPS = [
    _ex([]), _ex([["w", "a\n"]]), _ex([["wl", ["c\n", "d"]]]),
    _ex([["p0", ["e"]], ["fl"], ["pf", ["f"], " ", ""]], "run"), _ex([["pfl", ["g"], "", "\n"], ["wl", []]], "eval"),
    _ex([["r", "p"], ["kp", 0, ["h"], " ", "\n"], ["hw", 0, "i\n"]]),
    {"k": "clear_output"}, {"k": "set_input", "arg": ["many", ["1"]], "clear": True},
    dict(_ex([["wl", ["s\n", "t \n"]], ["w", "u"]]), tee="off"), dict(_ex([["wl", ["v\n"]]], "eval"), tee="sb_allow"),
    {"k": "set_input", "arg": ["callable", 1], "clear": True, "via": "allow_real_io"},
    {"k": "clear_input", "via": "block_real_io"},
    dict(_ex([["wl", ["y\n"]], ["r", "q"], ["p", ["z"], " ", "\n"]], "run"), real_io=0),
]


def small_scope(maxlen, alphabet=None):
    alphabet = SMALL_OPS if alphabet is None else alphabet
    for n in range(1, maxlen + 1):
        for combo in itertools.product(range(len(alphabet)), repeat=n):
            # at least one execution, or nothing observable differs from shorter histories
            if not any(alphabet[i]["k"] == "exec" for i in combo):
                continue
            yield {"ops": [alphabet[i] for i in combo]}


def _brief(obs):
    """an observation with long values cut (limit histories hold 100000 inputs)"""
    out = {}
    for k, v in obs.items():
        if isinstance(v, str) and len(v) > 200:
            v = v[:80] + "...(%d chars)..." % len(v) + v[-40:]
        elif isinstance(v, list) and len(v) > 40:
            v = v[:12] + ["...(%d entries)..." % len(v)] + v[-6:]
        out[k] = v
    return out


def input_limit():
    """the safety limit on input() calls of ONE execution, read from the tree under test"""
    try:
        from pedal.sandbox.sandbox import Sandbox
    except Exception:
        return None, "no-sandbox"
    v = getattr(Sandbox, "MAXIMUM_INPUTS", None)
    if isinstance(v, int) and not isinstance(v, bool) and v > 0:
        return v, "Sandbox.MAXIMUM_INPUTS"
    cands = [(n, x) for n, x in vars(Sandbox).items() if isinstance(x, int) and not isinstance(x, bool)
             and "INPUT" in n.upper() and x > 1]
    if len(cands) == 1:
        return cands[0][1], "Sandbox." + cands[0][0]
    return None, "not-found"


def _reads(n, prompt="", kind="call", events_after=()):
    return {"k": "exec", "kind": kind, "pre": None, "events": [["rn", n, prompt]] + [list(e) for e in events_after],
            "raises": False, "student_file": True}


def limit_stream(tier, consider, info):
    """Histories around the safety limit on input() calls (a documented safety valve of ONE execution; the property
    says nothing about what happens at or beyond it).  Judged only where the property speaks:
      * one execution reading limit-1 times: every read FIFO, then the default (full oracle);
      * one execution reading limit / limit+1 times: the reads BELOW the limit FIFO / default, their prompts in the
        output in order; what the limit-th read does is not judged;
      * several executions that each stay far below the limit while their TOTAL crosses it: full oracle (every
        execution of a sandbox gets FIFO / default, however many reads the sandbox has served before)."""
    limit, where = input_limit()
    info["input_limit"] = {"value": limit, "read_from": where}
    eff = limit if limit is not None else 100000
    skipped = info.setdefault("limit_skipped", {})
    if eff > 400000:
        skipped["limit-too-large-for-boundary-histories"] = eff
        eff = 400000
        limit = None
    q = {"k": "set_input", "arg": ["many", ["first", "", "third"]], "clear": True}
    hist = []
    # TOTAL crosses the limit, each execution far below it (few large executions)
    per = max(1, (eff * 3) // 10)
    ops = []
    for j in range(4):
        ops += [q if j % 2 == 0 else {"k": "queue_input", "items": ["x%d" % j]},
                _reads(per, "?" if j == 1 else "", kind=["call", "eval", "call", "run"][j])]
    ops += [{"k": "clear_output"}, q, _reads(2, "n", events_after=[["w", "tail\n"], ["r0"], ["r", "z"]])]
    hist.append(("total-crosses:4x0.3", {"ops": ops}, None))
    # the crossing read happens in a SMALL execution
    half = max(1, (eff - 1) // 2)
    ops = [q, _reads(half), _reads(half, kind="run"), {"k": "queue_input", "items": ["a", "b"]},
           _reads(3, "p", events_after=[["p", ["done"], " ", "\n"]]), _reads(2, kind="eval")]
    hist.append(("total-crosses:small-execution", {"ops": ops}, None))
    # with real printing allowed as well
    hist.append(("total-crosses:tee", {"tee0": "sb_allow", "ops": [q, _reads(half), _reads(half), _reads(4, "t")]}, None))
    if tier == "thorough":
        # many small executions
        small = max(1, eff // 150)
        hist.append(("total-crosses:many-small", {"ops": [q] + [_reads(small, kind=["call", "eval"][j % 2])
                                                                for j in range(160)] + [q, _reads(4, "m")]}, None))
    if limit is not None:
        hist.append(("one-execution:limit-1", {"ops": [q, _reads(limit - 1, events_after=[["w", "end\n"]])]}, None))
        for n in (limit, limit + 1):
            hist.append(("one-execution:limit%+d" % (n - limit), {"ops": [q, _reads(n, kind="call")]}, limit))
    else:
        skipped["no-limit-constant:boundary-histories"] = 3
    done = info.setdefault("limit_histories", [])
    for name, case, lim in hist:
        done.append(name)
        if lim is None:
            consider(case, noshrink=True)
        else:
            consider(case, judge=lambda c, real, lim=lim: judge_below_limit(c, real, lim))


def judge_below_limit(case, real, limit):
    """one execution (the last op) reads >= limit times: first the full oracle (a tree without the valve passes it);
    otherwise only the reads BELOW the limit are judged - their values (FIFO, then the default) in the execution's
    record and their prompts at the head of the raw output and the record's output"""
    v = sc.judge(case, real)
    if v is None:
        return None
    robs = real[0]
    exp, _records = sc.expected(case)
    i = len(robs) - 1
    r, e = robs[i], exp[i]
    default = sc.learn_default([e["returned"]], [r["last_in"]])
    want = sc.subst_default(e["returned"], default)[:limit - 1]
    got = (r["last_in"] or [])[:limit - 1]
    if got != want:
        bad = next((j for j, (a, b) in enumerate(zip(got, want)) if a != b), min(len(got), len(want)))
        return ({"claim": "input-order", "shape": "below-the-input-limit"},
                "op %d: of %d reads in one execution (limit %d) read #%d is recorded as %r, expected %r (%d recorded)"
                % (i, len(e["returned"]), limit, bad + 1, got[bad] if bad < len(got) else None,
                   want[bad] if bad < len(want) else None, len(got)))
    below = "".join(str(sc.ev_prompt(ev)) + "\n" for ev in sc.flat_ops(case)[i]["events"][:limit - 1])
    for name, val in (("raw output", r["raw"]), ("record output", r["last_out"])):
        if not (val or "").startswith(below):
            return ({"claim": "raw-output", "shape": "below-the-input-limit"},
                    "op %d: %s holds %d chars, does not start with the %d prompt lines of the reads below the limit"
                    % (i, name, len(val or ""), limit - 1))
    return None


def search(rng, tier, broken, corr):
    failures = []
    info = {"rule": "real pedal vs the oracle written from the property text (raw = concatenation since clear; line view "
                    "= per printing execution rstrip/split/rstrip; records hold their share; FIFO/once/fixed default): "
                    "corpus, the correspondence cases, seeded histories without callable-mode set/queue (every third one "
                    "a survivor history: stored input / print / module / generator used in later executions; the oracle "
                    "makes no difference between routes), and (thorough) "
                    "every history of <=4 ops over a 12-op alphabet; the capture buffer as a dimension: every fourth "
                    "seeded history with real printing allowed (for the whole history or switched on / off along it "
                    "through commands.allow_function / Sandbox.allow_function / clear_mocked_function / allow_real_io / "
                    "block_real_io / run(real_io=True); the console is swallowed) and every history of <=2 (thorough 3) ops "
                    "over a 13-op alphabet of write forms (write, writelines, print default / file=sys.stdout / "
                    "flush=True, flush, kept print, helper module) and switches, with and without real printing "
                    "allowed from the start - the oracle ignores the buffer; limit histories: the safety limit on "
                    "input() calls is read from the tree; one execution reading limit-1 (full oracle), limit, limit+1 "
                    "times (only the reads below the limit are judged), and several executions each far below the "
                    "limit whose total crosses it (full oracle)",
            "evaluations": 0, "distinct_nontrivial": 0, "samples": []}
    seen = set()
    nt = set()
    first_fail = [None]
    # an open, recorded finding is exhibited once and then tolerated (judged again with view="lost"), so that it neither
    # ends the search early nor hides a different failure of the same history
    known = {canon(k["signature"]) for k in load_known_findings("C15")}
    known_shown = set()
    info["tolerated_known_finding"] = 0

    def enough():
        # stop once a failure has been exhibited and a further slice of the budget found nothing new
        return len(failures) - len(known_shown) >= 4 or \
            (first_fail[0] is not None and info["evaluations"] - first_fail[0] > 250)

    def consider(case, real=None, noshrink=False, judge=None):
        if not sc.in_domain(case):
            return
        info["evaluations"] += 1
        if real is None:
            real = sc.run_real(case)
        k = nontrivial_key(case)
        if k:
            nt.add(k)
        if sc.uses_tee(case):
            info["tee_histories"] = info.get("tee_histories", 0) + 1
        if judge is not None:               # a stream with its own (weaker) reading of the property
            v = judge(case, real)
            if v is not None:
                failures.append(Failure(v[0], v[1], {"case": case, "real_last": _brief(real[0][-1])}))
                if first_fail[0] is None:
                    first_fail[0] = info["evaluations"]
            return
        v = sc.judge(case, real)
        if v is None:
            return
        if noshrink:
            failures.append(Failure(v[0], v[1], {"case": case, "real_last": _brief(real[0][-1])}))
            if first_fail[0] is None:
                first_fail[0] = info["evaluations"]
            return
        view = "oracle"
        if canon(v[0]) in known and v[0].get("shape") == "kept-stdout-write-lost":
            info["tolerated_known_finding"] += 1
            if canon(v[0]) not in known_shown:
                known_shown.add(canon(v[0]))
                record(case, v, "oracle", counts=False)
            view = "lost"
            v = sc.judge(case, real, view="lost")
            if v is None:
                return
        record(case, v, view, counts=True)

    def record(case, v, view, counts):
        sig = v[0]

        def still(c):
            if not sc.in_domain(c) or not c["ops"]:
                return False
            vv = sc.judge(c, sc.run_real(c), view=view)
            return vv is not None and vv[0] == sig
        small = sc.shrink(case, still)
        key = json.dumps(small, sort_keys=True)
        if key in seen:
            return
        seen.add(key)
        r = sc.run_real(small)
        vv = sc.judge(small, r, view=view)
        failures.append(Failure(sig, (vv or v)[1], {"case": small, "real_last": r[0][-1]}))
        if counts and first_fail[0] is None:
            first_fail[0] = info["evaluations"]

    for case, real in getattr(corr, "reals", []):
        consider(case, real)
        if enough():
            break
    for case in corpus_cases():
        consider(case)
    n = 300 if tier == "quick" else 6000
    if broken:
        n *= 3
    for j in range(n):
        if enough():
            break
        if j % 3 == 2:
            case = sc.gen_survivor_case(rng, allow_callable=rng.random() < 0.3)
        else:
            case = sc.gen_case(rng, allow_callable=rng.random() < 0.3)
        if j % 4 == 1:
            case = sc.add_tee(rng, case)
        consider(case)
    if not enough():
        for case in small_scope(4 if tier == "thorough" else 2 if not broken else 3):
            consider(case)
            if enough():
                break
    if not enough():
        # the same small histories with real printing allowed from the start (PrintingStringIO is the capture buffer)
        for case in small_scope(3 if tier == "thorough" else 2, TEE_OPS):
            consider(case)
            consider(dict(case, tee0="cmd_allow"))
            if enough():
                break
    if not enough():
        limit_stream(tier, consider, info)
    info["distinct_nontrivial"] = len(nt)
    return failures, info


def replay(payload):
    case = payload.get("replay", {}).get("case")
    if case is None:
        print(json.dumps(payload, indent=1)[:4000])
        return 0
    real = sc.run_real(case)
    exp, _ = sc.expected(case, "0")
    print("case:", json.dumps(case))
    print("events as the property sees them:", str(json.dumps([op["events"] for op in sc.flat_ops(case) if op["k"] == "exec"]))[:3000])
    for i, (r, e) in enumerate(zip(real[0], exp)):
        r, e = _brief(r), _brief(e)
        print("op %d real   raw=%r lines=%r inputs=%r last_in=%r" % (i, r["raw"], r["lines"], r["inputs"], r["last_in"]))
        print("op %d oracle raw=%r lines=%r queue=%r returned=%r" % (i, e["raw"], e["lines"], e["queue"], e["returned"]))
    print("oracle verdict:", sc.judge(case, real))
    return 0


if __name__ == "__main__":
    sys.exit(run_check("C15", proof_modules=["PedalProofs.C15"], theorems=THEOREMS, driver_exe="driver_c15",
                       translate=translate, correspond=correspond, search=search, replay=replay,
                       model_notes=NOTES, leanchecker_modules=["PedalProofs.C15"]))

"""
Generator, real-code runner, wire encoder and property oracles shared by C01, C02, C03
(the resolver family: pedal.resolvers.simple.resolve / FinalFeedback / Report.suppress / scoring).
"""
import json

from common import (CorrResult, Failure, enc_bool, enc_opt, enc_str, dec_str, dec_opt, parse_kv, use_repo)

use_repo()
from pedal.core.commands import (set_pools, clear_report, compliment, explain, gently, give_partial, guidance,  # noqa: E402
                                 set_correct, suppress)
from pedal.core.feedback import Feedback  # noqa: E402
from pedal.core.report import MAIN_REPORT, Report  # noqa: E402
from pedal.resolvers import simple, full, sectional  # noqa: E402

# The order stated in the property text (C01), independent of the code.
SPEC_ORDER = ["highest", "syntax", "mistakes", "instructor", "algorithmic", "runtime", "student", "specification",
              "positive", "instructions", "uncategorized", "lowest"]
SPEC_ALIAS = {'parser': 'syntax', 'verifier': 'syntax', 'instructor': 'instructor', 'analyzer': 'algorithmic'}

CATS = ["syntax", "Runtime", "runtime", "instructor", "algorithmic", "specification", "student", "positive",
        "instructions", "uncategorized", "system", "complete", "style", "weird", "mistakes", "MISTAKES", None,
        "highest", "lowest", "correct"]
PRIOS = [None, None, "high", "medium", "low", "highest", "lowest", "syntax", "student", "parser", "analyzer",
         "verifier", "instructor", "junk", "Runtime", "HIGH", "Low", "positive", "uncategorized"]
KINDS = [None, "Mistake", "Compliment", "Instructional", "Result", "Hint"]
try:      # every kind the tree under test defines (so that a kind that starts to be treated specially is exercised)
    from pedal.core.feedback_category import FeedbackKind as _FK
    KINDS += sorted({v for k, v in vars(_FK).items() if k.isupper() and isinstance(v, str)} - set(KINDS))
except Exception:  # noqa
    pass
KINDS += ["compliment", "COMPLIMENT", "Other"]
LABELS = ["a", "b", "C", "set_correct_no_errors", "Feedback", "MissingDocstring", ""]
FIELDSETS = [{}, {}, {'k': 1}, {'k': 2, 'j': 1}, {'k': 'v'}, {'j': 1}]
SCORES_GRID = [None, None, None, 0.25, 0.5, 1, 0, -0.25, "+10%", "10%", "-10%", "+5", "5", "-1", ".5", "+0.5",
               "+12.5%", 0.1, 0.2, 0.07, "33%", "+1%", "-0.05"]
SCORES_OFFGRID = ["+0.125", "0.005", "+0.5%", "12.345%", "+3x", "5 points"]     # inexact / leftovers
SCORES_MALFORMED = ["abc", "", "+", "1.2.3", ".", "*2", "/2", "+-1", "%5", True, 1e-05, "1e3"]


def gen_case(rng, *, max_fb=5, malformed=False, score_rate=0.4, offgrid=False):
    """A case is JSON-able: {'fbs': [ctor spec...], 'sups': [[cat,label,fields]...]}"""
    fbs = []
    for i in range(rng.randint(0, max_fb)):
        how = rng.random()
        kw = {}
        if how < 0.62:
            ctor = "Feedback"
            kw = dict(label=rng.choice(LABELS), category=rng.choice(CATS + [""]), priority=rng.choice(PRIOS + [""]),
                      kind=rng.choice(KINDS), muted=rng.choice([None, None, False, True, 0, 1]),
                      unscored=rng.choice([None, None, False, True, 0]),
                      activate=rng.random() < 0.75,
                      message=rng.choice(["m%d" % i] * 6 + [""]),     # "" is a message (is not None), not "no message"
                      title=rng.choice([None, "t%d" % i, ""]),
                      correct=rng.choice([None, None, False, True, 0, 1]), fields=dict(rng.choice(FIELDSETS)),
                      valence=rng.choice([None, 1, 0, -1, -1]))
            if rng.random() < 0.2:
                kw['else_message'] = rng.choice(["e%d" % i, ""])
            if rng.random() < 0.1:
                del kw['message']
                kw['message_template'] = rng.choice(["tmpl%d" % i, "tmpl%d" % i, ""])
        else:
            ctor = rng.choice(["gently", "explain", "compliment", "give_partial", "set_correct", "guidance", "gently",
                               "explain"])
            if ctor in ("gently", "explain", "compliment", "guidance"):
                kw['message'] = "c%d" % i if (ctor == "compliment" or rng.random() < 0.9) else ""
            if ctor == "give_partial":
                kw['value'] = rng.choice([0.1, 0.25, "+10%", 1, "5%"])
            if rng.random() < 0.5:
                kw['label'] = rng.choice(LABELS)
            if rng.random() < 0.3:
                kw['priority'] = rng.choice(PRIOS)
            if rng.random() < 0.2:
                kw['muted'] = rng.choice([False, True])
            if rng.random() < 0.15:
                kw['activate'] = False
            if rng.random() < 0.2 and ctor != "give_partial":
                kw['fields'] = dict(rng.choice(FIELDSETS))
        if ctor != "give_partial" and rng.random() < score_rate:
            pool = SCORES_GRID
            if offgrid and rng.random() < 0.3:
                pool = SCORES_OFFGRID
            if malformed and rng.random() < 0.3:
                pool = SCORES_MALFORMED
            kw['score'] = rng.choice(pool)
        fbs.append([ctor, kw])
    sups = []
    nsup = rng.choice([0, 0, 1, 1, 2, 3])
    for i in range(nsup):
        form = rng.randint(0, 4)
        c = rng.choice([x for x in CATS if x] + ["parser", "analyzer", "verifier", "Instructor", "success"])
        # aim at existing feedback half of the time so suppressions bite
        lab = rng.choice(LABELS + ["c", "A"])
        if fbs and rng.random() < 0.6:
            tgt = rng.choice(fbs)[1]
            c = tgt.get('category') or c
            lab = tgt.get('label') or lab
            if rng.random() < 0.3:
                lab = lab.upper() if rng.random() < 0.5 else lab.lower()
                c = c.upper() if rng.random() < 0.5 else c
        fl = dict(rng.choice([{'k': 1}, {'k': 2}, {'j': 1, 'k': 2}, {'k': 'v'}, {'zz': 0}]))
        s = {0: [c, True, None], 1: [c, lab, None], 2: [None, lab, None], 3: [c, lab, fl], 4: [None, lab, fl]}[form]
        sups.append(s)
    case = {"fbs": fbs, "sups": sups}
    # history dimensions (the outcome must not depend on them): suppress() calls made BEFORE / BETWEEN the feedback
    # they are aimed at, and a report object of the grader's own instead of MAIN_REPORT
    if sups and rng.random() < 0.4:
        case["sup_at"] = [rng.randint(0, len(fbs)) for _ in sups]      # number of feedbacks created before this call
    if rng.random() < 0.2:
        case["own_report"] = True
    # history: the report is resolved once BEFORE it is complete (an instructor printing a preliminary result);
    # the final resolve() must still account for every feedback, old and new
    if fbs and rng.random() < 0.12:
        case["early_resolve_at"] = rng.randint(0, len(fbs))
    # A/B pools: one pool, so it is always the chosen one; its per-class overrides are applied to every feedback
    # object by report.finalize_feedbacks() at the start of resolve() and must be what merge() then reads
    if fbs and rng.random() < 0.15:
        fields = {}
        for k, vals in (("muted", [True, False, False]), ("correct", [False, True]), ("unscored", [True, False]),
                        ("priority", ["low", "high", "syntax"]), ("category", ["instructor", "runtime"])):
            if rng.random() < 0.4:
                fields[k] = rng.choice(vals)
        if fields:
            case["pool"] = {"ctor": rng.choice([f[0] for f in fbs] + ["Feedback"]), "fields": fields}
    return case


CTORS = {"Feedback": Feedback, "gently": gently, "explain": explain, "compliment": compliment,
         "give_partial": give_partial, "set_correct": set_correct, "guidance": guidance}


def build(case):
    """Create the case's feedback on a cleared MAIN_REPORT (or on a fresh Report of its own when the case says so);
    returns created objects in creation order.  `sup_at[i]` = how many feedbacks exist when suppress call i is made
    (default: all of them)."""
    if build.report is not None:
        build.report.clear()          # class-level state (overrides, pools) registered on the previous own report
    clear_report()
    own = Report() if case.get("own_report") else None
    build.report = own
    rk = {"report": own} if own is not None else {}
    objs = []
    sup_at = case.get("sup_at") or [len(case["fbs"])] * len(case["sups"])

    def do_sups(n_created):
        for (c, l, f), at in zip(case["sups"], sup_at):
            if at == n_created:
                suppress(c, l, dict(f) if f is not None else None, **rk)
    early = case.get("early_resolve_at")
    for i, (ctor, kw) in enumerate(case["fbs"]):
        do_sups(i)
        if early == i:
            _early_resolve(own)
        kw = dict(kw)
        kw.update(rk)
        if 'fields' in kw:
            kw['fields'] = dict(kw['fields'])
        if ctor == "give_partial":
            v = kw.pop('value')
            objs.append(give_partial(v, **kw))
        elif ctor in ("gently", "explain", "compliment", "guidance"):
            m = kw.pop('message')
            objs.append(CTORS[ctor](m, **kw))
        else:
            objs.append(CTORS[ctor](**kw))
    do_sups(len(case["fbs"]))
    if early == len(case["fbs"]):
        _early_resolve(own)
    pool = case.get("pool")
    if pool:
        set_pools(1, **rk)
        CTORS[pool["ctor"]].override_for_pool("A", **dict(pool["fields"]), **rk)
    return objs


build.report = None


def _early_resolve(own):
    try:
        simple.resolve(own) if own is not None else simple.resolve()
    except Exception:  # noqa: raising is judged on the final resolve
        pass


def score_hundredths(x):
    if isinstance(x, bool) or not isinstance(x, (int, float)):
        return "nonnumeric:%r" % (x,)
    return int(round(x * 100))


def run_real(case):
    """-> (observed feedback list, result dict)"""
    objs = build(case)
    try:
        r = simple.resolve(build.report) if build.report is not None else simple.resolve()
    except Exception as e:
        res = {"error": type(e).__name__, "detail": str(e)[:200]}
    else:
        used = [objs.index(u) for u in r.used if any(u is o for o in objs)]
        res = {"label": r.label, "title": r.title, "message": r.message, "category": r.category,
               "correct": r.correct, "success": r.success, "json_correct": r.to_json().get('correct'),
               "score": r.score, "used": used, "positives": [objs.index(p) for p in r.positives],
               "hide": bool(r.hide_correctness)}
    return objs, res


def field_enc(v):
    return repr(v)


def enc_fb(i, f):
    fields = [(k, field_enc(v)) for k, v in f.fields.items()]
    toks = [str(i), enc_str(f.label), enc_opt(f.category), enc_opt(f.priority), enc_opt(f.kind),
            enc_bool(f.muted), enc_bool(f.unscored), enc_bool(bool(f)), enc_bool(f.else_message),
            enc_opt(f.message), enc_opt(f.title), enc_bool(f.correct),
            enc_bool(f.valence == Feedback.NEGATIVE_VALENCE),
            enc_opt(None if f.score is None else "%s" % (f.score,)), str(len(fields))]
    for k, v in fields:
        toks += [enc_str(k), enc_str(v)]
    return toks


def enc_sup(s):
    c, l, f = s
    f = f or {}
    toks = [enc_opt(c), "T" if l is True else enc_str(l), str(len(f))]
    for k, v in f.items():
        toks += [enc_str(k), enc_str(field_enc(v))]
    return toks


def request_line(objs, case):
    toks = ["resolve", str(len(objs)), str(len(case["sups"]))]
    for i, f in enumerate(objs):
        toks += enc_fb(i, f)
    for s in case["sups"]:
        toks += enc_sup(s)
    return " ".join(toks)


def parse_model(line):
    head, kv = parse_kv(line)
    if head == "err":
        return {"error": kv["kind"]}
    if head != "ok":
        return {"bad": line}
    pos = kv["positives"].strip("[]")
    return {"label": dec_str(kv["label"]), "title": dec_str(kv["title"]), "message": dec_str(kv["message"]),
            "category": dec_opt(kv["category"]), "correct": kv["correct"] == "1", "score": kv["score"],
            "used": [] if kv["used"] == "-" else [int(kv["used"])],
            "positives": [int(x) for x in pos.split(",") if x], "default": kv["default"] == "1"}


def compare(real, model):
    """List of field names on which real code and Lean model differ (empty = agree)."""
    if "bad" in model:
        return ["bad-request"]
    if "error" in real or "error" in model:
        return [] if real.get("error") == model.get("error") else ["error"]
    diffs = [k for k in ("label", "title", "message", "category", "correct", "used", "positives")
             if real[k] != model[k]]
    ms = model["score"]
    rs = score_hundredths(real["score"])
    if ms[0] in "en":
        if rs != int(ms[1:]):
            diffs.append("score")
    # 'tie' / 'unmodelled': model makes no claim
    return diffs


# ---------------------------------------------------------------------------
# Property oracles, written from the property text (not from the code).

def spec_category(f):
    # Only a MISSING category (None) is 'uncategorized'; an empty string is a category of its own
    # ("any other category" in the statement), exactly like any other unlisted name.
    return 'uncategorized' if f.category is None else f.category.lower()


def spec_key(f):
    cat = spec_category(f)
    pr = 'medium'
    if f.priority is not None:
        pr = f.priority.lower()
        pr = SPEC_ALIAS.get(pr, pr)
    v = SPEC_ORDER.index(cat) if cat in SPEC_ORDER else len(SPEC_ORDER)
    if pr in SPEC_ORDER:
        v = SPEC_ORDER.index(pr)
        pr = 'medium'
    return v * 10 + {'low': 7, 'medium': 5, 'high': 3}.get(pr, 1)


def spec_suppressed(f, sups):
    fcat = spec_category(f)
    for (c, l, flds) in sups:
        flds = flds or {}
        if c is not None:
            cc = c.lower()
            cc = SPEC_ALIAS.get(cc, cc)
            if fcat != cc:
                continue
            if l is True:
                return True
            if f.label.lower() == l.lower() and all(f.fields.get(k) == v for k, v in flds.items()):
                return True
        else:
            if f.label == l and all(f.fields.get(k) == v for k, v in flds.items()):
                return True
    return False


def spec_eligible(f, sups):
    return bool(f) and not f.muted and f.kind != "Compliment" and not spec_suppressed(f, sups)


def hidden(sups):
    return any(c is not None and c.lower() in ("correct", "success") for c, _, _ in sups)


def oracle_c01(objs, case, real):
    """Returns None if the property holds on this case, else (signature, what)."""
    sups = case["sups"]
    if "error" in real:
        # malformed scores are outside C01's quantifier; callers filter those cases out
        return ({"raises": real["error"]}, "resolve() raised %s: %s" % (real["error"], real.get("detail")))
    elig = [f for f in objs if spec_eligible(f, sups) and f.message is not None]
    if elig:
        best = min(elig, key=lambda f: (spec_key(f), objs.index(f)))
        exp = (best.label, best.title or best.label, best.message)
        got = (real["label"], real["title"], real["message"])
        if got != exp:
            shown = real["used"]
            why = "shown feedback is not the best eligible one"
            if shown and not spec_eligible(objs[shown[0]], sups):
                why = "an ineligible feedback was shown"
            return ({"shown": "wrong"}, "%s: got %r expected %r" % (why, got, exp))
    else:
        if hidden(sups):
            exp = ("set_correct_no_errors", "No Errors", "No errors reported.")
        else:
            exp = ("set_correct_no_errors", "Complete", "Great work!")
        got = (real["label"], real["title"], real["message"])
        if got != exp:
            return ({"default": "wrong"}, "no eligible feedback but result is %r" % (got,))
    return None


def oracle_c02(objs, case, real):
    if "error" in real:
        return None
    sups = case["sups"]
    elig = [f for f in objs if spec_eligible(f, sups)]
    exp = all(bool(f.correct) for f in elig)
    if real["correct"] is not exp:
        return ({"correct": "wrong"}, "correct=%r but eligible feedback says %r" % (real["correct"], exp))
    if real["success"] is not real["correct"] or real["json_correct"] is not real["correct"]:
        return ({"correct": "views-differ"}, "success/json disagree with correct")
    return None


def spec_score_value(score):
    """Value in hundredths (as a Fraction) of a score in the property's grammar, or None if outside it."""
    from fractions import Fraction
    import re
    s = "%s" % (score,)
    if isinstance(score, bool):
        return None
    m = re.fullmatch(r"([+-])?(\d+(?:\.\d*)?|\.\d+)(%)?", s)
    if not m:
        return None
    v = Fraction(m.group(2))
    if m.group(3):
        v = v / 100
    if m.group(1) == '-':
        v = -v
    return v


def oracle_c03(objs, case, real):
    """None if holds / not applicable; else (signature, what)."""
    from fractions import Fraction
    if "error" in real:
        return None
    sups = case["sups"]
    elig = [f for f in objs if spec_eligible(f, sups) and f.message is not None]
    if not elig and not hidden(sups):
        if score_hundredths(real["score"]) != 100:
            return ({"score": "default"}, "default result with score %r" % (real["score"],))
        return None
    total = Fraction(0)
    for f in objs:
        if spec_suppressed(f, sups) or f.unscored or f.score is None:
            continue
        v = spec_score_value(f.score)
        if v is None:
            return None     # outside the grammar: no claim
        neg = (f.valence == -1)
        if (bool(f) and not neg) or (not bool(f) and neg):
            total += v
    h = total * 100
    # rounding to two decimals: claim only when not within 1e-9 of a tie
    frac = h - (h.numerator // h.denominator)
    if frac == Fraction(1, 2):
        return None
    exp = int(round(float(h)))
    if frac != 0:
        exp = (h.numerator // h.denominator) + (1 if frac > Fraction(1, 2) else 0)
    if score_hundredths(real["score"]) != exp:
        return ({"score": "sum"}, "score %r, documented arithmetic gives %s/100" % (real["score"], exp))
    return None


def in_c01_domain(case):
    """C01/C02 quantify over feedback with scores of the documented forms (or none)."""
    for ctor, kw in case["fbs"]:
        sc = kw.get('score')
        if sc is not None and spec_score_value(sc) is None:
            return False
    return True


def describe(case):
    return json.dumps(case, sort_keys=True)


def shrink(case, still_fails):
    """Greedy shrink: drop feedbacks / suppressions / optional keywords while the failure persists."""
    cur = json.loads(json.dumps(case))
    changed = True
    while changed:
        changed = False
        for key in ("fbs", "sups"):
            i = 0
            while i < len(cur[key]):
                cand = json.loads(json.dumps(cur))
                del cand[key][i]
                if still_fails(cand):
                    cur = cand
                    changed = True
                else:
                    i += 1
        for i, (ctor, kw) in enumerate(cur["fbs"]):
            for k in list(kw):
                if k in ("message", "value"):
                    continue
                cand = json.loads(json.dumps(cur))
                del cand["fbs"][i][1][k]
                try:
                    if still_fails(cand):
                        cur = cand
                        changed = True
                except Exception:
                    pass
    return cur


# ---------------------------------------------------------------------------
# The other two resolvers named in C01's anchors reuse merge/finalize; they must agree with simple.

def oracle_other_resolvers(case):
    """None if full/sectional agree with simple on this report, else (signature, what)."""
    objs = build(case)
    ra = (build.report,) if build.report is not None else ()     # the report the case was built on
    try:
        base = simple.resolve(*ra)
    except Exception:
        return None                      # raising is simple's own matter (oracle_c01)
    sups = case["sups"]
    view = lambda r: (r.label, r.title, r.message, r.category, r.correct, score_hundredths(r.score))
    try:
        fr = full.resolve(*ra)
    except Exception as e:
        return ({"resolver": "full", "raises": type(e).__name__}, "full.resolve raised %s: %s" % (type(e).__name__, e))
    if view(fr) != view(base):
        return ({"resolver": "full", "differs": "result"}, "full %r vs simple %r" % (view(fr), view(base)))
    # full.used is everything merge() incorporated (it also returns compliments and else-messages, which
    # may well sort ahead of the shown feedback), so only membership of the shown one is required.
    if base.used and not any(u is base.used[0] for u in fr.used):
        return ({"resolver": "full", "differs": "used-missing"}, "the shown feedback is not in full.used")
    for u in fr.used:
        if spec_suppressed(u, sups):
            return ({"resolver": "full", "used": "suppressed"}, "full.used contains suppressed feedback %r" % (u.label,))
        if not ((bool(u) and not u.muted) or (not bool(u) and u.else_message)):
            return ({"resolver": "full", "used": "ineligible"}, "full.used contains muted/untriggered feedback %r" % (u.label,))
    try:
        sr = sectional.resolve(*ra)
    except Exception as e:
        return ({"resolver": "sectional", "raises": type(e).__name__},
                "sectional.resolve raised %s: %s" % (type(e).__name__, e))
    trig = [f for f in objs if bool(f)]
    groups = {}
    for f in trig:
        groups.setdefault(f.parent, []).append(f)
    if set(sr.keys()) != set(groups.keys()):
        return ({"resolver": "sectional", "differs": "groups"}, "groups %r vs %r" % (list(sr), list(groups)))
    for g, members in groups.items():
        elig = [f for f in members if spec_eligible(f, sups) and f.message is not None]
        got = (sr[g].label, sr[g].title, sr[g].message)
        if elig:
            best = min(elig, key=lambda f: (spec_key(f), objs.index(f)))
            exp = (best.label, best.title or best.label, best.message)
        elif hidden(sups):
            exp = ("set_correct_no_errors", "No Errors", "No errors reported.")
        else:
            exp = ("set_correct_no_errors", "Complete", "Great work!")
        if got != exp:
            return ({"resolver": "sectional", "differs": "shown"}, "group %r shows %r, expected %r" % (g, got, exp))
    return None

"""
C13 worker: run a list of gradings, one after the other, in THIS interpreter and print one canonical result
per grading (JSON on stdout).  Started by harness/c13.py as a subprocess:

    python procstate_worker.py <repo> <result file>      (the gradings arrive as JSON on stdin)

A "fresh interpreter" result is this worker given a single grading.

A grading is {"script": str, "code": str, "env": "standard"|"blockpy"|"terminal"|"gradescope",
              "skip_tifa": bool, "skip_run": bool, "main_file": str}
and is executed exactly the way the command line does: Bundle(config, script, Submission).run_ics_bundle().
"""
import argparse
import contextlib
import io
import json
import os
import re
import sys

ADDR = re.compile(r"0x[0-9a-fA-F]{6,}")


def canon_text(s):
    if not isinstance(s, str):
        return None if s is None else repr(s)
    return ADDR.sub("0xADDR", s)


def canon_result(bundle, exc):
    r = bundle.result
    if r is None:
        return {"raised": type(exc).__name__ if exc is not None else "no-result"}
    res = r.resolution
    out = {"output": canon_text(r.output), "error": type(r.error).__name__ if r.error is not None else None}
    if res is None:
        out["resolution"] = None
    else:
        sc = getattr(res, "score", None)
        if isinstance(sc, bool) or not isinstance(sc, (int, float)):
            sc = repr(sc)
        else:
            sc = round(float(sc), 6)
        corr = getattr(res, "correct", None)
        out["resolution"] = {"label": canon_text(getattr(res, "label", None)), "title": canon_text(getattr(res, "title", None)),
                             "message": canon_text(getattr(res, "message", None)),
                             "correct": None if corr is None else bool(corr), "score": sc}
    return out


def grade(g):
    from pedal.command_line.modes import Bundle
    from pedal.core.submission import Submission
    cfg = argparse.Namespace(threaded=False, resolver="resolve")
    sub = Submission(main_file=g.get("main_file", "answer.py"), main_code=g["code"], instructor_file="instructor.py")
    b = Bundle(cfg, g["script"], sub)
    b.environment = g.get("env", "standard")
    exc = None
    try:
        b.run_ics_bundle(resolver="resolve", skip_tifa=bool(g.get("skip_tifa")), skip_run=bool(g.get("skip_run")))
    except (Exception, SystemExit) as e:      # noqa: BLE001  (the environment failed / the script called sys.exit: part of the result)
        exc = e
    return canon_result(b, exc)


def main():
    repo = sys.argv[1]
    sys.path.insert(0, repo)
    os.environ.setdefault("PEDAL_EDU_PEDAL_VERIF", "1")
    import pedal  # noqa
    got = os.path.dirname(os.path.dirname(os.path.abspath(pedal.__file__)))
    if os.path.realpath(got) != os.path.realpath(repo):
        raise RuntimeError("pedal imported from %s, expected %s" % (got, repo))
    gradings = json.load(sys.stdin)
    outs = []
    for g in gradings:
        # what the environment prints outside the bundle's own capture is not part of the result
        with contextlib.redirect_stdout(io.StringIO()), contextlib.redirect_stderr(io.StringIO()):
            outs.append(grade(g))
    # the results travel in a file of their own: gradings may write to the real stdout
    with open(sys.argv[2], "w", encoding="utf-8") as fh:
        json.dump(outs, fh)
    os._exit(0)     # never wait for threads a submission may have left behind


if __name__ == "__main__":
    main()

"""
C13 worker: run a list of gradings, one after the other, in THIS interpreter and print one canonical result
per grading (JSON on stdout).  Started by harness/c13.py as a subprocess:

    python procstate_worker.py <repo> <result file>      (the gradings arrive as JSON on stdin)

A "fresh interpreter" result is this worker given a single grading.

A grading is {"script": str, "code": str, "env": "standard"|"blockpy"|"terminal"|"gradescope",
              "skip_tifa": bool, "skip_run": bool, "main_file": str,
              "files": {name: text} (other files of the submission), "share": "sub"|"files", "share_id": str,
              "report_id": str (the grading uses the caller's own Report object of that name instead of MAIN_REPORT)}
and is executed exactly the way the command line does: Bundle(config, script, Submission).run_ics_bundle().
"""
import argparse
import contextlib
import io
import json
import os
import re
import sys

ADDR = re.compile(r"0x[0-9a-fA-F]{6,}")


def canon_text(s):
    if not isinstance(s, str):
        return None if s is None else repr(s)
    return ADDR.sub("0xADDR", s)


def canon_result(bundle, exc):
    r = bundle.result
    if r is None:
        return {"raised": type(exc).__name__ if exc is not None else "no-result"}
    res = r.resolution
    out = {"output": canon_text(r.output), "error": type(r.error).__name__ if r.error is not None else None}
    if res is None:
        out["resolution"] = None
    else:
        sc = getattr(res, "score", None)
        if isinstance(sc, bool) or not isinstance(sc, (int, float)):
            sc = repr(sc)
        else:
            sc = round(float(sc), 6)
        corr = getattr(res, "correct", None)
        out["resolution"] = {"label": canon_text(getattr(res, "label", None)), "title": canon_text(getattr(res, "title", None)),
                             "message": canon_text(getattr(res, "message", None)),
                             "correct": None if corr is None else bool(corr), "score": sc}
    return out


#: objects the CALLER of the gradings owns and hands in again: share id -> {"files": dict, "sub": Submission, "pristine": snapshot}
CALLER = {}


def snapshot(sub, files):
    """everything a caller can see of the objects it handed in"""
    out = {"files_dict": dict(files)}
    if sub is not None:
        out.update({"main_file": sub.main_file, "main_code": sub.main_code, "files": dict(sub.files),
                    "files_is_callers": sub.files is files,
                    "line_offsets": dict(getattr(sub, "line_offsets", None) or {}),
                    "instructor_file": sub.instructor_file, "load_error": repr(sub.load_error),
                    "user": repr(sub.user), "assignment": repr(sub.assignment), "course": repr(sub.course),
                    "execution": repr(sub.execution)})
    return out


def changed(now, pristine):
    return sorted(k for k in set(now) | set(pristine) if now.get(k) != pristine.get(k))


def caller_objects(g):
    """-> (Submission to grade, files dict, pristine snapshot).  "share": "sub" = the caller grades the SAME Submission
    object again, "files" = a new Submission every time around the SAME files dict, absent = fresh objects."""
    from pedal.core.submission import Submission
    main_file = g.get("main_file", "answer.py")
    mode, sid = g.get("share"), g.get("share_id")
    slot = CALLER.get(sid) if mode else None
    if slot is None:
        files = {main_file: g["code"]}
        files.update(g.get("files") or {})
        slot = {"files": files, "sub": None, "pristine": None}
        if mode:
            CALLER[sid] = slot
    files = slot["files"]
    if mode == "sub" and slot["sub"] is not None:
        sub = slot["sub"]
    elif g.get("files") or mode:
        sub = Submission(files=files, main_file=main_file, instructor_file="instructor.py")
        slot["sub"] = sub
    else:
        sub = Submission(main_file=main_file, main_code=g["code"], instructor_file="instructor.py")
        files = sub.files
        slot["files"] = files
    if slot["pristine"] is None:
        slot["pristine"] = snapshot(sub, files)
    return sub, files, slot["pristine"]


#: Report objects the caller made itself and passes explicitly (report=...) to every grading: report id -> Report
REPORTS = {}


class Direct:
    """one grading with the CALLER'S OWN Report object R in the place of MAIN_REPORT: the standard environment built
    with report=R, the script executed with R in its namespace, resolved with simple.resolve(report=R) unless the
    script resolved - the steps of Bundle.run_ics_bundle, which itself can only use MAIN_REPORT"""
    def __init__(self, script, sub, rid):
        self.script, self.sub, self.rid, self.result = script, sub, rid, None

    def run(self, skip_tifa, skip_run):
        from types import SimpleNamespace
        from pedal.core.report import Report
        from pedal.environments.standard import StandardEnvironment
        from pedal.resolvers import simple
        if self.rid not in REPORTS:
            REPORTS[self.rid] = Report()
        rep = REPORTS[self.rid]
        env = StandardEnvironment(files=self.sub, report=rep, skip_tifa=skip_tifa, skip_run=skip_run)
        data = dict(env.fields)
        data["R"] = rep
        captured, error, resolution = io.StringIO(), None, None
        with contextlib.redirect_stdout(captured):
            try:
                exec(compile(self.script, self.sub.instructor_file, "exec"), data)
                resolution = rep.resolves[-1] if rep.resolves else simple.resolve(report=rep)
            except Exception as e:      # noqa: BLE001
                error = e
        self.result = SimpleNamespace(output=captured.getvalue(), error=error, resolution=resolution)


def grade(g):
    from pedal.command_line.modes import Bundle
    cfg = argparse.Namespace(threaded=False, resolver="resolve")
    sub, files, pristine = caller_objects(g)
    before = changed(snapshot(sub, files), pristine)
    exc = None
    if g.get("report_id"):
        b = Direct(g["script"], sub, g["report_id"])
        try:
            b.run(bool(g.get("skip_tifa")), bool(g.get("skip_run")))
        except (Exception, SystemExit) as e:      # noqa: BLE001
            exc = e
    else:
        b = Bundle(cfg, g["script"], sub)
        b.environment = g.get("env", "standard")
        try:
            b.run_ics_bundle(resolver="resolve", skip_tifa=bool(g.get("skip_tifa")), skip_run=bool(g.get("skip_run")))
        except (Exception, SystemExit) as e:      # noqa: BLE001  (the environment failed / the script called sys.exit: part of the result)
            exc = e
    out = canon_result(b, exc)
    # what the caller finds in the objects it handed in, relative to how it made them
    out["caller_before"] = before
    out["caller_after"] = changed(snapshot(sub, files), pristine)
    return out


def main():
    repo = sys.argv[1]
    sys.path.insert(0, repo)
    os.environ.setdefault("PEDAL_EDU_PEDAL_VERIF", "1")
    import pedal  # noqa
    got = os.path.dirname(os.path.dirname(os.path.abspath(pedal.__file__)))
    if os.path.realpath(got) != os.path.realpath(repo):
        raise RuntimeError("pedal imported from %s, expected %s" % (got, repo))
    gradings = json.load(sys.stdin)
    outs = []
    for g in gradings:
        # what the environment prints outside the bundle's own capture is not part of the result
        with contextlib.redirect_stdout(io.StringIO()), contextlib.redirect_stderr(io.StringIO()):
            outs.append(grade(g))
    # the results travel in a file of their own: gradings may write to the real stdout
    with open(sys.argv[2], "w", encoding="utf-8") as fh:
        json.dump(outs, fh)
    os._exit(0)     # never wait for threads a submission may have left behind


if __name__ == "__main__":
    main()

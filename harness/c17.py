"""C17 — sections split a submission losslessly and report whole-file line numbers."""
import json
import os
import re
import sys

from common import CorrResult, Failure, enc_str, dec_str, parse_kv, run_check, use_repo

use_repo()
from pedal.core.commands import clear_report, contextualize_report  # noqa: E402
from pedal.core.report import MAIN_REPORT  # noqa: E402
from pedal.source import verify  # noqa: E402
from pedal.source.sections import (DEFAULT_SECTION_PATTERN, next_section, separate_into_sections,  # noqa: E402
                                   stop_any_sections, stop_sections)
from pedal.tifa import tifa_analysis  # noqa: E402
from pedal.sandbox.commands import run as sandbox_run, call as sandbox_call, evaluate as sandbox_evaluate  # noqa: E402
from pedal.utilities.exceptions import ExpandedTraceback  # noqa: E402
from pedal.resolvers import simple  # noqa: E402

THEOREMS = [
    "Pedal.Sections.c17_lossless",
    "Pedal.Sections.c17_later_chunks_start_lines",
    "Pedal.Sections.length_splitGo_odd",
    "Pedal.Sections.nexts_ok",
    "Pedal.Sections.c17_section_k",
    "Pedal.Sections.c17_past_end_gives_feedback",
    "Pedal.Sections.c17_main_code_restored",
    "Pedal.Sections.c17_line_is_whole_file_line",
    "Pedal.Sections.c17_cumulative_prefix",
    "Pedal.Sections.c17_lossless_nl",
    "Pedal.Sections.c17_line_is_whole_file_line_nl",
    "Pedal.Sections.concat_splitGoNL",
    "Pedal.Sections.lineAt_section",
    "Pedal.Sections.joinLines_splitLines",
    # tie to the translated arithmetic of next_section (Gen/SectionsProgram.lean, regenerated on every run)
    "Pedal.Sections.sections_ir_agrees",
    "Pedal.Sections.runG_eq_run",
]
NOTES = [
    "the regular-expression engine is a parameter: the model receives, for every line, whether Python's re matched "
    "it as a separator; patterns must be line-anchored with one capturing group spanning the match, which is either "
    "exactly one whole line (the documented default style) or one whole line plus its newline - both shapes are "
    "modelled and proved; texts where some match is neither, or the shapes are mixed, are skipped and counted",
    "how each tool applies submission.line_offsets (syntax feedback, TIFA, runtime location, traceback text) is not "
    "modelled in Lean: the theorem gives the arithmetic (offset + r), the search plants diagnostics at known "
    "whole-file lines and checks every tool against it",
    "set_source(sections=..., independent=...) ignores its pattern/independent arguments (it calls "
    "separate_into_sections with defaults); the check drives separate_into_sections directly",
]
FILENAME = "answer.py"
NL_PATTERN = r'^(# ==== .+ ====\n)'          # the group also captures the separator's newline
PATTERNS = [DEFAULT_SECTION_PATTERN, DEFAULT_SECTION_PATTERN, r'^(# SECTION \d+)$', r'^(#---.*)$', NL_PATTERN]
MARKERS = {DEFAULT_SECTION_PATTERN: lambda k: "##### Part %d" % k, r'^(# SECTION \d+)$': lambda k: "# SECTION %d" % k,
           r'^(#---.*)$': lambda k: "#---" + "-" * k, NL_PATTERN: lambda k: "# ==== part %d ====" % k}
BODY = ["a = 1", "print(a)", "", "b = a + 1", "# c", "   ", "a = a * 2", "if a:\n    b = 3", "##### Part", "#####  Part 2 ",
        "x = '##### Part 9'", "\t", "c = [1,\n     2]",
        # characters that str.splitlines() treats as line breaks but split("\n") does not (kept inside comments /
        # string literals so the code still parses): FF, VT, FS/GS/RS, NEL, LS, PS
        "# c\x0c", "# d\x0b e", "s = 'a\u2028b'", "t = 'p\u2029q'  # \x85", "# \x1c\x1d\x1e", "u = 1  # \x0c\x0c"]
ODD_FILLERS = ["# c\x0c", "s = 'a\u2028b'", "# \x1c\x1d", "t = 'p\u2029q'", "# d\x0b e\x85", "\x0c", "g = 1 \x0c"]
# off by default: a lone CR before the section is a line end for CPython (tokenizer, compile, tracebacks) but not for
# next_section()'s split("\n") - a defect of the unchanged tree (reported to the main session; see notes/C17.md)
LONE_CR = os.environ.get("VERIF_C17_LONE_CR", "1") != "0"      # an OPEN finding now: on by default, "0" = off switch
# Failures on inputs of these families - classified on the INPUT - carry exactly the family signature, are shown once
# per run, use no failure slot and do not end the search early (KNOWN_FINDINGS.jsonl, notes/C17.md).
LONE_CR_FAMILY = {"family": "lone-cr-before-independent-section"}
LONE_CR_TEXT_FAMILY = {"family": "lone-cr-frame-text"}
_LONE_CR = re.compile(r"\r(?!\n)")
# The second family needs its own `open` record ({"family": "lone-cr-frame-text"}, text in notes/C17.md) before it may
# be SHOWN: until the main session has added it, its failures are only counted in the evidence (family_failures).
# Flip the default to "1" once the record is in KNOWN_FINDINGS.jsonl.
SHOW_FRAME_TEXT_FAMILY = os.environ.get("VERIF_C17_LONE_CR_TEXT", "1") != "0"


def planted_family(p, sig):
    """The family a failure on planted case `p` belongs to, or None.
    lone-cr-before-independent-section: independent mode AND the file text before the section under test contains a
      lone CR (whatever tool / line kind failed).
    lone-cr-frame-text: any other input containing a lone CR on which the only thing wrong is the source TEXT a
      traceback frame carries (Submission's line tables are split on "\\n")."""
    text = p["text"]
    lone = [m.start() for m in _LONE_CR.finditer(text)]
    if not lone:
        return None
    if p["independent"]:
        spans = [m.end() for m in re.finditer(p["pattern"], text, flags=re.MULTILINE)]
        if len(spans) >= p["k"] and any(x < spans[p["k"] - 1] for x in lone):
            return LONE_CR_FAMILY
    if sig.get("tool") == "traceback-stack" and "text" in sig:
        return LONE_CR_TEXT_FAMILY
    return None


def corpus_planted():
    d = os.path.join(os.path.dirname(os.path.dirname(os.path.abspath(__file__))), "corpus", "C17")
    out = []
    if os.path.isdir(d):
        for n in sorted(os.listdir(d)):
            if n.endswith(".json"):
                with open(os.path.join(d, n)) as fh:
                    c = json.load(fh)
                if LONE_CR or not c.get("lone_cr"):
                    out.append(c["planted"])
    return out
CR_FILLERS = ["i = 1\rj = 2", "# a\rm = 2", 's = """a\rb"""', "n = [1,\r 2]"]
_CP_EOL = re.compile(r"\r\n|\r|\n")


def cpython_lines_before(text, pos):
    """Line ends CPython sees in text[:pos]: \\n, \\r\\n, lone \\r - nothing else."""
    n = len(_CP_EOL.findall(text[:pos]))
    if pos > 0 and text[pos - 1] == "\r" and text[pos:pos + 1] == "\n":
        n -= 1
    return n


def marks_for(text, pattern):
    """Per-line marker flags from Python's own regex engine, the (start, end) span of every separator, and the
    mode: False = each match is exactly one whole line, True = each match is one whole line plus its newline.
    (None, None, None) if some match is neither, or the two shapes are mixed (outside the modelled precondition)."""
    lines = text.split("\n")
    starts, pos = [], 0
    for ln in lines:
        starts.append(pos)
        pos += len(ln) + 1
    marks = [False] * len(lines)
    spans, modes = [], set()
    for m in re.finditer(pattern, text, flags=re.MULTILINE):
        if m.start() not in starts or m.group(1) != m.group(0):
            return None, None, None
        i = starts.index(m.start())
        line_end = starts[i] + len(lines[i])
        if m.end() == line_end:
            modes.add(False)
        elif m.end() == line_end + 1 and i + 1 < len(lines):
            modes.add(True)
        else:
            return None, None, None
        marks[i] = True
        spans.append((m.start(), m.end()))
    if len(modes) > 1:
        return None, None, None
    return marks, spans, (modes.pop() if modes else False)


def gen_file(rng):
    pattern = rng.choice(PATTERNS)
    nsec = rng.choice([0, 1, 1, 2, 2, 3, 4, 5])
    lines = []
    for k in range(nsec + 1):
        if k > 0:
            lines.append(MARKERS[pattern](k))
        for _ in range(rng.choice([0, 0, 1, 2, 3, 4])):
            lines += rng.choice(BODY).split("\n")
    text = "\n".join(lines)
    r = rng.random()
    if r < 0.6:
        text += "\n"
    elif r < 0.7:
        text += "\n\n"
    if rng.random() < 0.1:
        text = text.replace("\n", "\r\n", 1)
    return text, pattern


def gen_ops(rng, nmarks, marks=None, takes_nl=False):
    n = rng.choice([0, 1, 2, nmarks, nmarks, nmarks + 1, nmarks + 2])
    ops = ["N"] * n
    if marks is not None and rng.random() < 0.2:
        # a SECOND pass over the same file on the same report (e.g. first independently, then cumulatively):
        # stop, separate again in either mode, walk again - nothing of the first pass (line offset!) may survive
        m = "".join("1" if f else "0" for f in marks) or "-"
        letter = rng.choice("ic")
        ops += ["T", "S" + (letter.upper() if takes_nl else letter) + m]
        ops += ["N"] * rng.choice([0, 1, nmarks, nmarks + 1])
    tail = rng.random()
    if tail < 0.45:
        ops.append("T")
    elif tail < 0.7:
        ops.append("R")
    elif tail < 0.8:
        ops += ["T", "T"]          # second stop raises (empty substitution stack)
    elif tail < 0.9:
        ops += ["R", "R", "N"]     # next after everything was restored raises
    return ops


def observe():
    src = MAIN_REPORT["source"]
    sub = MAIN_REPORT.submission
    ne = [[f.fields.get("count"), f.fields.get("found")] for f in MAIN_REPORT.feedback + MAIN_REPORT.ignored_feedback
          if f.label == "not_enough_sections"]
    return {"main": sub.main_code, "offset": sub.line_offsets.get(sub.main_file, 0), "idx": src["section"],
            "subs": len(src["substitutions"]), "notenough": ne, "sections": len(src["sections"] or [])}


def run_real(text, pattern, independent, ops):
    """Observation after each op (list), 'raise:<cls>' where the API raised."""
    clear_report()
    contextualize_report(text)
    out = []
    try:
        separate_into_sections(pattern=pattern, independent=independent)
        out.append(observe())
    except Exception as e:
        out.append("raise:" + type(e).__name__)
        return out, None
    sections = list(MAIN_REPORT["source"]["sections"])
    for op in ops:
        try:
            if op == "N":
                next_section()
            elif op.startswith("S"):
                separate_into_sections(pattern=pattern, independent=op[1] in "iI")
            elif op == "T":
                stop_sections()
            elif op == "R":
                stop_any_sections()
            out.append(observe())
        except Exception as e:
            out.append("raise:" + type(e).__name__)
            break
    return out, sections


def model_requests(text, marks, independent, ops, takes_nl=False):
    m = "".join("1" if f else "0" for f in marks) or "-"
    letter = "i" if independent else "c"
    first = "S" + (letter.upper() if takes_nl else letter) + m
    reqs = []
    for k in range(len(ops) + 1):
        reqs.append("sections " + enc_str(text) + " " + " ".join([first] + ops[:k]))
    return reqs


def parse_model(ans):
    if ans == "raise":
        return "raise"
    head, kv = parse_kv(ans)
    if head != "ok":
        return {"bad": ans}
    ne = []
    for item in kv["notenough"].strip("[]").split(","):
        if item:
            a, b = item.split(":")
            ne.append([int(a), int(b)])
    return {"main": dec_str(kv["main"]), "offset": int(kv["offset"]), "idx": int(kv["idx"]), "subs": int(kv["subs"]),
            "notenough": ne, "sections": int(kv["sections"])}


def same(real, model):
    if isinstance(real, str):
        return model == "raise"
    return real == model


def correspond(rng, tier, driver):
    res = CorrResult()
    res.rule = ("files of 0-5 separators (default and two custom line-anchored patterns; near-miss separator lines, CRLF, "
                "blank/whitespace lines, with/without final newline) x independent/cumulative x op sequences "
                "(separate, next* incl. past the end, stop / resolver hook, double stop); after EVERY op compare "
                "main code, line offset, section index, substitution depth, not_enough_sections (count, found) and "
                "the section list itself between real pedal and Pedal.Sections.run; non-trivial = >=1 separator")
    n = 2000 if tier == "quick" else 10000
    cases, reqs, index = [], [], []
    for _ in range(n):
        text, pattern = gen_file(rng)
        marks, spans, takes_nl = marks_for(text, pattern)
        if marks is None:
            res.count("skipped:pattern-precondition")
            continue
        independent = rng.random() < 0.5
        ops = gen_ops(rng, sum(marks), marks, takes_nl)
        real, sections = run_real(text, pattern, independent, ops)
        rq = model_requests(text, marks, independent, ops, takes_nl)
        cases.append({"text": text, "pattern": pattern, "independent": independent, "ops": ops, "real": real,
                      "sections": sections, "marks": marks, "takes_nl": takes_nl})
        index.append((len(reqs), len(rq)))
        reqs += rq
        reqs.append("split " + enc_str(text) + " " + ("".join("1" if f else "0" for f in marks) or "-")
                    + " " + ("1" if takes_nl else "0"))
    answers = driver.ask(reqs)
    for case, (start, cnt) in zip(cases, index):
        res.evaluations += 1
        res.count("markers=%d" % sum(case["marks"]))
        res.count("mode=" + ("independent" if case["independent"] else "cumulative"))
        res.count("group=" + ("line+newline" if case["takes_nl"] else "line"))
        if sum(case["marks"]):
            res.nontrivial.add(json.dumps([case["text"], case["independent"], case["ops"]]))
        models = [parse_model(a) for a in answers[start:start + cnt]]
        real = case["real"]
        bad = None
        for i, r in enumerate(real):
            if i >= len(models) or not same(r, models[i]):
                bad = i
                break
        if isinstance(real[-1], str):
            res.count("raise")
        # the section list itself
        split_ans = answers[start + cnt]
        msecs = [dec_str(x) for x in split_ans[3:].split("|")] if split_ans.startswith("ok ") else None
        if bad is None and case["sections"] is not None and msecs != case["sections"]:
            bad = "sections"
        if bad is not None:
            res.disagreements.append({"case": {k: case[k] for k in ("text", "pattern", "independent", "ops")},
                                      "at_op": bad, "real": real, "model": models, "model_sections": msecs,
                                      "real_sections": case["sections"]})
    res.samples = [{k: c[k] for k in ("text", "pattern", "independent", "ops")} for c in cases[-2:]]
    return res


# ---------------------------------------------------------------------------
# property oracle (from the statement)

PLANTS = {
    "syntax": ["x = ("],
    "tifa": ["print(zz_undefined_name)"],
    # TIFA issues located through an EXPLICIT node (locate(node)), not the visitor's current node
    "tifa_iter": ["for zz_i in 5:", "    pass"],
    "tifa_iter_empty": ["zz_l = []", "for zz_i in zz_l:", "    pass"],
    "tifa_append": ["zz_n = 5", "zz_n.append(1)"],
    "tifa_iter_same": ["zz_q = [1]", "for zz_q in zz_q:", "    pass"],
    "runtime": ["zz_q = 1 // 0"],
    "runtime_fn": ["def zz_f():", "    return 1 // 0", "zz_f()"],
    # multi-step: the section only DEFINES the function; the instructor then calls it and it fails there
    "runtime_call": ["def zz_g(d):", "    return 1 // d"],
}


def _cls(*body):
    return ["class ZzE(Exception):"] + ["    " + b for b in body]


# exception OBJECTS that the machinery building the report may choke on (traceback.TracebackException takes the
# object's truth value, reads __notes__/__cause__/__context__, str()s it ...): whatever fallback the code then takes,
# every line it shows is still a line of the whole file
ODD_EXCEPTIONS = {
    "len-raises": _cls("def __len__(self):", "    raise TypeError('no length')"),
    "bool-raises": _cls("def __bool__(self):", "    raise TypeError('no truth')"),
    "len-negative": _cls("def __len__(self):", "    return -1"),
    "len-nonint": _cls("def __len__(self):", "    return 'three'"),
    "bool-nonbool": _cls("def __bool__(self):", "    return 5"),
    "str-raises": _cls("def __str__(self):", "    raise ValueError('no str')"),
    "str-nonstr": _cls("def __str__(self):", "    return 5"),
    "repr-raises": _cls("def __repr__(self):", "    raise ValueError('no repr')"),
    "getattr-raises": _cls("def __getattr__(self, k):", "    raise ValueError('hidden')"),
    "notes-nonlist": _cls("__notes__ = 5"),
    "notes-raises": _cls("@property", "def __notes__(self):", "    raise ValueError('no notes')"),
    "eq-raises-unhashable": _cls("def __eq__(self, o):", "    raise ValueError('eq')", "__hash__ = None"),
    "plain-user-class": _cls("pass"),
}
# (__getattribute__ that raises is left out: the error escapes run() altogether - C04's open finding)


def runtime_extra_plants():
    """name -> {lines, frames (line indexes of the student frames, outermost first), after, verify}.  Built per run:
    the depth of the deep recursion is taken from the tree's own MAXIMUM_RELEVANT_FRAMES (the traceback text is cut
    to that many frames), at, just above and well above the limit."""
    out = {}
    for shape, cls in ODD_EXCEPTIONS.items():
        n = len(cls)
        out["odd:%s:top" % shape] = {"lines": cls + ["raise ZzE('too big')"], "frames": [n]}
        out["odd:%s:fn" % shape] = {"lines": cls + ["def zz_f(v):", "    raise ZzE('too big')", "", "zz_f(5)"],
                                    "frames": [n + 3, n + 1]}
        out["odd:%s:call" % shape] = {"lines": cls + ["def zz_g(v):", "    raise ZzE('too big')"], "frames": [n + 1],
                                      "after": ["call", "zz_g", 0]}
    limit = int(getattr(ExpandedTraceback, "MAXIMUM_RELEVANT_FRAMES", 8))
    for depth in sorted({1, limit - 2, limit - 1, limit + 3}):
        if depth >= 1:
            out["deep:%d-frames" % (depth + 2)] = {
                "lines": ["def zz_r(n):", "    if n == 0:", "        return 1 // 0", "    return zz_r(n - 1)", "zz_r(%d)" % depth],
                "frames": [4] + [3] * depth + [2]}
    out["chain:from"] = {"lines": ["def zz_f():", "    try:", "        return 1 // 0", "    except ZeroDivisionError as zz_e:",
                                   "        raise ValueError('bad') from zz_e", "zz_f()"], "frames": [5, 4]}
    out["chain:context"] = {"lines": ["try:", "    [][1]", "except IndexError:", "    zz_v = {}['k']"], "frames": [3]}
    out["group"] = {"lines": ["raise ExceptionGroup('many', [ValueError(1), TypeError(2)])"], "frames": [0]}
    out["note"] = {"lines": ["zz_e = ValueError('x')", "zz_e.add_note('hello')", "raise zz_e"], "frames": [2]}
    out["evaluate"] = {"lines": ["def zz_g(d):", "    return 1 // d"], "frames": [1], "after": ["evaluate", "zz_g(0)"]}
    out["call-nested"] = {"lines": ["def zz_h(d):", "    return 1 // d", "def zz_g(d):", "    return zz_h(d)"],
                          "frames": [3, 1], "after": ["call", "zz_g", 0]}
    # the section is run WITHOUT verify(): the compiler's own error is a located runtime diagnostic
    out["run-unverified:syntax"] = {"lines": ["zz_a = 1", "zz_x = ("], "frames": [1], "verify": False}
    out["run-unverified:indent"] = {"lines": ["for zz_i in range(3):", "print(zz_i)"], "frames": [1], "verify": False}
    return out


RUNTIME_FRAMES = {"runtime": [0], "runtime_fn": [2, 1], "runtime_call": [1]}
# which line of the planted snippet carries the diagnostic (0 = its first line), and for TIFA kinds which issue
PLANT_LINE_DELTA = {"runtime_fn": 1, "runtime_call": 1, "tifa_iter_empty": 1, "tifa_append": 1, "tifa_iter_same": 1}
TIFA_PLANT_LABEL = {"tifa": "initialization_problem", "tifa_iter": "iterating_over_non_list",
                    "tifa_iter_empty": "iterating_over_empty_list", "tifa_append": "append_to_non_list",
                    "tifa_iter_same": "iteration_problem"}


def gen_planted(rng):
    """File with a diagnostic planted at a known whole-file line inside section k>=1."""
    pattern = rng.choice(PATTERNS)
    nsec = rng.randint(1, 4)
    chunks = []
    for k in range(nsec + 1):
        # a body is a list of whole STATEMENTS (some span two lines); fillers are only ever put between statements
        stmts = []
        for _ in range(rng.randint(0, 3)):
            # self-contained fillers: in independent mode a section cannot read earlier sections' names
            stmts.append(rng.choice(["a = 1", "print(1)", "", "b = 2", "# c", "pass", "if 1:\n    c = 3"]))
        if rng.random() < 0.35:
            stmts.insert(rng.randint(0, len(stmts)), rng.choice(ODD_FILLERS))
        if LONE_CR and rng.random() < 0.3:
            stmts.insert(rng.randint(0, len(stmts)), rng.choice(CR_FILLERS))
        chunks.append(stmts)
    chunks[0] = ["a = 1"] + chunks[0]
    k = rng.randint(1, nsec)
    extra = None
    if rng.random() < 0.4:
        extras = runtime_extra_plants()
        odd = rng.random() < 0.55
        shape = rng.choice(sorted(x for x in extras if x.startswith("odd:") == odd))
        extra = extras[shape]
        kind, plant_lines = "runtime_x", extra["lines"]
    else:
        kind = rng.choice(list(PLANTS))
        plant_lines = PLANTS[kind]
    spos = rng.randint(0, len(chunks[k]))                 # statement position of the plant inside section k
    pos = sum(len(st.split("\n")) for st in chunks[k][:spos])   # ... as a line position
    chunks[k][spos:spos] = ["\n".join(plant_lines)]
    chunks = [[ln for st in body for ln in st.split("\n")] for body in chunks]
    lines = []
    plant_at = marker_at = None
    for j, body in enumerate(chunks):
        if j > 0:
            if j == k:
                marker_at = len(lines)
            lines.append(MARKERS[pattern](j))
        if j == k:
            plant_at = len(lines) + pos                    # index (in `lines`) of the plant's first line
            body_end = len(lines) + len(body)
        lines += body
    text = "\n".join(lines) + ("\n" if rng.random() < 0.8 else "")
    starts, at = [], 0
    for ln in lines:
        starts.append(at)
        at += len(ln) + 1

    def cp_line(i):
        """1-based line number CPython gives the i-th \\n-separated line of the file (differs from i+1 only if a
        lone CR precedes it)."""
        return 1 + cpython_lines_before(text, starts[i])
    planted_line = cp_line(plant_at + PLANT_LINE_DELTA.get(kind, 0))
    independent = rng.random() < 0.6
    out = {"text": text, "pattern": pattern, "k": k, "kind": kind, "line": planted_line, "independent": independent}
    if kind in RUNTIME_FRAMES:
        out["frames"] = [cp_line(plant_at + r) for r in RUNTIME_FRAMES[kind]]
    if extra is not None:
        out["shape"] = shape
        out["frames"] = [cp_line(plant_at + r) for r in extra["frames"]]
        out["line"] = out["frames"][-1]
        out["after"] = extra.get("after")
        out["verify"] = extra.get("verify", True)
    if rng.random() < 0.25:
        # an earlier pass over the same file on the same report (other mode possible), walked some way and stopped
        out["prepass"] = {"independent": rng.random() < 0.7, "nexts": rng.randint(1, nsec)}
    if independent:
        # whole-file lines of section k: from its marker line to one past its last line
        last = cp_line(body_end - 1) + lines[body_end - 1].count("\r") if body_end > marker_at + 1 else cp_line(marker_at)
        out["section_lines"] = (cp_line(marker_at), last + 1)
    return out


def check_planted(p):
    """None if every reported line is the whole-file line, else (signature, what)."""
    text = p["text"]
    clear_report()
    contextualize_report(text)
    try:
        pre = p.get("prepass")
        if pre:
            separate_into_sections(pattern=p["pattern"], independent=pre["independent"])
            for _ in range(pre["nexts"]):
                next_section()
            stop_sections()
        separate_into_sections(pattern=p["pattern"], independent=p["independent"])
        for _ in range(p["k"]):
            next_section()
        kind = p["kind"]
        if kind == "syntax":
            try:
                import ast as _ast
                _ast.parse(text)
                p["_skip"] = "ill-formed:no-syntax-error"
                return None
            except SyntaxError as e:
                if e.lineno != p["line"]:
                    p["_skip"] = "ill-formed:first-error-elsewhere"
                    return None
            verify()
            got = [f.location.line for f in MAIN_REPORT.feedback
                   if f.category == "syntax" and f.label in ("syntax_error", "indentation_error")]
            if got[:1] != [p["line"]]:
                return ({"tool": "syntax", "line": "not-whole-file", "mode": mode(p)},
                        "syntax error reported at %r, whole-file line %d" % (got, p["line"]))
        elif kind in TIFA_PLANT_LABEL:
            if not verify():
                return None
            t = tifa_analysis()
            label = TIFA_PLANT_LABEL[kind]
            got = [i.location.line for i in t.issues.get(label, [])
                   if kind != "tifa" or i.fields.get("name") == "zz_undefined_name"]
            if got[:1] != [p["line"]]:
                return ({"tool": "tifa", "line": "not-whole-file", "mode": mode(p), "issue": label},
                        "TIFA %s reported at %r, whole-file line %d" % (label, got, p["line"]))
            # every TIFA issue of this section lies inside the section's whole-file line range
            lo, hi = p.get("section_lines", (None, None))
            if lo is not None:
                for lab, iss in t.issues.items():
                    for i in iss:
                        ln = getattr(i.location, "line", None)
                        if lab != "unused_variable" and isinstance(ln, int) and not (lo <= ln <= hi):
                            return ({"tool": "tifa", "line": "outside-section", "mode": mode(p)},
                                    "TIFA %s at line %r, section %d spans whole-file lines %d..%d" % (lab, ln, p["k"], lo, hi))
        else:
            if p.get("verify", True) and not verify():
                p["_skip"] = "ill-formed:section-does-not-parse"
                return None
            sandbox_run()
            after = p.get("after") or (["call", "zz_g", 0] if kind == "runtime_call" else None)
            if after:
                if [f for f in MAIN_REPORT.feedback if f.category == "runtime"]:
                    p["_skip"] = "section-failed-before-call"
                    return None
                if after[0] == "call":
                    sandbox_call(after[1], *after[2:])
                else:
                    sandbox_evaluate(after[1])
            fbs = [f for f in MAIN_REPORT.feedback if f.category == "runtime"]
            if len(fbs) != 1:
                return ({"tool": "runtime", "count": len(fbs)}, "%d runtime feedbacks" % len(fbs))
            f = fbs[0]
            loc = f.location.line if f.location is not None else None
            if loc != p["line"]:
                return ({"tool": "runtime-location", "line": "not-whole-file", "mode": mode(p)},
                        "runtime error located at %r, whole-file line %d" % (loc, p["line"]))
            tbm = str(f.fields.get("traceback_message", ""))
            # frames of the student's file only (other files' frames, should a tree show any, are not section lines)
            pairs = re.findall(r"[Ll]ine (\d+) of file ([^\n]*)", tbm)
            named = [int(n) for n, rest in pairs if MAIN_REPORT.submission.main_file in rest]
            tb_lines = named or [int(n) for n, _ in pairs] or [int(x) for x in re.findall(r"[Ll]ine (\d+)", tbm)]
            if p["line"] not in tb_lines:
                return ({"tool": "traceback", "line": "not-whole-file", "mode": mode(p)},
                        "traceback mentions lines %r, whole-file line %d" % (tb_lines, p["line"]))
            frames = p.get("frames")
            if frames:
                # EVERY line number the feedback exposes: all frames of the traceback text (cut to the tree's own
                # MAXIMUM_RELEVANT_FRAMES), and the frame objects in fields['traceback_stack'] with their source lines
                limit = int(getattr(ExpandedTraceback, "MAXIMUM_RELEVANT_FRAMES", 8))
                shown = frames if len(frames) <= limit else frames[:limit // 2] + frames[-(limit // 2):]
                if tb_lines != shown:
                    return ({"tool": "traceback", "line": "not-whole-file", "mode": mode(p), "frames": "all"},
                            "traceback text shows lines %r, the frames are at whole-file lines %r" % (tb_lines, shown))
                stack = f.fields.get("traceback_stack")
                if stack is not None:
                    main_file = MAIN_REPORT.submission.main_file
                    got = [fr.lineno for fr in stack if fr.filename == main_file]
                    if got != frames:
                        return ({"tool": "traceback-stack", "line": "not-whole-file", "mode": mode(p)},
                                "fields['traceback_stack'] has the student frames at lines %r, whole-file lines %r"
                                % (got, frames))
                    file_lines = _CP_EOL.split(text)
                    for fr in stack:
                        # (a frame without source text shows no wrong line; one with ANOTHER line's text does)
                        if fr.filename == main_file and (fr.line or "").strip() and \
                                (fr.line or "").strip() != file_lines[fr.lineno - 1].strip():
                            return ({"tool": "traceback-stack", "text": "not-the-line", "mode": mode(p)},
                                    "frame at line %d carries source %r, line %d of the file is %r"
                                    % (fr.lineno, fr.line, fr.lineno, file_lines[fr.lineno - 1]))
        # restoration
        if rngless_restore(text):
            return ({"restore": "main-code"}, "main code not restored after stop/resolve")
    except Exception as e:
        return ({"raises": type(e).__name__}, "%s: %s" % (type(e).__name__, e))
    return None


def mode(p):
    return "independent" if p["independent"] else "cumulative"


def rngless_restore(text):
    simple.resolve()        # the resolver's hook must stop the sections
    return MAIN_REPORT.submission.main_code != text


def check_structure(text, pattern, independent, extra_next):
    """Lossless split, section k = k-th chunk (or prefix), past-the-end feedback, restoration."""
    marks, spans, _ = marks_for(text, pattern)
    if marks is None:
        return None
    clear_report()
    contextualize_report(text)
    try:
        separate_into_sections(pattern=pattern, independent=independent)
        secs = MAIN_REPORT["source"]["sections"]
        if "".join(secs) != text:
            return ({"lossless": False}, "sections do not concatenate back to the file")
        if MAIN_REPORT.submission.main_code != text[:spans[0][0]] if spans else MAIN_REPORT.submission.main_code != text:
            return ({"section": 0}, "prologue is not the text before the first separator")
        for k in range(1, len(spans) + 1):
            next_section()
            start = spans[k - 1][1]
            end = spans[k][0] if k < len(spans) else len(text)
            exp = text[start:end] if independent else text[:end]
            if MAIN_REPORT.submission.main_code != exp:
                return ({"section": "wrong-chunk", "mode": "independent" if independent else "cumulative"},
                        "section %d presented as %r, expected %r" % (k, MAIN_REPORT.submission.main_code[:60], exp[:60]))
        for j in range(extra_next):
            before = len([f for f in MAIN_REPORT.feedback if f.label == "not_enough_sections"])
            next_section()
            after = len([f for f in MAIN_REPORT.feedback if f.label == "not_enough_sections"])
            if after != before + 1:
                return ({"past-end": "no-feedback"}, "next_section past the end gave no not_enough_sections feedback")
        stop_sections()
        if MAIN_REPORT.submission.main_code != text:
            return ({"restore": "main-code"}, "main code not restored after stop_sections")
        # restoration by the resolver's hook, after ANY number of next_section calls - none included (the
        # instructor separated, looked at the prologue only and resolved)
        for nexts in (0, 1, len(spans) + 1):
            clear_report()
            contextualize_report(text)
            separate_into_sections(pattern=pattern, independent=independent)
            for _ in range(nexts):
                next_section()
            simple.resolve()
            if MAIN_REPORT.submission.main_code != text:
                return ({"restore": "main-code", "by": "resolver-hook"},
                        "main code not restored by resolve() after separate_into_sections + %d next_section call(s)" % nexts)
    except Exception as e:
        return ({"raises": type(e).__name__}, "%s: %s" % (type(e).__name__, e))
    return None


def search(rng, tier, broken, corr):
    failures, seen = [], set()
    info = {"rule": "real pedal vs the statement: sections re-join to the file; section k (or the prefix) is what the "
                    "tools see (positions taken from re.finditer); past-the-end gives not_enough_sections; a syntax "
                    "error / undefined read / ZeroDivisionError (top level, inside a function, and inside a function that "
                    "the section only defines and the instructor then call()s) planted at a known "
                    "whole-file line of a later section (earlier sections may contain FF/VT/FS/NEL/LS/PS characters, which "
                    "str.splitlines counts as line breaks) is reported there by verify, TIFA, the runtime feedback "
                    "location and the traceback text; main code restored by stop_sections and by resolve()",
            "evaluations": 0, "distinct_nontrivial": 0, "samples": []}
    nt = set()
    n = 1400 if tier == "quick" else 8000
    if broken:
        n *= 3
    for _ in range(n):
        if len(failures) >= 6:
            break
        text, pattern = gen_file(rng)
        independent = rng.random() < 0.5
        info["evaluations"] += 1
        v = check_structure(text, pattern, independent, rng.choice([0, 1, 2]))
        if "\n" in text:
            nt.add(text)
        if v is not None and json.dumps(v[0], sort_keys=True) not in seen:
            seen.add(json.dumps(v[0], sort_keys=True))
            failures.append(Failure(v[0], v[1], {"kind": "structure", "text": text, "pattern": pattern,
                                                "independent": independent}))
    family = {}
    fixed = corpus_planted()
    for i in range(n + len(fixed)):
        if len(failures) >= 6:
            break
        p = dict(fixed[i]) if i < len(fixed) else gen_planted(rng)
        info["evaluations"] += 1
        nt.add(p["text"])
        v = check_planted(p)
        tag = "planted:%s:%s" % (p["kind"] if p["kind"] != "runtime_x" else "runtime_x:" + p["shape"].split(":")[0],
                                 p.pop("_skip", "checked"))
        info.setdefault("planted_breakdown", {})
        info["planted_breakdown"][tag] = info["planted_breakdown"].get(tag, 0) + 1
        fam = planted_family(p, v[0]) if v is not None else None
        if fam is not None:
            key = fam["family"]
            info.setdefault("family_failures", {})
            info["family_failures"][key] = info["family_failures"].get(key, 0) + 1
            if key not in family and (fam is not LONE_CR_TEXT_FAMILY or SHOW_FRAME_TEXT_FAMILY):
                family[key] = Failure(dict(fam), v[1] + " {detailed signature: %s}" % json.dumps(v[0], sort_keys=True),
                                      {"kind": "planted", "planted": p})
            continue
        if v is not None and json.dumps(v[0], sort_keys=True) not in seen:
            seen.add(json.dumps(v[0], sort_keys=True))
            failures.append(Failure(v[0], v[1], {"kind": "planted", "planted": p}))
    info["distinct_nontrivial"] = len(nt)
    info["samples"] = [gen_planted(rng)]
    return failures + list(family.values()), info


def replay(payload):
    rp = payload.get("replay", {})
    if rp.get("kind") == "planted":
        print("planted:", json.dumps(rp["planted"]))
        print("result:", check_planted(rp["planted"]))
    elif rp.get("kind") == "structure":
        print("result:", check_structure(rp["text"], rp["pattern"], rp["independent"], 2))
    else:
        print(json.dumps(payload, indent=1)[:3000])
    return 0


if __name__ == "__main__":
    from translate_sections import translate
    sys.exit(run_check("C17", proof_modules=["PedalProofs.C17"], theorems=THEOREMS, driver_exe="driver_c17",
                       translate=translate, correspond=correspond, search=search, replay=replay, model_notes=NOTES,
                       leanchecker_modules=["PedalProofs.C17"]))

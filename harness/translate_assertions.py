"""
Regenerates lean/PedalModel/Gen/AssertionConds.lean from the tree under test.

* For every runtime assertion class of pedal/assertions/runtime.py the body of the `condition`
  method it uses (own or inherited, found through the MRO) is read from the *source AST* and turned
  into a `Pedal.Assertions.CondExpr`.  Local assignments and `if` statements are eliminated
  symbolically (an `if` becomes `CondExpr.ite`).  Anything outside the understood subset makes the
  whole condition `CondExpr.opaque <source>` — the model then answers `unmodelled` and no theorem
  about that assertion can be proved.
* The guard `RuntimeAssertionFeedback.__init__` puts around the condition is *measured*: a probe
  assertion whose condition raises / whose operand is an error is constructed and observed.
"""
import ast
import hashlib
import inspect
import os
import textwrap

from common import LEAN_DIR, lean_str, use_repo, write_if_changed

TYPE_NAMES = {"int": "int", "float": "float", "bool": "bool", "str": "str", "list": "list", "tuple": "tuple",
              "set": "set", "dict": "dict", "object": "object", "Exception": "exception", "type": "type"}
CMP = {ast.Lt: "lt", ast.LtE: "le", ast.Gt: "gt", ast.GtE: "ge", ast.Eq: "eq", ast.NotEq: "ne",
       ast.In: "in_", ast.NotIn: "notIn", ast.Is: "is_", ast.IsNot: "isNot"}


class Untranslatable(Exception):
    pass


class CondTranslator:
    def __init__(self, funcdef):
        args = [a.arg for a in funcdef.args.args]
        if len(args) < 3 or funcdef.args.vararg or funcdef.args.kwarg or funcdef.args.kwonlyargs:
            raise Untranslatable("signature")
        self.self_name = args[0]
        self.sides = {args[1]: "left", args[2]: "right"}
        self.params = set(args[3:])
        self.funcdef = funcdef

    # ---- statements -------------------------------------------------------
    def run(self):
        kind, val = self.block(list(self.funcdef.body), {})
        if kind != "ret":
            raise Untranslatable("falls off the end")
        return val

    def block(self, stmts, env):
        if not stmts:
            return "fall", env
        s, rest = stmts[0], stmts[1:]
        if isinstance(s, ast.Expr) and isinstance(s.value, ast.Constant) and isinstance(s.value.value, str):
            return self.block(rest, env)
        if isinstance(s, ast.Return):
            if s.value is None:
                raise Untranslatable("bare return")
            return "ret", self.expr(s.value, env)
        if isinstance(s, ast.Assign):
            if len(s.targets) != 1 or not isinstance(s.targets[0], ast.Name):
                raise Untranslatable("assignment target")
            env2 = dict(env)
            env2[s.targets[0].id] = self.expr(s.value, env)
            return self.block(rest, env2)
        if isinstance(s, ast.If):
            t = self.expr(s.test, env)
            k1, v1 = self.block(list(s.body), env)
            k2, v2 = self.block(list(s.orelse), env)
            if k1 == "ret" and k2 == "ret":
                return "ret", "(.ite %s %s %s)" % (t, v1, v2)
            if k1 == "ret":
                k, v = self.block(rest, v2)
                if k != "ret":
                    raise Untranslatable("if/fall")
                return "ret", "(.ite %s %s %s)" % (t, v1, v)
            if k2 == "ret":
                k, v = self.block(rest, v1)
                if k != "ret":
                    raise Untranslatable("if/fall")
                return "ret", "(.ite %s %s %s)" % (t, v, v2)
            merged = {}
            for name in set(v1) | set(v2):
                a = v1.get(name)
                b = v2.get(name)
                if a is None or b is None:
                    # defined on one path only: using it later would be a NameError on the other
                    base = self.name_default(name)
                    a = a if a is not None else base
                    b = b if b is not None else base
                merged[name] = a if a == b else "(.ite %s %s %s)" % (t, a, b)
            return self.block(rest, merged)
        raise Untranslatable(type(s).__name__)

    def name_default(self, name):
        raise Untranslatable("variable %s bound on one path only" % name)

    # ---- expressions ------------------------------------------------------
    def side_of(self, node, env):
        if isinstance(node, ast.Name) and node.id in self.sides and node.id not in env:
            return self.sides[node.id]
        return None

    def expr(self, n, env):
        if isinstance(n, ast.Constant):
            if n.value is None:
                return ".noneLit"
            if n.value is True:
                return "(.boolLit true)"
            if n.value is False:
                return "(.boolLit false)"
            raise Untranslatable("constant %r" % (n.value,))
        if isinstance(n, ast.Name):
            if n.id in env:
                return env[n.id]
            if n.id in self.params:
                return "(.param %s)" % lean_str(n.id)
            if n.id in TYPE_NAMES:
                return "(.tyLit .%s)" % TYPE_NAMES[n.id]
            raise Untranslatable("name %s" % n.id)
        if isinstance(n, ast.Attribute):
            side = self.side_of(n.value, env)
            if side and n.attr == "value":
                return "(.value .%s)" % side
            if side and n.attr == "is_sandboxed":
                return "(.isSandboxed .%s)" % side
            if n.attr == "_actual_value":
                return "(.actualValue %s)" % self.expr(n.value, env)
            raise Untranslatable("attribute .%s" % n.attr)
        if isinstance(n, ast.IfExp):
            return "(.ite %s %s %s)" % (self.expr(n.test, env), self.expr(n.body, env), self.expr(n.orelse, env))
        if isinstance(n, ast.UnaryOp) and isinstance(n.op, ast.Not):
            return "(.not_ %s)" % self.expr(n.operand, env)
        if isinstance(n, ast.BoolOp):
            ctor = ".or_" if isinstance(n.op, ast.Or) else ".and_"
            vals = [self.expr(v, env) for v in n.values]
            out = vals[-1]
            for v in reversed(vals[:-1]):
                out = "(%s %s %s)" % (ctor, v, out)
            return out
        if isinstance(n, ast.Compare):
            if len(n.ops) != 1 or type(n.ops[0]) not in CMP:
                raise Untranslatable("comparison chain")
            return "(.cmp .%s %s %s)" % (CMP[type(n.ops[0])], self.expr(n.left, env), self.expr(n.comparators[0], env))
        if isinstance(n, ast.Tuple) and len(n.elts) == 2:
            return "(.tuple2 %s %s)" % (self.expr(n.elts[0], env), self.expr(n.elts[1], env))
        if isinstance(n, ast.Call):
            return self.call(n, env)
        raise Untranslatable(type(n).__name__)

    def call(self, n, env):
        f = n.func
        if any(k.arg is None for k in n.keywords):
            raise Untranslatable("**kwargs")
        kw = {k.arg: k.value for k in n.keywords}
        if isinstance(f, ast.Name) and f.id not in env:
            name = f.id
            if name in ("len", "bool", "str", "unwrap_value") and len(n.args) == 1 and not kw:
                ctor = {"len": ".len", "bool": ".bool_", "str": ".str_", "unwrap_value": ".unwrap"}[name]
                return "(%s %s)" % (ctor, self.expr(n.args[0], env))
            if name == "isinstance" and len(n.args) == 2 and not kw:
                return "(.isinstance %s %s)" % (self.expr(n.args[0], env), self.expr(n.args[1], env))
            if name == "hasattr" and len(n.args) == 2 and not kw:
                if isinstance(n.args[1], ast.Name) and n.args[1].id == "_FIELDS":
                    return "(.hasDataclassFields %s)" % self.expr(n.args[0], env)
                raise Untranslatable("hasattr")
            if name == "errors" and not kw:
                sides = [self.side_of(a, env) for a in n.args]
                if sides == ["left", "right"]:
                    return ".errors2"
                if len(sides) == 1 and sides[0]:
                    return "(.errors1 .%s)" % sides[0]
                raise Untranslatable("errors(...) arguments")
            if name == "equality_test":
                names = ["actual", "expected", "_exact_strings", "_delta"]
                got = dict(zip(names, n.args))
                for k, v in kw.items():
                    if k not in names or k in got:
                        raise Untranslatable("equality_test keyword")
                    got[k] = v
                if set(got) != set(names):
                    raise Untranslatable("equality_test arity")
                return "(.equalityTest %s %s %s %s)" % tuple(self.expr(got[k], env) for k in names)
            if name == "all" and len(n.args) == 1 and not kw and isinstance(n.args[0], ast.GeneratorExp):
                g = n.args[0]
                if len(g.generators) == 1 and not g.generators[0].ifs and not g.generators[0].is_async:
                    c = g.generators[0]
                    if (isinstance(c.target, ast.Name) and isinstance(g.elt, ast.Compare) and len(g.elt.ops) == 1
                            and isinstance(g.elt.ops[0], ast.In) and isinstance(g.elt.left, ast.Name)
                            and g.elt.left.id == c.target.id):
                        env2 = {k: v for k, v in env.items() if k != c.target.id}
                        return "(.allIn %s %s)" % (self.expr(c.iter, env), self.expr(g.elt.comparators[0], env2))
                raise Untranslatable("all(...)")
            raise Untranslatable("call %s" % name)
        if isinstance(f, ast.Attribute):
            if (isinstance(f.value, ast.Name) and f.value.id == "re" and f.attr == "search" and len(n.args) == 2
                    and not kw and "re" not in env):
                return "(.reSearch %s %s)" % (self.expr(n.args[0], env), self.expr(n.args[1], env))
            if (isinstance(f.value, ast.Name) and f.value.id == self.self_name and f.attr == "get_output"
                    and len(n.args) == 1 and not kw):
                side = self.side_of(n.args[0], env)
                if side:
                    return "(.output .%s)" % side
                raise Untranslatable("get_output argument")
            if f.attr == "lower" and not n.args and not kw:
                return "(.lower %s)" % self.expr(f.value, env)
            raise Untranslatable("method .%s" % f.attr)
        raise Untranslatable("call")


def find_funcdef(cls):
    """AST of the `condition` method `cls` uses, plus the class that defines it."""
    for k in cls.__mro__:
        if "condition" in k.__dict__:
            owner = k
            break
    else:
        return None, None
    src = inspect.getsource(inspect.getmodule(owner))
    tree = ast.parse(src)
    for node in ast.walk(tree):
        if isinstance(node, ast.ClassDef) and node.name == owner.__name__:
            for item in node.body:
                if isinstance(item, ast.FunctionDef) and item.name == "condition":
                    return item, owner
    return None, owner


def translate_class(cls):
    fd, owner = find_funcdef(cls)
    if fd is None:
        return '(.opaque "no condition source")', False
    try:
        return CondTranslator(fd).run(), True
    except Untranslatable as e:
        src = ast.unparse(fd)
        return "(.opaque %s)" % lean_str("%s: %s" % (e, " ".join(src.split())[:200])), False


def assertion_classes():
    import pedal.assertions.runtime as rt
    from pedal.assertions.feedbacks import RuntimeAssertionFeedback
    out = []
    for name, obj in vars(rt).items():
        if (isinstance(obj, type) and issubclass(obj, RuntimeAssertionFeedback)
                and obj.__module__ == rt.__name__ and obj.__name__ == name and not name.startswith("_")):
            out.append((name, obj))
    return sorted(out)


def measure_guard():
    """Observe what RuntimeAssertionFeedback.__init__ does with a raising condition / an error operand."""
    import assertions_common as ac
    from pedal.assertions.feedbacks import RuntimeAssertionFeedback, SandboxedValue
    ac.setup()

    class _probe(RuntimeAssertionFeedback):
        _expected_verb = "to be"
        _inverse_operator = "is not"

        def __init__(self, left, right, mode):
            self._mode = mode
            super().__init__(SandboxedValue(left), SandboxedValue(right))

        def condition(self, left, right):
            if self._mode == "raise":
                raise TypeError("probe")
            return False

    def observe(fn):
        try:
            return bool(fn())
        except Exception:
            return False
        finally:
            ac.clear_report()

    raising = observe(lambda: _probe(1, 2, "raise"))
    err_left = observe(lambda: _probe(ac.error_operand(), 2, "quiet"))
    err_right = observe(lambda: _probe(1, ac.error_operand(), "quiet"))
    plain = observe(lambda: _probe(1, 2, "quiet"))
    return {"raisingConditionFires": raising and not plain, "errorOperandFires": err_left and err_right and not plain}


def translate():
    use_repo()
    import pedal.assertions.runtime as rt
    classes = assertion_classes()
    lines = [
        "import PedalModel.AssertionsCond",
        "/- GENERATED by harness/translate_assertions.py from the tree under test. Do not edit. -/",
        "namespace Pedal.Gen.Assertions",
        "open Pedal.Assertions",
        "",
    ]
    info = {}
    table = []
    for name, cls in classes:
        expr, ok = translate_class(cls)
        info[name] = "ok" if ok else "opaque"
        lines.append("def cond_%s : CondExpr :=\n  %s" % (name, expr[1:-1] if expr.startswith("(") else expr))
        lines.append("")
        table.append("(%s, cond_%s)" % (lean_str(name), name))
    guard = measure_guard()
    lines.append("def table : List (String × CondExpr) :=\n  [" + ",\n   ".join(table) + "]")
    lines.append("")
    lines.append("def wrapperGuard : Guard := { errorOperandFires := %s, raisingConditionFires := %s }" % (
        "true" if guard["errorOperandFires"] else "false", "true" if guard["raisingConditionFires"] else "false"))
    num, den = float(rt.assert_equal.DELTA).as_integer_ratio()
    k = den.bit_length() - 1
    assert den == 1 << k
    lines.append("def defaultDelta : Int × Nat := (%d, %d)" % (num, k))
    lines.append("")
    lines.append("end Pedal.Gen.Assertions")
    lines.append("")
    src = "\n".join(lines)
    path = os.path.join(LEAN_DIR, "PedalModel", "Gen", "AssertionConds.lean")
    changed = write_if_changed(path, src)
    return {"file": "PedalModel/Gen/AssertionConds.lean", "sha1": hashlib.sha1(src.encode()).hexdigest()[:12],
            "changed": changed, "conditions": info, "guard": guard}


if __name__ == "__main__":
    import json
    print(json.dumps(translate(), indent=1))

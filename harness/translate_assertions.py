"""
Regenerates lean/PedalModel/Gen/AssertionConds.lean from the tree under test.

* For every runtime assertion class of pedal/assertions/runtime.py the body of the `condition`
  method it uses (own or inherited, found through the MRO) is read from the *source AST* and turned
  into a `Pedal.Assertions.CondExpr`.  The reading is SEMANTIC, not syntactic:

  - statements are executed symbolically along every path (an `if` becomes `CondExpr.ite` whose
    arms each continue with the rest of the body, so early return / else / merged locals / a
    conditional expression all give the same decision tree); local names (also tuple assignments,
    rebinding of a parameter) are followed;
  - calls of pedal's own plain functions (module-level helpers of any pedal module), of methods and
    static methods reached through `self`, and of `super().condition(...)` are INLINED (the callee's
    body is translated with its parameters bound to the translated arguments);
  - `self.<attr>` reads a class attribute of the concrete assertion class (a bool/None constant, a
    function of the `operator` module, or a function that is then inlined);
  - `operator.lt(a, b)`, `a not in b` / `not (a in b)`, `any(x not in h ...)` / `all(x in h ...)` /
    the explicit loop with early return are understood as the relations they are.

  The functions taken as primitives are not trusted by name: `errors` and `unwrap_value` are
  PROBED on the tree under test (real operand wrappers / real proxies) and `equality_test`, `re`
  and the builtins must be the very objects the names are expected to denote in the module that
  uses them.

  A possibly-raising expression bound to a name (or passed to an inlined helper) must be evaluated
  on every path of what follows, otherwise substituting it would lose the exception: such a body is
  not understood.  Anything outside the understood subset makes the whole condition
  `CondExpr.opaque <source>` — the model then answers `unmodelled` and no theorem about that
  assertion can be proved.
* The guard `RuntimeAssertionFeedback.__init__` puts around the condition is *measured*: a probe
  assertion whose condition raises / whose operand is an error is constructed and observed.
"""
import ast
import builtins
import hashlib
import inspect
import operator
import os
import sys
import textwrap
import types

from common import LEAN_DIR, lean_str, use_repo, write_if_changed

TYPE_NAMES = {"int": "int", "float": "float", "bool": "bool", "str": "str", "list": "list", "tuple": "tuple",
              "set": "set", "dict": "dict", "object": "object", "Exception": "exception", "type": "type"}
CMP = {ast.Lt: "lt", ast.LtE: "le", ast.Gt: "gt", ast.GtE: "ge", ast.Eq: "eq", ast.NotEq: "ne",
       ast.In: "in_", ast.NotIn: "notIn", ast.Is: "is_", ast.IsNot: "isNot"}
# functions of the `operator` module: (kind, arity)
OPERATOR_FUNCS = {"lt": "lt", "le": "le", "gt": "gt", "ge": "ge", "eq": "eq", "ne": "ne", "is_": "is_",
                  "is_not": "isNot", "contains": "contains", "not_": "not_", "truth": "truth"}
MAX_INLINE_DEPTH = 8


class Untranslatable(Exception):
    pass


# ----------------------------------------------------------------------------------------------
# symbolic values
#
# A CondExpr is a tuple (constructor, children...).  Things a name can denote that are not
# CondExprs start with "@": the operand wrappers, `self`, a function to call.

def SIDE(s):
    return ("@side", s)


SELF = ("@self",)


def is_tree(v):
    return isinstance(v, tuple) and v and isinstance(v[0], str) and not v[0].startswith("@")


LEAF_RENDER = {"noneLit": ".noneLit", "errors2": ".errors2"}


def render(t):
    """Lean text of a CondExpr tree (parenthesised unless it is a bare constructor)."""
    k = t[0]
    if k == "bound":
        return render(t[2])
    if k in LEAF_RENDER:
        return LEAF_RENDER[k]
    if k in ("value", "isSandboxed", "errors1", "output"):
        return "(.%s .%s)" % (k, t[1])
    if k == "param":
        return "(.param %s)" % lean_str(t[1])
    if k == "boolLit":
        return "(.boolLit %s)" % ("true" if t[1] else "false")
    if k == "tyLit":
        return "(.tyLit .%s)" % t[1]
    if k == "cmp":
        return "(.cmp .%s %s %s)" % (t[1], render(t[2]), render(t[3]))
    return "(.%s %s)" % (k, " ".join(render(c) for c in t[1:]))


TOTAL_CMP = {"eq", "ne", "is_", "isNot"}


def total(t):
    """The model's `eval` of `t` cannot be an error (so binding it to a name loses nothing)."""
    k = t[0]
    if k == "bound":
        return total(t[2])
    if k in ("value", "isSandboxed", "param", "noneLit", "boolLit", "tyLit", "errors1", "errors2"):
        return True
    if k in ("unwrap", "not_", "bool_", "str_", "hasDataclassFields"):
        return total(t[1])
    if k in ("tuple2", "or_", "and_"):
        return total(t[1]) and total(t[2])
    if k == "ite":
        return total(t[1]) and total(t[2]) and total(t[3])
    if k == "cmp":
        return t[1] in TOTAL_CMP and total(t[2]) and total(t[3])
    return False


def strict_ids(t):
    """Ids of the bound sub-expressions that are evaluated whenever `t` evaluates without error."""
    k = t[0]
    if k == "bound":
        return {t[1]} | strict_ids(t[2])
    if k in ("value", "isSandboxed", "param", "noneLit", "boolLit", "tyLit", "errors1", "errors2", "output"):
        return set()
    if k in ("or_", "and_"):
        return strict_ids(t[1])
    if k == "ite":
        return strict_ids(t[1]) | (strict_ids(t[2]) & strict_ids(t[3]))
    if k == "cmp":
        return strict_ids(t[2]) | strict_ids(t[3])
    out = set()
    for c in t[1:]:
        if is_tree(c):
            out |= strict_ids(c)
    return out


# ----------------------------------------------------------------------------------------------
# probes of the functions taken as primitives

_probe_cache = {}


def probe_errors(fn):
    """`fn(*wrappers)` is "some wrapper holds an error" on real operand wrappers (0, 1, 2, 3 of them)."""
    key = ("errors", id(fn))
    if key not in _probe_cache:
        import itertools
        from pedal.assertions.feedbacks import SandboxedValue, ExactValue
        ok = True
        try:
            for n in range(0, 4):
                for flags in itertools.product([False, True], repeat=n):
                    ws = [(SandboxedValue if i % 2 == 0 else ExactValue)(ValueError("probe") if f else i)
                          for i, f in enumerate(flags)]
                    if bool(fn(*ws)) is not any(flags):
                        ok = False
        except Exception:
            ok = False
        _probe_cache[key] = ok
    return _probe_cache[key]


def probe_get_output(fn, holder):
    """`fn(self, wrapper)` is the text the execution the wrapped operand stands for wrote, without its final
    newline - its OWN execution for the result of a call (whatever was executed before or after it, inside open
    CommandBlocks, after closed ones), everything since the last clear_output for the Sandbox. Observed on the tree
    under test at every point of a fixed history with nested blocks and executions that print different texts."""
    key = ("get_output", id(fn))
    if key not in _probe_cache:
        import assertions_common as ac
        import assertions_gen as ag
        from pedal.assertions.feedbacks import SandboxedValue
        steps = [["say", "one"], ["open"], ["say", "two"], ["quiet"], ["sayraw", "three"], ["open"], ["say", "four"],
                 ["evalsay", "five"], ["close"], ["clear_output"], ["say", "six"], ["close"], ["say", "seven"]]
        ok = True
        try:
            ac.setup()
            me = object.__new__(holder)
            for n in range(1, len(steps) + 1):
                prefix = steps[:n]
                out = ag.run_history(prefix)
                for on in [i for i, st in enumerate(prefix) if st[0] in ag.EXEC_KINDS] + ["sandbox"]:
                    operand = ac.get_sandbox() if on == "sandbox" else out["ops"][on]
                    if fn(me, SandboxedValue(operand)) != ac.chomp(ag.hist_expect(prefix, on)[0]):
                        ok = False
        except Exception:
            ok = False
        finally:
            try:
                ag.end_history()
            except Exception:
                ok = False
        _probe_cache[key] = ok
    return _probe_cache[key]


def probe_unwrap(fn):
    """`fn(x)` is x itself for a plain object and the underlying object for a real SandboxResult proxy."""
    key = ("unwrap", id(fn))
    if key not in _probe_cache:
        import assertions_common as ac
        ok = True
        try:
            ac.setup()
            for obj in (5, 2.5, "text", None, True, [1, 2], (1,), {1}, {"a": 1}, int, object(), ValueError("x")):
                if fn(obj) is not obj:
                    ok = False
                if obj is not None and fn(ac.proxy_of(obj)) is not obj:
                    ok = False
        except Exception:
            ok = False
        _probe_cache[key] = ok
    return _probe_cache[key]


# ----------------------------------------------------------------------------------------------

def function_ast(fn):
    """FunctionDef of a plain Python function (no decorators, no closure)."""
    if fn.__closure__ and fn.__code__.co_freevars != ("__class__",):      # (`super()` needs the __class__ cell)
        raise Untranslatable("closure %s" % fn.__name__)
    try:
        src = textwrap.dedent(inspect.getsource(fn))
        node = ast.parse(src).body[0]
    except (OSError, TypeError, SyntaxError, IndexError):
        raise Untranslatable("no source for %s" % getattr(fn, "__name__", "?"))
    if not isinstance(node, ast.FunctionDef) or node.decorator_list:
        # a staticmethod's decorator is part of the source text; the caller has already unwrapped it
        if not (isinstance(node, ast.FunctionDef)
                and all(isinstance(d, ast.Name) and d.id == "staticmethod" for d in node.decorator_list)):
            raise Untranslatable("decorated function %s" % fn.__name__)
    return node


def in_pedal(fn):
    return isinstance(fn, types.FunctionType) and (fn.__module__ or "").split(".")[0] == "pedal"


class CondTranslator:
    def __init__(self, cls, owner, funcdef):
        self.cls = cls
        self.owner = owner
        self.funcdef = funcdef
        self.next_id = 0
        self.depth = 0
        # where global names of the code being read are looked up, and whose `super()` it is
        self.globals = vars(sys.modules[owner.__module__])
        self.super_after = owner

    # ---- entry --------------------------------------------------------------------------
    def run(self):
        fd = self.funcdef
        args = [a.arg for a in fd.args.args]
        if len(args) < 3 or fd.args.vararg or fd.args.kwarg or fd.args.kwonlyargs or fd.args.posonlyargs:
            raise Untranslatable("signature")
        env = {args[0]: SELF, args[1]: SIDE("left"), args[2]: SIDE("right")}
        for p in args[3:]:
            env[p] = ("param", p)
        return self.block(list(fd.body), env, self.fell_off)

    def fell_off(self, env):
        raise Untranslatable("falls off the end")

    def fresh(self):
        self.next_id += 1
        return self.next_id

    def bind(self, value):
        """What a name is bound to; returns (symbolic value, id to check or None)."""
        if is_tree(value) and not total(value):
            i = self.fresh()
            return ("bound", i, value), i
        return value, None

    def check_used(self, ids, result, what):
        missing = [i for i in ids if i is not None and i not in strict_ids(result)]
        if missing:
            raise Untranslatable("%s: a possibly-raising expression is not evaluated on every path" % what)

    # ---- statements ---------------------------------------------------------------------
    def block(self, stmts, env, k):
        """Translate `stmts` then continue with `k(env)` when control falls off the end."""
        if not stmts:
            return k(env)
        s, rest = stmts[0], stmts[1:]
        if isinstance(s, ast.Expr) and isinstance(s.value, ast.Constant) and isinstance(s.value.value, str):
            return self.block(rest, env, k)
        if isinstance(s, ast.Pass):
            return self.block(rest, env, k)
        if isinstance(s, ast.Return):
            if s.value is None:
                raise Untranslatable("bare return")
            return self.expr(s.value, env)
        if isinstance(s, ast.AnnAssign) and s.value is not None and s.simple and isinstance(s.target, ast.Name):
            s = ast.Assign(targets=[s.target], value=s.value)
        if isinstance(s, ast.Assign):
            if len(s.targets) != 1:
                raise Untranslatable("chained assignment")
            tgt = s.targets[0]
            if isinstance(tgt, ast.Name):
                pairs = [(tgt.id, self.val(s.value, env))]
            elif (isinstance(tgt, (ast.Tuple, ast.List)) and isinstance(s.value, (ast.Tuple, ast.List))
                  and len(tgt.elts) == len(s.value.elts) and all(isinstance(e, ast.Name) for e in tgt.elts)
                  and not any(isinstance(e, ast.Starred) for e in s.value.elts)):
                pairs = [(t.id, self.val(v, env)) for t, v in zip(tgt.elts, s.value.elts)]
            else:
                raise Untranslatable("assignment target")
            env2 = dict(env)
            ids = []
            for name, v in pairs:
                v, i = self.bind(v)
                ids.append(i)
                env2[name] = v
            result = self.block(rest, env2, k)
            self.check_used(ids, result, "assignment")
            return result
        if isinstance(s, ast.If):
            t = self.expr(s.test, env)
            a = self.block(list(s.body), env, lambda e: self.block(rest, e, k))
            b = self.block(list(s.orelse), env, lambda e: self.block(rest, e, k))
            return ("ite", t, a, b)
        if isinstance(s, ast.For):
            return self.for_loop(s, rest, env)
        raise Untranslatable(type(s).__name__)

    def for_loop(self, s, rest, env):
        """`for x in NEEDLES: if x not in HAY: return <b>` followed by `return <not b>`."""
        if (s.orelse or not isinstance(s.target, ast.Name) or len(s.body) != 1 or not isinstance(s.body[0], ast.If)
                or s.body[0].orelse or len(s.body[0].body) != 1 or not isinstance(s.body[0].body[0], ast.Return)
                or not rest or not isinstance(rest[0], ast.Return)):
            raise Untranslatable("for loop")
        inner, after = s.body[0].body[0].value, rest[0].value
        if not (isinstance(inner, ast.Constant) and isinstance(after, ast.Constant)
                and isinstance(inner.value, bool) and isinstance(after.value, bool) and inner.value != after.value):
            raise Untranslatable("for loop results")
        found_missing = self.membership_elt(s.body[0].test, s.target.id, env)   # (negated?, hay)
        if found_missing is None:
            raise Untranslatable("for loop test")
        negated, hay = found_missing
        if not negated:
            raise Untranslatable("for loop: any-in")
        # the loop returns `inner` as soon as some element is missing, else `after`
        all_in = ("allIn", self.expr(s.iter, env), hay)
        return ("not_", all_in) if inner.value else all_in

    def membership_elt(self, elt, var, env):
        """`var in HAY` / `var not in HAY` / `not (var in HAY)` -> (negated, HAY tree)."""
        negated = False
        while isinstance(elt, ast.UnaryOp) and isinstance(elt.op, ast.Not):
            negated = not negated
            elt = elt.operand
        if not (isinstance(elt, ast.Compare) and len(elt.ops) == 1 and isinstance(elt.ops[0], (ast.In, ast.NotIn))
                and isinstance(elt.left, ast.Name) and elt.left.id == var):
            return None
        if isinstance(elt.ops[0], ast.NotIn):
            negated = not negated
        env2 = {k: v for k, v in env.items() if k != var}
        hay_node = elt.comparators[0]
        if any(isinstance(n, ast.Name) and n.id == var for n in ast.walk(hay_node)):
            return None
        return negated, self.expr(hay_node, env2)

    # ---- expressions --------------------------------------------------------------------
    def expr(self, n, env):
        v = self.val(n, env)
        if not is_tree(v):
            raise Untranslatable("not a value: %s" % ast.unparse(n))
        return v

    def side_of(self, n, env):
        v = self.val(n, env)
        if isinstance(v, tuple) and v[0] == "@side":
            return v[1]
        return None

    def global_name(self, name):
        if name in self.globals:
            return True, self.globals[name]
        if hasattr(builtins, name):
            return True, getattr(builtins, name)
        return False, None

    def val(self, n, env):
        if isinstance(n, ast.Constant):
            if n.value is None:
                return ("noneLit",)
            if n.value is True:
                return ("boolLit", True)
            if n.value is False:
                return ("boolLit", False)
            raise Untranslatable("constant %r" % (n.value,))
        if isinstance(n, ast.Name):
            if n.id in env:
                return env[n.id]
            found, obj = self.global_name(n.id)
            if not found:
                raise Untranslatable("name %s" % n.id)
            return self.python_object(obj, n.id)
        if isinstance(n, ast.Attribute):
            base = self.val(n.value, env)
            if base[0] == "@side":
                if n.attr == "value":
                    return ("value", base[1])
                if n.attr == "is_sandboxed":
                    return ("isSandboxed", base[1])
                if n.attr == "is_error":
                    return ("errors1", base[1])
                raise Untranslatable("operand attribute .%s" % n.attr)
            if base == SELF:
                return self.self_attribute(n.attr)
            if base[0] == "@module":
                if base[1] is operator and n.attr in OPERATOR_FUNCS and getattr(operator, n.attr, None) is not None:
                    return ("@op", OPERATOR_FUNCS[n.attr])
                if base[1] is __import__("re") and n.attr == "search":
                    return ("@re.search",)
                raise Untranslatable("module attribute .%s" % n.attr)
            if is_tree(base) and n.attr == "_actual_value":
                return ("actualValue", base)
            if is_tree(base) and n.attr == "lower":
                return ("@lower", base)
            raise Untranslatable("attribute .%s" % n.attr)
        if isinstance(n, ast.IfExp):
            return ("ite", self.expr(n.test, env), self.expr(n.body, env), self.expr(n.orelse, env))
        if isinstance(n, ast.UnaryOp) and isinstance(n.op, ast.Not):
            return ("not_", self.expr(n.operand, env))
        if isinstance(n, ast.BoolOp):
            ctor = "or_" if isinstance(n.op, ast.Or) else "and_"
            vals = [self.expr(v, env) for v in n.values]
            out = vals[-1]
            for v in reversed(vals[:-1]):
                out = (ctor, v, out)
            return out
        if isinstance(n, ast.Compare):
            if len(n.ops) != 1 or type(n.ops[0]) not in CMP:
                raise Untranslatable("comparison chain")
            return ("cmp", CMP[type(n.ops[0])], self.expr(n.left, env), self.expr(n.comparators[0], env))
        if isinstance(n, ast.Tuple) and len(n.elts) == 2:
            return ("tuple2", self.expr(n.elts[0], env), self.expr(n.elts[1], env))
        if isinstance(n, ast.Call):
            return self.call(n, env)
        raise Untranslatable(type(n).__name__)

    def python_object(self, obj, name):
        """A global / builtin / class-attribute object as a symbolic value."""
        if obj is None:
            return ("noneLit",)
        if obj is True or obj is False:
            return ("boolLit", obj)
        for tn, tag in TYPE_NAMES.items():
            if obj is getattr(builtins, tn):
                return ("tyLit", tag)
        if isinstance(obj, types.ModuleType):
            return ("@module", obj)
        if isinstance(obj, types.BuiltinFunctionType) and getattr(obj, "__module__", None) in ("_operator", "operator"):
            oname = obj.__name__
            if oname in OPERATOR_FUNCS and getattr(operator, oname) is obj:
                return ("@op", OPERATOR_FUNCS[oname])
        for bname in ("len", "isinstance", "hasattr", "all", "any"):
            if obj is getattr(builtins, bname):
                return ("@builtin", bname)
        if in_pedal(obj):
            return ("@func", obj, None)
        raise Untranslatable("name %s" % name)

    def self_attribute(self, attr):
        """`self.<attr>`: a method to call or a class attribute of the concrete assertion class."""
        holder = None
        for k in self.cls.__mro__:
            if attr in k.__dict__:
                holder = k
                break
        if holder is None:
            raise Untranslatable("self.%s" % attr)
        if self.assigned_on_instances(attr):
            raise Untranslatable("self.%s is assigned on instances" % attr)
        raw = holder.__dict__[attr]
        if isinstance(raw, staticmethod):
            fn = raw.__func__
            if in_pedal(fn):
                return ("@func", fn, None)
            return self.python_object(fn, "self." + attr)
        if isinstance(raw, (classmethod, property)):
            raise Untranslatable("self.%s descriptor" % attr)
        if isinstance(raw, types.FunctionType):
            if attr == "get_output":
                if not probe_get_output(raw, holder):
                    raise Untranslatable("self.get_output(X) is not the text X's own execution wrote")
                return ("@get_output",)
            if in_pedal(raw):
                return ("@func", raw, SELF)
            raise Untranslatable("self.%s" % attr)
        if raw is None or raw is True or raw is False or isinstance(raw, types.BuiltinFunctionType):
            return self.python_object(raw, "self." + attr)
        raise Untranslatable("self.%s" % attr)

    def assigned_on_instances(self, attr):
        """Is `self.<attr>` (or setattr) assigned anywhere in the classes the assertion inherits from?"""
        for k in self.cls.__mro__:
            if k is object:
                continue
            try:
                tree = ast.parse(textwrap.dedent(inspect.getsource(k)))
            except (OSError, TypeError, SyntaxError):
                return True
            for node in ast.walk(tree):
                targets = []
                if isinstance(node, ast.Assign):
                    targets = node.targets
                elif isinstance(node, (ast.AugAssign, ast.AnnAssign)):
                    targets = [node.target]
                for t in targets:
                    for sub in ast.walk(t):
                        if (isinstance(sub, ast.Attribute) and sub.attr == attr
                                and isinstance(sub.value, ast.Name) and sub.value.id == "self"):
                            return True
                # (a setattr with a computed name - Feedback._finalize applying a pool's text overrides - is not
                #  taken as an assignment of this attribute)
                if (isinstance(node, ast.Call) and isinstance(node.func, ast.Name) and node.func.id == "setattr"
                        and len(node.args) >= 2 and isinstance(node.args[0], ast.Name) and node.args[0].id == "self"
                        and isinstance(node.args[1], ast.Constant) and node.args[1].value == attr):
                    return True
        return False

    # ---- calls --------------------------------------------------------------------------
    def call(self, n, env):
        if any(k.arg is None for k in n.keywords) or any(isinstance(a, ast.Starred) for a in n.args):
            raise Untranslatable("*args / **kwargs")
        kw = {k.arg: k.value for k in n.keywords}
        f = n.func
        # super().condition(...)
        if (isinstance(f, ast.Attribute) and isinstance(f.value, ast.Call) and isinstance(f.value.func, ast.Name)
                and f.value.func.id == "super" and "super" not in env and not f.value.args and not f.value.keywords):
            return self.call_super(f.attr, n.args, kw, env)
        fv = self.val(f, env)
        tag = fv[0]
        if tag == "@builtin":
            return self.call_builtin(fv[1], n, kw, env)
        if tag == "tyLit" and fv[1] in ("str", "bool") and not (isinstance(f, ast.Name) and f.id in env):
            return self.call_builtin(fv[1], n, kw, env)       # str(x), bool(x)
        if tag == "@op":
            return self.apply_operator(fv[1], [self.expr(a, env) for a in n.args], kw)
        if tag == "@re.search":
            if len(n.args) != 2 or kw:
                raise Untranslatable("re.search arguments")
            return ("reSearch", self.expr(n.args[0], env), self.expr(n.args[1], env))
        if tag == "@lower":
            if n.args or kw:
                raise Untranslatable(".lower arguments")
            return ("lower", fv[1])
        if tag == "@get_output":
            if len(n.args) != 1 or kw:
                raise Untranslatable("get_output arguments")
            side = self.side_of(n.args[0], env)
            if not side:
                raise Untranslatable("get_output argument")
            return ("output", side)
        if tag == "@func":
            return self.call_function(fv[1], fv[2], n.args, kw, env)
        raise Untranslatable("call %s" % ast.unparse(f))

    def call_builtin(self, name, n, kw, env):
        if name in ("len", "bool", "str") and len(n.args) == 1 and not kw:
            ctor = {"len": "len", "bool": "bool_", "str": "str_"}[name]
            return (ctor, self.expr(n.args[0], env))
        if name == "isinstance" and len(n.args) == 2 and not kw:
            return ("isinstance", self.expr(n.args[0], env), self.expr(n.args[1], env))
        if name == "hasattr" and len(n.args) == 2 and not kw:
            a = n.args[1]
            is_fields = False
            if isinstance(a, ast.Name) and a.id not in env:
                found, obj = self.global_name(a.id)
                is_fields = found and obj == "__dataclass_fields__"
            elif isinstance(a, ast.Constant):
                is_fields = a.value == "__dataclass_fields__"
            if is_fields:
                return ("hasDataclassFields", self.expr(n.args[0], env))
            raise Untranslatable("hasattr")
        if name in ("all", "any") and len(n.args) == 1 and not kw and isinstance(n.args[0], (ast.GeneratorExp, ast.ListComp)):
            g = n.args[0]
            if len(g.generators) == 1 and not g.generators[0].ifs and not g.generators[0].is_async:
                c = g.generators[0]
                if isinstance(c.target, ast.Name):
                    m = self.membership_elt(g.elt, c.target.id, env)
                    if m is not None:
                        negated, hay = m
                        all_in = ("allIn", self.expr(c.iter, env), hay)
                        if name == "all" and not negated:
                            return all_in                       # all(x in h for x in ns)
                        if name == "any" and negated:
                            return ("not_", all_in)             # any(x not in h for x in ns)
            raise Untranslatable("%s(...)" % name)
        raise Untranslatable("call %s" % name)

    def apply_operator(self, kind, args, kw):
        if kw:
            raise Untranslatable("operator keywords")
        if kind in ("not_", "truth"):
            if len(args) != 1:
                raise Untranslatable("operator arity")
            return ("not_" if kind == "not_" else "bool_", args[0])
        if len(args) != 2:
            raise Untranslatable("operator arity")
        if kind == "contains":
            return ("cmp", "in_", args[1], args[0])
        return ("cmp", kind, args[0], args[1])

    def call_super(self, attr, args, kw, env):
        if attr != self.funcdef.name and attr != "condition":
            raise Untranslatable("super().%s" % attr)
        mro = list(self.cls.__mro__)
        if self.super_after not in mro:
            raise Untranslatable("super()")
        for k in mro[mro.index(self.super_after) + 1:]:
            if attr in k.__dict__:
                raw = k.__dict__[attr]
                if not in_pedal(raw):
                    raise Untranslatable("super().%s" % attr)
                return self.call_function(raw, SELF, args, kw, env, owner=k)
        raise Untranslatable("super().%s not found" % attr)

    def call_function(self, fn, self_val, args, kw, env, owner=None):
        """A primitive, or an inlined call of one of pedal's own plain functions."""
        import pedal.utilities.comparisons as comparisons
        import pedal.sandbox.result as result
        import pedal.assertions.runtime as rt
        if self_val is None:
            if fn.__name__ == "errors" and fn.__module__ == rt.__name__:
                if kw or not probe_errors(fn):
                    raise Untranslatable("errors(...) does not test is_error of its arguments")
                sides = [self.side_of(a, env) for a in args]
                if sorted(sides, key=str) == ["left", "right"]:
                    return ("errors2",)
                if len(sides) == 1 and sides[0]:
                    return ("errors1", sides[0])
                raise Untranslatable("errors(...) arguments")
            if fn is result.unwrap_value:
                if kw or len(args) != 1 or not probe_unwrap(fn):
                    raise Untranslatable("unwrap_value")
                return ("unwrap", self.expr(args[0], env))
            if fn is comparisons.equality_test:
                names = ["actual", "expected", "_exact_strings", "_delta"]
                if list(inspect.signature(fn).parameters)[:4] != names:
                    raise Untranslatable("equality_test signature")
                got = dict(zip(names, args))
                for k, v in kw.items():
                    if k not in names or k in got:
                        raise Untranslatable("equality_test keyword")
                    got[k] = v
                if set(got) != set(names) or len(args) > 4:
                    raise Untranslatable("equality_test arity")
                return ("equalityTest",) + tuple(self.expr(got[k], env) for k in names)
        # ---- inline ----
        if self.depth >= MAX_INLINE_DEPTH:
            raise Untranslatable("inlining too deep (%s)" % fn.__name__)
        fd = function_ast(fn)
        a = fd.args
        if a.vararg or a.kwarg or a.posonlyargs:
            raise Untranslatable("signature of %s" % fn.__name__)
        params = [p.arg for p in a.args]
        defaults = dict(zip(params[len(params) - len(a.defaults):], a.defaults))
        for p, d in zip(a.kwonlyargs, a.kw_defaults):
            params.append(p.arg)
            if d is not None:
                defaults[p.arg] = d
        bound = {}
        positional = [p.arg for p in a.args]
        if self_val is not None:
            if not positional:
                raise Untranslatable("method without self")
            bound[positional[0]] = self_val
            positional = positional[1:]
        if len(args) > len(positional):
            raise Untranslatable("too many arguments for %s" % fn.__name__)
        for p, arg in zip(positional, args):
            bound[p] = self.val(arg, env)
        for k, v in kw.items():
            if k not in params or k in bound:
                raise Untranslatable("keyword %s of %s" % (k, fn.__name__))
            bound[k] = self.val(v, env)
        saved = (self.globals, self.super_after, self.funcdef, self.depth)
        self.globals = vars(sys.modules[fn.__module__])
        if owner is not None:
            self.super_after = owner
        self.funcdef = fd
        self.depth += 1
        try:
            for p in params:
                if p not in bound:
                    if p not in defaults:
                        raise Untranslatable("missing argument %s of %s" % (p, fn.__name__))
                    bound[p] = self.val(defaults[p], {})
            env2 = {}
            ids = []
            for p in params:
                v, i = self.bind(bound[p])
                ids.append(i)
                env2[p] = v
            result_tree = self.block(list(fd.body), env2, self.fell_off)
            self.check_used(ids, result_tree, "call of %s" % fn.__name__)
            return result_tree
        finally:
            self.globals, self.super_after, self.funcdef, self.depth = saved


def find_funcdef(cls):
    """AST of the `condition` method `cls` uses, plus the class that defines it."""
    for k in cls.__mro__:
        if "condition" in k.__dict__:
            owner = k
            break
    else:
        return None, None
    fn = owner.__dict__["condition"]
    if not isinstance(fn, types.FunctionType):
        return None, owner
    try:
        return function_ast(fn), owner
    except Untranslatable:
        return None, owner


def translate_class(cls):
    fd, owner = find_funcdef(cls)
    if fd is None:
        return '(.opaque "no condition source")', False
    try:
        return render(CondTranslator(cls, owner, fd).run()), True
    except Untranslatable as e:
        src = ast.unparse(fd)
        return "(.opaque %s)" % lean_str("%s: %s" % (e, " ".join(src.split())[:200])), False
    except Exception as e:          # a defect of this reader must never look like a fact about the code
        return "(.opaque %s)" % lean_str("reader failed (%s: %s)" % (type(e).__name__, str(e)[:120])), False


def assertion_classes():
    import pedal.assertions.runtime as rt
    from pedal.assertions.feedbacks import RuntimeAssertionFeedback
    out = []
    for name, obj in vars(rt).items():
        if (isinstance(obj, type) and issubclass(obj, RuntimeAssertionFeedback)
                and obj.__module__ == rt.__name__ and obj.__name__ == name and not name.startswith("_")):
            out.append((name, obj))
    return sorted(out)


def measure_guard():
    """Observe what RuntimeAssertionFeedback.__init__ does with a raising condition / an error operand."""
    import assertions_common as ac
    from pedal.assertions.feedbacks import RuntimeAssertionFeedback, SandboxedValue
    ac.setup()

    class _probe(RuntimeAssertionFeedback):
        _expected_verb = "to be"
        _inverse_operator = "is not"

        def __init__(self, left, right, mode):
            self._mode = mode
            super().__init__(SandboxedValue(left), SandboxedValue(right))

        def condition(self, left, right):
            if self._mode == "raise":
                raise TypeError("probe")
            return False

    def observe(fn):
        try:
            return bool(fn())
        except Exception:
            return False
        finally:
            ac.clear_report()

    raising = observe(lambda: _probe(1, 2, "raise"))
    err_left = observe(lambda: _probe(ac.error_operand(), 2, "quiet"))
    err_right = observe(lambda: _probe(1, ac.error_operand(), "quiet"))
    plain = observe(lambda: _probe(1, 2, "quiet"))
    return {"raisingConditionFires": raising and not plain, "errorOperandFires": err_left and err_right and not plain}


def translate():
    use_repo()
    import pedal.assertions.runtime as rt
    _probe_cache.clear()
    classes = assertion_classes()
    lines = [
        "import PedalModel.AssertionsCond",
        "/- GENERATED by harness/translate_assertions.py from the tree under test. Do not edit. -/",
        "namespace Pedal.Gen.Assertions",
        "open Pedal.Assertions",
        "",
    ]
    info = {}
    table = []
    for name, cls in classes:
        expr, ok = translate_class(cls)
        info[name] = "ok" if ok else "opaque"
        lines.append("def cond_%s : CondExpr :=\n  %s" % (name, expr[1:-1] if expr.startswith("(") else expr))
        lines.append("")
        table.append("(%s, cond_%s)" % (lean_str(name), name))
    guard = measure_guard()
    lines.append("def table : List (String × CondExpr) :=\n  [" + ",\n   ".join(table) + "]")
    lines.append("")
    lines.append("def wrapperGuard : Guard := { errorOperandFires := %s, raisingConditionFires := %s }" % (
        "true" if guard["errorOperandFires"] else "false", "true" if guard["raisingConditionFires"] else "false"))
    num, den = float(rt.assert_equal.DELTA).as_integer_ratio()
    k = den.bit_length() - 1
    assert den == 1 << k
    lines.append("def defaultDelta : Int × Nat := (%d, %d)" % (num, k))
    lines.append("")
    lines.append("end Pedal.Gen.Assertions")
    lines.append("")
    src = "\n".join(lines)
    path = os.path.join(LEAN_DIR, "PedalModel", "Gen", "AssertionConds.lean")
    changed = write_if_changed(path, src)
    return {"file": "PedalModel/Gen/AssertionConds.lean", "sha1": hashlib.sha1(src.encode()).hexdigest()[:12],
            "changed": changed, "conditions": info, "guard": guard}


if __name__ == "__main__":
    import json
    print(json.dumps(translate(), indent=1))

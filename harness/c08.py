"""C08 — static ensure_*/prevent_* checks agree with the student's actual syntax tree."""
import ast
import itertools
import json
import os
import sys

from common import VERIF, CorrResult, Failure, run_check, use_repo

use_repo()
import staticchecks_common as sc                      # noqa: E402
from translate_operators import translate             # noqa: E402

THEOREMS = [
    "Pedal.Static.c08_symbol_table_agrees",
    "Pedal.Static.c08_find_all_is_walk_filter",
    "Pedal.Static.c08_find_all_plain",
    "Pedal.Static.c08_find_operation_count",
    "Pedal.Static.c08_find_operation_mem",
    "Pedal.Static.c08_operator_families_plain",
    "Pedal.Static.c08_find_function_calls",
    "Pedal.Static.c08_literal_same_type",
    "Pedal.Static.c08_literal_type_mem",
    "Pedal.Static.c08_literal_type_count",
    "Pedal.Static.c08_has_import_iff",
    "Pedal.Static.c08_ensure_fires_iff",
    "Pedal.Static.c08_prevent_fires_iff",
    "Pedal.Static.c08_use_count",
    "Pedal.Static.c08_ensure_prevent_agree_with_walk",
    "Pedal.Static.c08_line_is_one_of_them",
]
NOTES = [
    "the student's program is a rose tree built by the harness from ast.parse (kind, parent field, lineno/col_offset, "
    "primitive fields, children in ast.iter_fields order); CaitNode wrapping is not modelled beyond that",
    "thresholds are naturals (negative at_least/at_most are outside the property)",
    "literal queries cover non-negative finite int/float, bool and str literals whose repr() is a single Constant; "
    "None, negative numbers (a UnaryOp pattern), inf/nan, bytes, tuples are outside the model (answered 'unmodelled')",
    "find_matches(repr(literal)) is modelled as 'every Constant of the pre-order walk whose value == the literal' "
    "(the stretchy matcher itself is C10/C11's subject); floats travel as exact as_integer_ratio() pairs",
    "an augmented assignment (x += 1) is not an occurrence of the binary symbol '+': the oracle counts BinOp/BoolOp/"
    "UnaryOp/Compare operator positions only, with the operator class CPython's own parser gives for `a <sym> b`",
    "ensure_import/prevent_import ignore at_least/at_most by documentation; they are checked at their defaults",
    "the model has no notion of a Report: model and oracle are handed the tree of the program of the report that was "
    "NAMED in the call (MAIN_REPORT when none is); which Report object holds it, and what the other live report holds "
    "meanwhile (a decoy program / nothing), is varied on the real-code side only",
]


def corpus_cases():
    d = os.path.join(VERIF, "corpus", "C08")
    out = []
    if os.path.isdir(d):
        for name in sorted(os.listdir(d)):
            if name.endswith(".json"):
                with open(os.path.join(d, name)) as fh:
                    out.append(json.load(fh)["src"])
    return out


SEED_PROGRAMS = [
    "a = 1 <= 2 >= 3\nb = 1 << 2 >> 3\nc = ~1 @ 2 ^ 3 | 4 & 5\nd = not (1 is not None) and (2 not in [3]) or 5 // 2 % 3 ** 2\n",
    "x = 1\ny = True\nz = 1.0\nw = '1'\nprint(1, 1.0, True, 'a', f'a{x}', -1, None, 0, False, 0.0)\n",
    "import os, sys as s\nfrom os import path\nimport os.path\nfrom . import q\n",
    "x = 1 < 2 < 3 < 4\nx += 1\nx = +x - -x\nprint(print(x).print(), x.print)\n",
    "",
    "1\n",
    "x = 0\r\ny = 0.0 == False\r\nz = '' or 0j\r\nprint(x <= y <= z, 1, 1.0, True)\r\n",
    "a = 1\rb = a < 2 <= 3\rprint(b)\r",
    "\x0cx = 1\n\x0cif x >= 1 >= 0:\n    print(x >> 1 << 2)  # \x0b \x85 \u2028\n",
    "\u00e9t\u00e9 = 1\n\u540d = \u00e9t\u00e9 + 1\nprint(\u540d, '\u540d')\n",
]


def evaluate_real(src, queries, rng, full_rate, where=None):
    """Run the real finders and ensure_/prevent_ checks for every query on `src` (main file under a default or a
    non-default name; threshold passed by keyword, positionally, or through the alias / with an explicit root).
    `where` (sc.pick_where) says WHICH REPORT holds `src` and is named in every call (report=), and what the other
    live report holds meanwhile (a decoy program / nothing); None = MAIN_REPORT alone, no report= given."""
    sc.load(src, rng.choice([None, None, "student_main.py", "hw/q1.py"]), where)
    res = []
    # history dimension: the instructor may look at OTHER code through the public student_code= argument
    # (a reference solution, a snippet) between two checks of the submission; the default-root checks
    # must still talk about the student's program (stale "current tree" state would show here).
    distract = rng.random() < (0.35 if where is None or where["mode"] == "main" else 0.5)
    if distract and rng.random() < 0.5:
        sc.distract(rng, src)          # even before the submission was ever parsed
    for q in queries:
        kind = q[0]
        if distract and rng.random() < 0.4:
            sc.distract(rng, src)
        rec = {"find": sc.real_find(q), "checks": {}}
        if kind == "imp":
            rec["checks"][("ensure", None)] = sc.real_check(q, "ensure", None)
            rec["checks"][("prevent", None)] = sc.real_check(q, "prevent", None)
        else:
            first = sc.real_check(q, "ensure", 0)
            rec["checks"][("ensure", 0)] = first
            count = first.get("count") if isinstance(first.get("count"), int) else 0
            full = rng.random() < full_rate
            for thr in sc.thresholds_for(count, rng, full):
                sp = rng.choice([0, 0, 1, 2])
                if distract and rng.random() < 0.2:
                    sc.distract(rng, src)      # also between the finder and the checks / two checks of one query
                if thr != 0:
                    rec["checks"][("ensure", thr)] = sc.real_check(q, "ensure", thr, sp)
                rec["checks"][("prevent", thr)] = sc.real_check(q, "prevent", thr, sp)
        res.append(rec)
    return res


def compare_model(q, rec, model):
    """-> (list of disagreeing aspects, notes)"""
    bad, notes = [], []
    kind = q[0]
    if model is None or model == "unmodelled":
        return ["model-" + str(model)], notes
    if kind == "imp":
        e, p = rec["checks"][("ensure", None)], rec["checks"][("prevent", None)]
        if e.get("fired") != (not model["has"]) or p.get("fired") != model["has"]:
            bad.append("import")
        return bad, notes
    if rec["find"] is not None:
        if isinstance(rec["find"], dict) or sorted(rec["find"], key=repr) != sorted(model["nodes"], key=repr):
            bad.append("finder")
        elif rec["find"] != model["nodes"]:
            notes.append("finder-order-differs")
    lines = {n[1] for n in model["nodes"]}
    for (which, thr), r in rec["checks"].items():
        if "error" in r:
            bad.append("raises")
            continue
        bits = model["ens" if which == "ensure" else "prev"]
        if thr >= len(bits):
            continue
        if r["fired"] != (bits[thr] == "1"):
            bad.append(which)
        if r["count"] != model["count"]:
            bad.append("count")
        if r["line"] is not None and r["line"] != model["line"]:
            if r["line"] in lines:
                notes.append("line-choice-differs")
            else:
                bad.append("line")
    return sorted(set(bad)), notes


def judge(src, q, rec, tree=None):
    """Real results vs the property's oracle.  -> None or (signature, what, detail)"""
    kind, arg = q
    tree = tree or ast.parse(src)
    occ = sc.oracle_nodes(tree, q)
    if occ is None:
        return None
    c = len(occ)
    keys = sorted((sc.node_key(n) for n in occ), key=repr)
    lines = {k[1] for k in keys}
    label = {"op": lambda: {"sym": arg}, "call": lambda: {}, "lit": lambda: {"literal_type": type(arg).__name__},
             "lty": lambda: {"literal_type": arg.__name__}, "ast": lambda: {"node": arg if arg in ("Num", "Str", "Bool") else "*"},
             "imp": lambda: {}}[kind]()

    def sig(fails):
        s = {"query": kind, "fails": fails}
        s.update(label)
        return s
    shown = repr(arg.__name__ if kind == "lty" else arg)
    if rec["find"] is not None:
        if isinstance(rec["find"], dict):
            return sig("raises"), "%s finder raised %s for %s" % (kind, rec["find"]["error"], shown), None
        if sorted(rec["find"], key=repr) != keys:
            return (sig("finder"), "finder for %s %s returned %d nodes, a plain walk finds %d"
                    % (kind, shown, len(rec["find"]), c), None)
    for (which, thr), r in rec["checks"].items():
        if "error" in r:
            return sig("raises"), "%s_%s(%s, %s) raised %s" % (which, kind, shown, thr, r["error"]), (which, thr)
        if kind == "imp":
            want = (c < 1) if which == "ensure" else (c > 0)
        else:
            want = (c < thr) if which == "ensure" else (c > thr)
        if r["fired"] != want:
            return (sig(which), "%s_%s(%s, threshold %s) %s although a plain walk finds %d occurrence(s)"
                    % (which, kind, shown, thr, "fired" if r["fired"] else "did not fire", c), (which, thr))
        if kind != "imp" and r["count"] != c:
            return (sig("count"), "%s_%s(%s) counted %s, a plain walk finds %d" % (which, kind, shown, r["count"], c),
                    (which, thr))
        if r["line"] is not None and c > 0 and r["line"] not in lines:
            return (sig("line"), "%s_%s(%s) reported line %s, occurrences are on %s"
                    % (which, kind, shown, r["line"], sorted(l for l in lines if l is not None)), (which, thr))
    return None


def shrink(src, q, signature, rng, where=None):
    """Drop top-level statements while the same failure persists."""
    def fails(s):
        try:
            tree = ast.parse(s)
        except SyntaxError:
            return False
        if where is not None and where.get("decoy") == s:
            return False
        rec = evaluate_real(s, [q], rng, 1.0, where)[0]
        v = judge(s, q, rec, tree)
        return v is not None and v[0] == signature
    try:
        body = ast.parse(src).body
    except SyntaxError:
        return src
    parts = [ast.unparse(b) for b in body]
    cand = "\n".join(parts) + "\n"
    if not fails(cand):
        return src
    changed = True
    while changed and len(parts) > 1:
        changed = False
        for i in range(len(parts)):
            trial = parts[:i] + parts[i + 1:]
            if fails("\n".join(trial) + "\n"):
                parts = trial
                changed = True
                break
    return "\n".join(parts) + "\n"


def q_json(q):
    kind, arg = q
    if kind == "lty":
        return [kind, arg.__name__]
    if kind == "lit":
        return [kind, type(arg).__name__, repr(arg)]
    return [kind, arg]


def q_from_json(j):
    kind = j[0]
    if kind == "lty":
        return (kind, {t.__name__: t for t in sc.LITERAL_TYPES}[j[1]])
    if kind == "lit":
        return (kind, ast.literal_eval(j[2]))
    return (kind, j[1])


def programs(rng, tier):
    gen = sc.Gen(rng)
    corpus = sc.corpus_sources()
    out = [("seed", s) for s in SEED_PROGRAMS] + [("corpus", s) for s in corpus_cases()]
    if tier == "quick":
        small = [c for c in corpus if len(c[1]) <= 1500]
        picks = rng.sample(small, min(5, len(small)))
        n = 24
    else:
        picks = [c for c in corpus if len(c[1]) <= 4000]
        n = 300
    out += [("repo:" + name, s) for name, s in picks]
    out += [("gen", gen.program()) for _ in range(n)]
    return out


def correspond(rng, tier, driver):
    res = CorrResult()
    res.rule = ("programs = seeds + corpus + example/test programs of the tree + grammar-generated valid programs; per program "
                "every operator symbol CPython has (+ bogus ones), call names, literals (+ the same number in the other "
                "scalar types), the six literal types, ~60 node names, module names; real = find_operation/"
                "find_function_calls/find_asts and ensure_*/prevent_* at thresholds 0-4 and count-1..count+1; model = "
                "Pedal.Static.uses/ensureFires/preventFires/reportedLine/hasImport on the harness-built tree OF THE "
                "PROGRAM OF THE REPORT THAT WAS NAMED (which report: MAIN_REPORT by default / spelled out / an own Report() "
                "while the other live report holds a decoy program or nothing; other code and the other report are looked "
                "at between checks); "
                "non-trivial = a query with at least one occurrence")
    progs = programs(rng, tier)
    cases, lines = [], []
    for origin, src in progs:
        try:
            tree = ast.parse(src)
        except SyntaxError:
            continue
        big = sum(1 for _ in ast.walk(tree)) > 150
        qs = sc.queries_for(src, rng, full=not big)
        where = sc.pick_where(rng, src)
        real = evaluate_real(src, qs, rng, 0.15 if tier == "quick" else 0.3, where)
        cases.append((origin, src, qs, real, where))
        lines.append(sc.request_line(src, qs))
    answers = driver.ask(lines)
    for (origin, src, qs, real, where), line, ans in zip(cases, lines, answers):
        model = sc.parse_answer(ans, len(qs))
        res.count("origin:" + origin.split(":")[0])
        res.count("report:" + where["mode"])
        if model is None:
            res.evaluations += 1
            res.disagreements.append({"case": {"src": src}, "real": "-", "model": ans[:200], "fields": ["bad-request"]})
            continue
        for q, rec, m in zip(qs, real, model):
            res.evaluations += len(rec["checks"]) + (1 if rec["find"] is not None else 0)
            bad, notes = compare_model(q, rec, m)
            for nt in notes:
                res.count(nt)
            res.count("query:" + q[0])
            cnt = m.get("count", int(m.get("has", False))) if isinstance(m, dict) else 0
            res.count("count=%s" % (cnt if cnt < 3 else "3+"))
            if cnt:
                res.nontrivial.add(json.dumps([src, q_json(q)]))
            if bad:
                res.disagreements.append({"case": {"src": src, "query": q_json(q), "where": where}, "fields": bad,
                                          "real": {"find": rec["find"], "checks": {"%s@%s" % k: v for k, v in rec["checks"].items()}},
                                          "model": m})
    res.samples = [{"src": c[1][:300], "queries": len(c[2])} for c in cases[-3:]]
    res.cases = cases
    return res


def small_scope():
    """Every program of <= 2 statements over a reduced statement alphabet."""
    stmts = ["x = 1", "x = True", "x = 1.0", "x = 0", "x = False", "x = 'a'", "print(1 <= 2 >= 1)", "y = 1 << 2 >> 3",
             "y = x <= 1", "y = x >= 1", "y = x < 1 < 2", "f(x).f()", "x.f(f)", "import os", "from os import path",
             "import os.path", "y = [1, [True]]", "y = {1: 1.0}", "y = not x and x or ~x", "y = -x + +x - x",
             "x += 1", "y = 'a' 'a'", "def f():\n    return f(1)", "y = x @ x ** x // x"]
    for a in stmts:
        yield a + "\n"
    for a, b in itertools.product(stmts, repeat=2):
        yield a + "\n" + b + "\n"


def search(rng, tier, broken, corr):
    info = {"rule": "real finders and ensure_/prevent_ checks vs counting with plain ast.walk (operator class from CPython's "
                    "own parse of the symbol; literal = same value AND same type; Num/Str/Bool by the constant's type); the "
                    "correspondence programs, more generated programs and (thorough) every program of <= 2 statements "
                    "over a 24-statement alphabet; thresholds 0-4 and count-1..count+1; every program under one of "
                    "five which-report set-ups (the oracle walks the program of the report that was named; the other live "
                    "report holds a decoy program or nothing)",
            "evaluations": 0, "distinct_nontrivial": 0, "samples": [], "skipped": {}, "which_report": {}}
    failures, seen_sigs, nt = [], set(), set()

    def consider(src, qs, real, where=None):
        try:
            tree = ast.parse(src)
        except SyntaxError:
            return
        mode = "main" if where is None else where["mode"]
        info["which_report"][mode] = info["which_report"].get(mode, 0) + len(qs)
        for q, rec in zip(qs, real):
            info["evaluations"] += len(rec["checks"]) + (1 if rec["find"] is not None else 0)
            v = judge(src, q, rec, tree)
            occ = sc.oracle_nodes(tree, q)
            if occ is None:
                info["skipped"]["undocumented-symbol (outside the property)"] = \
                    info["skipped"].get("undocumented-symbol (outside the property)", 0) + 1
            if occ:
                nt.add((src, repr(q_json(q))))
            if v is None or len(failures) >= 8:
                continue
            sig, what, _ = v
            w = where
            if mode != "main":
                # does it need the "which report" set-up at all?  (the same failure with everything on MAIN_REPORT
                # is reported as the plain one)
                vm = judge(src, q, evaluate_real(src, [q], rng, 1.0, None)[0], tree)
                if vm is not None and vm[0] == sig:
                    w, v = None, vm
            elif mode == "main":
                w = None
            full_sig = dict(sig) if w is None else dict(sig, report=w["mode"])
            key = json.dumps(full_sig, sort_keys=True)
            if key in seen_sigs:
                continue
            seen_sigs.add(key)
            small = shrink(src, q, sig, rng, w)
            rec2 = evaluate_real(small, [q], rng, 1.0, w)[0]
            v2 = judge(small, q, rec2)
            if v2 is None or v2[0] != sig:
                small, v2 = src, v
            text = v2[1]
            rp = {"src": small, "query": q_json(q)}
            if w is not None:
                text += " [report: %s%s%s]" % (w["mode"], "" if w["decoy"] is None else
                                               "; the other report holds %r" % w["decoy"][:120],
                                               "; Source verified both first" if w.get("verify") else "")
                rp["where"] = w
            failures.append(Failure(full_sig, text, rp))

    for origin, src, qs, real, where in getattr(corr, "cases", []):
        consider(src, qs, real, where)
        if len(failures) >= 8:
            break
    gen = sc.Gen(rng)
    n = 25 if tier == "quick" else 500
    if broken and not failures:
        n *= 3
    extra = [gen.program(max_stmts=4) for _ in range(n)]
    if tier == "thorough" or (broken and not failures):
        extra += list(small_scope())
    for src in extra:
        if len(failures) >= 8:
            break
        small_q = [q for q in sc.queries_for(src, rng, full=False)]
        where = sc.pick_where(rng, src)
        consider(src, small_q, evaluate_real(src, small_q, rng, 0.3, where), where)
    # the finders asked about EXPLICITLY given code (student_code= / root=parse_program(code)) while the submission
    # is some other, non-empty program: they must walk the code they were given - the empty program, a
    # comment-only one and `pass` included (no occurrence of anything)
    explicit = ["", "\n", "# only a comment\n", "pass\n", "x = 1 + 2\nprint(x < 3 < 4)\n", "import math\nfor i in range(3):\n    print(i)\n"]
    subs = [gen.program(max_stmts=4) for _ in range(3 if tier == "quick" else 20)] + ["while True:\n    print(1 + 1)\n"]
    n_explicit = 0
    for sub in subs:
        for code in explicit:
            if len(failures) >= 8:
                break
            for q in [("ast", "While"), ("ast", "Call"), ("ast", "BinOp"), ("ast", "Name"), ("ast", "Compare"),
                      ("op", "+"), ("op", "<"), ("call", "print")]:
                where = None if rng.random() < 0.5 else sc.pick_where(rng, sub)
                got = sc.real_find_explicit(q, sub, code, where)
                if where is not None and not isinstance(got, dict) and got == sc.real_find_explicit(q, sub, code):
                    where = None              # the plain set-up answers the same: not a which-report matter
                n_explicit += 1
                want = sc.oracle_nodes(ast.parse(code), q)
                if want is None or got is None:
                    continue
                exp = sorted(sc.node_key(n) for n in want)
                if isinstance(got, dict) or sorted(got) != exp:
                    sig = {"fails": "finder", "query": q[0], "explicit_code": "empty" if not code.strip() else
                           ("trivial" if len(code) < 20 else "program")}
                    if where is not None:
                        sig["report"] = where["mode"]
                    key = json.dumps(sig, sort_keys=True)
                    if key not in seen_sigs:
                        seen_sigs.add(key)
                        failures.append(Failure(sig, "%s(%r) asked about explicitly given code %r (submission: another "
                                                     "program) returned %r, a plain walk of that code finds %r"
                                                % (q[0], q[1], code, got, exp),
                                                {"src": sub, "explicit_code": code, "query": q_json(q), "where": where}))
    # the remaining find_* entry points that take report= (function_is_called, find_function_definition) under every
    # which-report set-up: the number of calls / a definition OF THE PROGRAM OF THE REPORT THAT WAS NAMED
    extra_progs = ["def f(x):\n    return f(x - 1)\nprint(f(2), f)\n",
                   "class A:\n    def g(self):\n        def h():\n            pass\n        return self.g(h())\n", "x = 1\n"]
    extra_progs += [gen.program(max_stmts=4) for _ in range(4 if tier == "quick" else 40)]
    n_extra = 0
    for sub in extra_progs:
        for mode in sc.WHERE_MODES:
            if len(failures) >= 8:
                break
            where = {"mode": mode, "decoy": None if mode in ("main", "own+empty") else sc.decoy_for(rng, sub),
                     "verify": rng.random() < 0.4}
            for entry, name, got, want, ok in sc.real_extra(sub, where):
                n_extra += 1
                if ok:
                    continue
                plain = [r for r in sc.real_extra(sub, None) if r[0] == entry and r[1] == name and not r[4]]
                sig = {"fails": "finder", "query": entry}
                if not plain and mode != "main":
                    sig["report"] = mode
                key = json.dumps(sig, sort_keys=True)
                if key in seen_sigs:
                    continue
                seen_sigs.add(key)
                failures.append(Failure(sig, "%s(%r) returned %r, the program of the named report has %r%s"
                                        % (entry, name, got, want, "" if "report" not in sig else
                                           " [report: %s; the other report holds %r]" % (mode, where["decoy"])),
                                        {"extra": entry, "name": name, "src": sub,
                                         "where": where if "report" in sig else None}))
    info["evaluations"] += n_extra
    info["extra_entry_point_queries"] = n_extra
    info["evaluations"] += n_explicit
    info["explicit_code_queries"] = n_explicit
    info["distinct_nontrivial"] = len(nt)
    info["samples"] = [{"src": s[:200], "query": q} for s, q in list(nt)[:3]]
    return failures, info


def replay(payload):
    rp = payload.get("replay") or {}
    if "src" not in rp:
        print(json.dumps(payload, indent=1)[:4000])
        return 0
    import random
    src, q = rp["src"], (q_from_json(rp["query"]) if "query" in rp else None)
    where = rp.get("where")
    if where is not None:
        print("which report:", where["mode"], "- the other report holds:", repr(where["decoy"]))
    if "extra" in rp:
        print("program:\n" + src)
        for r in sc.real_extra(src, where):
            if r[0] == rp["extra"] and r[1] == rp["name"]:
                print("%s(%r) -> %r; the program has %r; ok=%s" % r)
        return 0
    if "explicit_code" in rp:
        print("submission:\n" + src)
        print("explicitly given code:", repr(rp["explicit_code"]), "query:", rp["query"])
        print("real finder:", sc.real_find_explicit(q, src, rp["explicit_code"], where))
        want = sc.oracle_nodes(ast.parse(rp["explicit_code"]), q)
        print("plain ast.walk of the given code finds:", None if want is None else sorted(sc.node_key(n) for n in want))
        return 0
    rec = evaluate_real(src, [q], random.Random(0), 1.0, where)[0]
    tree = ast.parse(src)
    occ = sc.oracle_nodes(tree, q)
    print("program:\n" + src)
    print("query:", rp["query"])
    print("plain ast.walk finds:", None if occ is None else [sc.node_key(n) for n in occ])
    print("real finder:", rec["find"])
    for k, v in rec["checks"].items():
        print("real %s threshold=%s ->" % k, v)
    print("verdict:", judge(src, q, rec, tree))
    return 0


if __name__ == "__main__":
    sys.exit(run_check("C08", proof_modules=["PedalProofs.C08"], theorems=THEOREMS, driver_exe="driver_c08",
                       translate=translate, correspond=correspond, search=search, replay=replay,
                       model_notes=NOTES, leanchecker_modules=["PedalProofs.C08"]))

"""
Regenerates lean/PedalModel/Gen/ProcStateTables.lean from the tree under test.

Primary source: the ASTs, read SEMANTICALLY (a small abstract interpreter, `Reader`, over the functions of
pedal/core/report.py: it follows local aliases of `self.X` objects, `getattr/setattr/vars(self)` with constant names,
loops over constant tuples of field names or of `self.X` objects, module-level constants, and it inlines calls to
other methods of the class - instance, class and static ones - and to module-level helper functions with their
arguments bound, so "the helper appends to the list it is given" dirties the field whose list was passed):

* pedal/core/report.py, class Report:
    - `__init__`: every `self.X = <expr>` (also annotated / chained / tuple / setattr / via helpers) -> `initFields`
    - `clear`: its statements in order, helpers inlined, loops over constant field lists unrolled  -> `clearSteps`
    - every other method: which `self.X` it may mutate, transitively through the helpers it calls -> `methodDirties`
    - classmethods mutating `cls.X` -> `classDirties`; names bound in the class body -> `classAttrs`
    - `__getitem__`: "a tool missing from the tool data is reset before its data is returned" -> `lazyToolReset`
* every other module of the package: mutations of `<report>.X` where `<report>` is `report` / `MAIN_REPORT` /
  `self.report` or a local alias of one of these -> `externalDirties` / `externalNewFields`
* pedal/core/feedback.py (override / _restore_overrides / override_for_pool), pedal/core/environment.py
  (`Environment.__init__` clears before it contextualises), pedal/tifa/__init__.py (`reset` rebuilds the builtin
  module table before installing fresh data)

Second source: MEASUREMENT (harness/procstate_probe.py) of the same facts on fresh objects of the tree under test.
It is used (1) as a cross-check of what the AST reading understood - an understood reading that the measurement
contradicts is written into `unknownSteps` / becomes `false`, so the obligation fails - and (2) as the fallback
where the AST has a shape the reader does not understand: the entry is then SYNTHESISED from the measurement and
labelled `probed` in the evidence (the Lean obligation is the same one, evaluated on the synthesised entry).
An entry that can be established neither way stays an explicit unknown (`unknownSteps`, `false`, an `.opaque`
kind, a `<dynamic attribute>` field) and fails the obligation: nothing is guessed, nothing is dropped.
"""
import ast
import hashlib
import os

from common import LEAN_DIR, REPO, lean_list, lean_str, write_if_changed

MUTATORS = {"append", "add", "clear", "remove", "update", "pop", "extend", "insert", "discard", "setdefault",
            "popitem", "sort", "reverse", "appendleft", "popleft", "__setitem__", "__delitem__"}
#: the resetters themselves: what they do is `clearSteps`, not a mutation a script performs
NOT_DIRTYING = {"__init__", "clear", "full_clear", "clear_overridden_feedback"}
REPORT_NAMES = {"report", "MAIN_REPORT"}
COPIES = {"list", "tuple", "sorted", "set", "frozenset", "reversed", "iter"}
INNER = {"get", "setdefault", "pop", "values", "items", "keys", "__getitem__"}
DYNAMIC = "<dynamic attribute>"
REGISTRY = "overridden_feedbacks"

SELF, CLS, SELFDICT = ("self",), ("cls",), ("selfdict",)


def _src(node):
    try:
        return ast.unparse(node)
    except Exception:       # noqa: BLE001
        return "<%s>" % type(node).__name__


def _dotted(node):
    parts = []
    while isinstance(node, ast.Attribute):
        parts.append(node.attr)
        node = node.value
    if isinstance(node, ast.Name):
        parts.append(node.id)
        return ".".join(reversed(parts))
    return None


def _is_docstring(stmt):
    return isinstance(stmt, ast.Expr) and isinstance(stmt.value, ast.Constant) and isinstance(stmt.value.value, str)


def _is_log_call(stmt):
    if not (isinstance(stmt, ast.Expr) and isinstance(stmt.value, ast.Call)):
        return False
    d = _dotted(stmt.value.func) or ""
    return d.split(".")[0] in ("log", "logger", "logging", "LOG", "_log", "warnings")


# ---------------------------------------------------------------------------------------------------------
# kinds

def kind_of(expr, consts=None, depth=0):
    """-> Lean term of type Kind"""
    if isinstance(expr, ast.Name) and consts and expr.id in consts and depth < 3:
        return kind_of(consts[expr.id], consts, depth + 1)
    if isinstance(expr, ast.Dict) and not expr.keys:
        return ".dict"
    if isinstance(expr, ast.List) and not expr.elts:
        return ".list"
    if isinstance(expr, ast.Constant):
        if expr.value is None:
            return ".none"
        if isinstance(expr.value, (bool, int, float, str, bytes)):
            # an immutable literal: assigning the same literal again restores the value
            return ".ctor " + lean_str("const " + repr(expr.value))
    if isinstance(expr, ast.Tuple) and not expr.elts:
        return ".ctor " + lean_str("const ()")
    if isinstance(expr, ast.Call) and not expr.args and not expr.keywords:
        d = _dotted(expr.func)
        if d is not None:
            last = d.split(".")[-1]
            if last in ("dict", "list", "set"):
                return "." + last
            return ".ctor " + lean_str(last)
    return ".opaque " + lean_str(_src(expr)[:80])


def is_opaque(kind):
    return kind.startswith(".opaque")


def reset_ok(kind, how):
    """Lean `resetOk`, replicated for the cross-check"""
    if how == "clearCall":
        return kind in (".dict", ".list", ".set")
    return kind == how[1] and not is_opaque(kind)


def step_lean(step):
    if step[0] == "restoreEach":
        return ".restoreEach %s" % lean_str(step[1])
    how = ".clearCall" if step[2] == "clearCall" else "(.assign (%s))" % step[2][1]
    return ".reset %s %s" % (lean_str(step[1]), how)


def table_resets(init_fields, steps, f):
    kinds = dict(reversed(init_fields))        # List.lookup finds the first
    return any(s[0] == "reset" and s[1] == f and f in kinds and reset_ok(kinds[f], s[2]) for s in steps)


def table_restores(init_fields, steps):
    """Lean `restoresOverrides`"""
    idx = next((i for i, s in enumerate(steps) if s == ("restoreEach", REGISTRY)), None)
    if idx is None:
        return False
    return (table_resets(init_fields, steps[idx + 1:], REGISTRY)
            and not table_resets(init_fields, steps[:idx], REGISTRY))


# ---------------------------------------------------------------------------------------------------------
# the abstract interpreter over pedal/core/report.py

class Reader:
    """
    Values are sets of references:
      SELF / CLS / SELFDICT, ("field", X, exact) = the object stored in self.X (exact) or something reached through it,
      ("clsfield", X, exact), ("str", s), ("seq", (refset, ...)) = a literal tuple/list of values.
    Effects are ("field", X) / ("clsfield", X): the method may mutate that attribute or what it holds.
    """

    def __init__(self, tree, class_name):
        self.class_name = class_name
        self.cls = next(n for n in tree.body if isinstance(n, ast.ClassDef) and n.name == class_name)
        self.methods = {n.name: n for n in self.cls.body if isinstance(n, (ast.FunctionDef, ast.AsyncFunctionDef))}
        self.funcs = {n.name: n for n in tree.body if isinstance(n, (ast.FunctionDef, ast.AsyncFunctionDef))}
        counts, self.consts = {}, {}
        for n in tree.body:
            tgt = None
            if isinstance(n, ast.Assign) and len(n.targets) == 1 and isinstance(n.targets[0], ast.Name):
                tgt, val = n.targets[0].id, n.value
            elif isinstance(n, ast.AnnAssign) and isinstance(n.target, ast.Name) and n.value is not None:
                tgt, val = n.target.id, n.value
            if tgt is not None:
                counts[tgt] = counts.get(tgt, 0) + 1
                self.consts[tgt] = val
        self.consts = {k: v for k, v in self.consts.items() if counts[k] == 1 and self._literal(v)}
        self.effects = set()

    def _literal(self, v):
        if isinstance(v, ast.Constant):
            return True
        if isinstance(v, (ast.Tuple, ast.List, ast.Set)):
            return all(self._literal(x) for x in v.elts)
        if isinstance(v, ast.Dict):
            return not v.keys
        if isinstance(v, ast.Call) and not v.args and not v.keywords and _dotted(v.func) in ("frozenset", "tuple"):
            return True
        if isinstance(v, ast.Call) and _dotted(v.func) in ("frozenset", "tuple") and len(v.args) == 1 and not v.keywords:
            return self._literal(v.args[0])
        return False

    @staticmethod
    def kind(fn):
        for d in fn.decorator_list:
            if isinstance(d, ast.Name) and d.id in ("staticmethod", "classmethod"):
                return d.id
        return "method"

    # ---- expressions ---------------------------------------------------------------------------
    def ev(self, e, env, stack=()):
        out = set()
        if e is None:
            return out
        if isinstance(e, ast.Name):
            if e.id in env:
                return set(env[e.id])
            if e.id in self.consts:
                return self.ev(self.consts[e.id], {}, stack)
            if e.id == self.class_name:
                return {CLS}
            return out
        if isinstance(e, ast.Constant):
            return {("str", e.value)} if isinstance(e.value, str) else out
        if isinstance(e, (ast.Tuple, ast.List, ast.Set)):
            return {("seq", tuple(frozenset(self.ev(x, env, stack)) for x in e.elts))}
        if isinstance(e, ast.Starred):
            return self.ev(e.value, env, stack)
        if isinstance(e, ast.Attribute):
            for b in self.ev(e.value, env, stack):
                if b == SELF:
                    if e.attr == "__dict__":
                        out.add(SELFDICT)
                    elif e.attr == "__class__":
                        out.add(CLS)
                    else:
                        out.add(("field", e.attr, True))
                elif b == CLS:
                    out.add(("clsfield", e.attr, True))
                elif b[0] in ("field", "clsfield"):
                    out.add((b[0], b[1], False))
            return out
        if isinstance(e, ast.Subscript):
            for b in self.ev(e.value, env, stack):
                if b == SELFDICT:
                    out |= self._named(SELF, self.ev(e.slice, env, stack))
                elif b[0] in ("field", "clsfield"):
                    out.add((b[0], b[1], False))
                elif b[0] == "seq":
                    for x in b[1]:
                        out |= x
            return out
        if isinstance(e, ast.IfExp):
            return self.ev(e.body, env, stack) | self.ev(e.orelse, env, stack)
        if isinstance(e, ast.BoolOp):
            for v in e.values:
                out |= self.ev(v, env, stack)
            return out
        if isinstance(e, ast.NamedExpr):
            v = self.ev(e.value, env, stack)
            if isinstance(e.target, ast.Name):
                env[e.target.id] = set(env.get(e.target.id, ())) | v
            return v
        if isinstance(e, ast.Call):
            return self.ev_call(e, env, stack)
        return out

    def _named(self, owner, names):
        """attributes of SELF / CLS selected by evaluated names"""
        tag = "field" if owner == SELF else "clsfield"
        strs = [n[1] for n in names if n[0] == "str"]
        if not strs:
            return {(tag, DYNAMIC, True)}
        return {(tag, s, True) for s in strs}

    def ev_call(self, c, env, stack):
        out = set()
        d = _dotted(c.func)
        if d in ("getattr",) and len(c.args) >= 2:
            for b in self.ev(c.args[0], env, stack):
                if b in (SELF, CLS):
                    out |= self._named(b, self.ev(c.args[1], env, stack))
                elif b[0] in ("field", "clsfield"):
                    out.add((b[0], b[1], False))
            return out
        if d == "vars" and len(c.args) == 1:
            return {SELFDICT} if SELF in self.ev(c.args[0], env, stack) else out
        if d == "type" and len(c.args) == 1:
            return {CLS} if SELF in self.ev(c.args[0], env, stack) else out
        if d in COPIES:
            return out                              # a new container (its ELEMENTS are handled by `elements`)
        callee = self.callee(c, env, stack)
        if callee is not None:
            return self.inline(callee, c, env, stack)
        if isinstance(c.func, ast.Attribute) and c.func.attr in INNER:
            for b in self.ev(c.func.value, env, stack):
                if b[0] in ("field", "clsfield"):
                    out.add((b[0], b[1], False))
                elif b == SELFDICT and c.func.attr in ("get", "setdefault", "pop", "__getitem__") and c.args:
                    out |= self._named(SELF, self.ev(c.args[0], env, stack))
        return out

    def elements(self, e, env, stack):
        """what a loop variable ranging over `e` may be bound to"""
        while isinstance(e, ast.Call) and _dotted(e.func) in COPIES and e.args:
            e = e.args[0]
        if isinstance(e, ast.Call) and _dotted(e.func) == "enumerate" and e.args:
            return self.elements(e.args[0], env, stack)
        if isinstance(e, ast.BinOp):
            return self.elements(e.left, env, stack) | self.elements(e.right, env, stack)
        out = set()
        for b in self.ev(e, env, stack):
            if b[0] == "seq":
                for x in b[1]:
                    out |= x
            elif b[0] in ("field", "clsfield"):
                out.add((b[0], b[1], False))
        return out

    # ---- helpers ------------------------------------------------------------------------------
    def callee(self, c, env, stack):
        """-> (name, FunctionDef, how) for a call of another function of this file"""
        f = c.func
        if isinstance(f, ast.Name) and f.id in self.funcs and f.id not in env:
            return (f.id, self.funcs[f.id], "plain")
        if isinstance(f, ast.Attribute) and f.attr in self.methods:
            base = self.ev(f.value, env, stack)
            if isinstance(f.value, ast.Call) and _dotted(f.value.func) == "super":
                return None
            k = self.kind(self.methods[f.attr])
            if SELF in base:
                return (f.attr, self.methods[f.attr], {"method": "bound", "classmethod": "boundcls",
                                                       "staticmethod": "plain"}[k])
            if CLS in base:
                return (f.attr, self.methods[f.attr], {"method": "plain", "classmethod": "boundcls",
                                                       "staticmethod": "plain"}[k])
        return None

    def bind(self, fn, how, c, env, stack):
        params = [a.arg for a in fn.args.posonlyargs + fn.args.args]
        env2 = {}
        if how == "bound" and params:
            env2[params[0]] = {SELF}
            params = params[1:]
        elif how == "boundcls" and params:
            env2[params[0]] = {CLS}
            params = params[1:]
        defaults = fn.args.defaults
        for p, dflt in zip(params[len(params) - len(defaults):], defaults):
            env2[p] = self.ev(dflt, {}, stack)
        if c is not None:
            for p, a in zip(params, c.args):
                env2[p] = self.ev(a, env, stack)
            for kw in c.keywords:
                if kw.arg is not None:
                    env2[kw.arg] = self.ev(kw.value, env, stack)
        return env2

    def inline(self, callee, c, env, stack):
        name, fn, how = callee
        if name in NOT_DIRTYING or name in stack or len(stack) > 6:
            return set()
        env2 = self.bind(fn, how, c, env, stack)
        self.run(fn.body, env2, stack + (name,))
        out = set()
        for node in ast.walk(fn):
            if isinstance(node, ast.Return) and node.value is not None:
                out |= self.ev(node.value, env2, stack + (name,))
        return out

    # ---- statements (may-analysis: every effect that could happen) ---------------------------
    def effect(self, refs):
        for b in refs:
            if b[0] in ("field", "clsfield"):
                self.effects.add((b[0], b[1]))

    def mutate_target(self, t, env, stack):
        if isinstance(t, ast.Attribute):
            for b in self.ev(t.value, env, stack):
                if b == SELF:
                    self.effects.add(("field", t.attr))
                elif b == CLS:
                    self.effects.add(("clsfield", t.attr))
                elif b[0] in ("field", "clsfield"):
                    self.effects.add((b[0], b[1]))
        elif isinstance(t, ast.Subscript):
            for b in self.ev(t.value, env, stack):
                if b == SELFDICT:
                    self.effect(self._named(SELF, self.ev(t.slice, env, stack)))
                elif b[0] in ("field", "clsfield"):
                    self.effects.add((b[0], b[1]))
        elif isinstance(t, (ast.Tuple, ast.List)):
            for x in t.elts:
                self.mutate_target(x, env, stack)
        elif isinstance(t, ast.Starred):
            self.mutate_target(t.value, env, stack)

    def bind_target(self, t, refs, env):
        if isinstance(t, ast.Name):
            env[t.id] = set(env.get(t.id, ())) | set(refs)
        elif isinstance(t, (ast.Tuple, ast.List)):
            for x in t.elts:
                self.bind_target(x, refs, env)
        elif isinstance(t, ast.Starred):
            self.bind_target(t.value, refs, env)

    def calls(self, node, env, stack):
        """effects of every call below `node`"""
        for sub in ast.walk(node):
            if isinstance(sub, (ast.ListComp, ast.SetComp, ast.DictComp, ast.GeneratorExp)):
                for g in sub.generators:
                    self.bind_target(g.target, self.elements(g.iter, env, stack), env)
            if isinstance(sub, ast.NamedExpr):
                self.ev(sub, env, stack)
            if not isinstance(sub, ast.Call):
                continue
            d = _dotted(sub.func)
            if d in ("setattr", "delattr") and len(sub.args) >= 2:
                for b in self.ev(sub.args[0], env, stack):
                    if b in (SELF, CLS):
                        self.effect(self._named(b, self.ev(sub.args[1], env, stack)))
                    elif b[0] in ("field", "clsfield"):
                        self.effects.add((b[0], b[1]))
                continue
            callee = self.callee(sub, env, stack)
            if callee is not None:
                self.inline(callee, sub, env, stack)
                continue
            if isinstance(sub.func, ast.Attribute) and sub.func.attr in MUTATORS:
                for b in self.ev(sub.func.value, env, stack):
                    if b[0] in ("field", "clsfield"):
                        self.effects.add((b[0], b[1]))
                    elif b == SELFDICT:
                        if sub.func.attr in ("pop", "setdefault", "__setitem__", "__delitem__") and sub.args:
                            self.effect(self._named(SELF, self.ev(sub.args[0], env, stack)))
                        else:
                            self.effects.add(("field", DYNAMIC))

    def run(self, body, env, stack=()):
        for _ in range(3):                 # aliases may be used before the statement that makes them (loops)
            for st in body:
                self.stmt(st, env, stack)

    def stmt(self, st, env, stack):
        if isinstance(st, (ast.FunctionDef, ast.AsyncFunctionDef)):
            for s in st.body:
                self.stmt(s, env, stack)
            return
        if isinstance(st, ast.Assign):
            self.calls(st.value, env, stack)
            for t in st.targets:
                if (isinstance(t, (ast.Tuple, ast.List)) and isinstance(st.value, (ast.Tuple, ast.List))
                        and len(t.elts) == len(st.value.elts)):
                    for tt, vv in zip(t.elts, st.value.elts):
                        self.bind_target(tt, self.ev(vv, env, stack), env)
                        self.mutate_target(tt, env, stack)
                else:
                    self.bind_target(t, self.ev(st.value, env, stack), env)
                    self.mutate_target(t, env, stack)
            return
        if isinstance(st, ast.AnnAssign):
            if st.value is not None:
                self.calls(st.value, env, stack)
                self.bind_target(st.target, self.ev(st.value, env, stack), env)
                self.mutate_target(st.target, env, stack)
            return
        if isinstance(st, ast.AugAssign):
            self.calls(st.value, env, stack)
            if isinstance(st.target, ast.Name):
                self.effect(env.get(st.target.id, ()))          # `x = self.X; x += [...]` mutates the list in place
            else:
                self.mutate_target(st.target, env, stack)
            return
        if isinstance(st, ast.Delete):
            for t in st.targets:
                self.mutate_target(t, env, stack)
            return
        if isinstance(st, (ast.For, ast.AsyncFor)):
            self.calls(st.iter, env, stack)
            self.bind_target(st.target, self.elements(st.iter, env, stack), env)
            for s in st.body + st.orelse:
                self.stmt(s, env, stack)
            return
        if isinstance(st, (ast.With, ast.AsyncWith)):
            for item in st.items:
                self.calls(item.context_expr, env, stack)
                if item.optional_vars is not None:
                    self.bind_target(item.optional_vars, self.ev(item.context_expr, env, stack), env)
            for s in st.body:
                self.stmt(s, env, stack)
            return
        # if / while / try / match / expression statements / return / raise ...: every expression, every nested block
        for field, value in ast.iter_fields(st):
            if isinstance(value, ast.expr):
                self.calls(value, env, stack)
            elif isinstance(value, list):
                for x in value:
                    if isinstance(x, ast.stmt):
                        self.stmt(x, env, stack)
                    elif isinstance(x, ast.expr):
                        self.calls(x, env, stack)
                    elif isinstance(x, ast.ExceptHandler):
                        for s in x.body:
                            self.stmt(s, env, stack)
                    elif hasattr(ast, "match_case") and isinstance(x, ast.match_case):
                        for s in x.body:
                            self.stmt(s, env, stack)

    def method_effects(self, name):
        fn = self.methods[name]
        self.effects = set()
        how = {"method": "bound", "classmethod": "boundcls", "staticmethod": "plain"}[self.kind(fn)]
        env = self.bind(fn, how, None, {}, ())
        self.run(fn.body, env, (name,))
        return set(self.effects)

    # ---- ordered, strict reading of __init__ / clear ------------------------------------------
    def exact_field(self, e, env):
        """`e` is exactly the object stored in self.X -> X"""
        refs = self.ev(e, env)
        if len(refs) == 1:
            (b,) = refs
            if b[0] == "field" and b[2] and b[1] != DYNAMIC:
                return b[1]
        return None

    def self_attr_target(self, t, env):
        if isinstance(t, ast.Attribute) and self.ev(t.value, env) == {SELF}:
            return t.attr
        if isinstance(t, ast.Subscript) and self.ev(t.value, env) == {SELFDICT}:
            ks = self.ev(t.slice, env)
            if len(ks) == 1 and next(iter(ks))[0] == "str":
                return next(iter(ks))[1]
        return None

    def steps(self, body, env, stack, what):
        """-> (ordered steps, statements not understood)"""
        steps, unknown = [], []

        def give_up(st):
            unknown.append("%s: %s" % (what, _src(st).split("\n")[0][:120]))

        for st in body:
            if _is_docstring(st) or isinstance(st, ast.Pass) or _is_log_call(st):
                continue
            # self.X = <expr> / self.a = self.b = <expr> / self.a, self.b = <e1>, <e2> / self.X: T = <expr>
            if isinstance(st, (ast.Assign, ast.AnnAssign)) and st.value is not None:
                targets = st.targets if isinstance(st, ast.Assign) else [st.target]
                pairs, ok = [], True
                for t in targets:
                    if (isinstance(t, (ast.Tuple, ast.List)) and isinstance(st.value, (ast.Tuple, ast.List))
                            and len(t.elts) == len(st.value.elts)):
                        pairs += list(zip(t.elts, st.value.elts))
                    else:
                        pairs.append((t, st.value))
                local = []
                for t, v in pairs:
                    f = self.self_attr_target(t, env)
                    if f is not None:
                        local.append(("reset", f, ("assign", kind_of(v, self.consts))))
                    elif isinstance(t, ast.Name) and not self._has_effects(v, env, stack):
                        env[t.id] = self.ev(v, env)             # a local (alias); nothing happens to the report
                    else:
                        ok = False
                if ok:
                    steps += local
                else:
                    give_up(st)
                continue
            if isinstance(st, ast.Delete) and all(
                    isinstance(t, ast.Subscript) and isinstance(t.slice, ast.Slice) and t.slice.lower is None
                    and t.slice.upper is None and t.slice.step is None and self.exact_field(t.value, env)
                    for t in st.targets):
                steps += [("reset", self.exact_field(t.value, env), "clearCall") for t in st.targets]     # del self.X[:]
                continue
            if isinstance(st, ast.Expr) and isinstance(st.value, ast.Call):
                c = st.value
                d = _dotted(c.func)
                if isinstance(c.func, ast.Attribute) and c.func.attr == "clear" and not c.args and not c.keywords:
                    f = self.exact_field(c.func.value, env)
                    if f is not None:
                        steps.append(("reset", f, "clearCall"))                                       # self.X.clear()
                        continue
                if d == "setattr" and len(c.args) == 3 and self.ev(c.args[0], env) == {SELF}:
                    ks = self.ev(c.args[1], env)
                    if len(ks) == 1 and next(iter(ks))[0] == "str":
                        steps.append(("reset", next(iter(ks))[1], ("assign", kind_of(c.args[2], self.consts))))
                        continue
                callee = self.callee(c, env, stack)
                if callee is not None and callee[0] not in stack and len(stack) < 6:
                    name, fn, how = callee
                    s2, u2 = self.steps(fn.body, self.bind(fn, how, c, env, stack), stack + (name,), what)
                    steps += s2
                    unknown += u2
                    continue
                give_up(st)
                continue
            if isinstance(st, ast.For) and not st.orelse:
                # for c in self.X: c._restore_overrides()
                it = st.iter
                while isinstance(it, ast.Call) and _dotted(it.func) in COPIES and len(it.args) == 1 and not it.keywords:
                    it = it.args[0]
                f = self.exact_field(it, env)
                if (f is not None and isinstance(st.target, ast.Name) and len(st.body) == 1
                        and self._is_restore_call(st.body[0], lambda e: isinstance(e, ast.Name) and e.id == st.target.id)):
                    steps.append(("restoreEach", f))
                    continue
                # a loop over a constant sequence (field names / self.X objects): unrolled
                refs = self.ev(st.iter, env)
                if len(refs) == 1 and next(iter(refs))[0] == "seq" and isinstance(st.target, ast.Name):
                    for elem in next(iter(refs))[1]:
                        env2 = dict(env)
                        env2[st.target.id] = set(elem)
                        s2, u2 = self.steps(st.body, env2, stack, what)
                        steps += s2
                        unknown += u2
                    continue
                give_up(st)
                continue
            if isinstance(st, ast.While) and not st.orelse and len(st.body) == 1:
                # while self.X: self.X.pop()._restore_overrides()
                f = self.exact_field(st.test, env)
                if f is not None and self._is_restore_call(
                        st.body[0], lambda e: isinstance(e, ast.Call) and isinstance(e.func, ast.Attribute)
                        and e.func.attr == "pop" and self.exact_field(e.func.value, env) == f):
                    steps += [("restoreEach", f), ("reset", f, "clearCall")]
                    continue
                give_up(st)
                continue
            if isinstance(st, ast.If) and not st.orelse:
                # if self.X: self.X.clear()      (an empty container is already as __init__ made it)
                f = self.exact_field(st.test, env)
                if f is not None:
                    s2, u2 = self.steps(st.body, dict(env), stack, what)
                    if not u2 and s2 and all(s == ("reset", f, "clearCall") for s in s2):
                        steps += s2
                        continue
                give_up(st)
                continue
            give_up(st)
        return steps, unknown

    @staticmethod
    def _is_restore_call(st, is_receiver):
        return (isinstance(st, ast.Expr) and isinstance(st.value, ast.Call) and isinstance(st.value.func, ast.Attribute)
                and st.value.func.attr == "_restore_overrides" and not st.value.args and not st.value.keywords
                and is_receiver(st.value.func.value))

    def _has_effects(self, e, env, stack):
        saved, self.effects = self.effects, set()
        self.calls(e, dict(env), stack)
        found, self.effects = bool(self.effects), saved
        return found

    def method_steps(self, name, what):
        fn = self.methods[name]
        return self.steps(fn.body, self.bind(fn, "bound", None, {}, ()), (name,), what)


# ---------------------------------------------------------------------------------------------------------
# other modules of the package: writes to a report

def _is_report_ref(node, aliases):
    if isinstance(node, ast.Name):
        return node.id in REPORT_NAMES or node.id in aliases
    return (isinstance(node, ast.Attribute) and node.attr == "report" and isinstance(node.value, ast.Name)
            and node.value.id == "self")


def _root_field(node, aliases):
    """`<report>.X`, `<report>.X[...]`, `<report>.X[...].y[...]` ... -> X (else None)"""
    while True:
        if isinstance(node, ast.Attribute) and _is_report_ref(node.value, aliases):
            return node.attr
        if isinstance(node, (ast.Subscript, ast.Attribute)):
            node = node.value
        else:
            return None


def _scopes(tree):
    return [tree] + [n for n in ast.walk(tree) if isinstance(n, (ast.FunctionDef, ast.AsyncFunctionDef, ast.Lambda))]


def _scope_aliases(scope, seed):
    """-> (names bound to a report in this scope, {name: fields whose object it holds})"""
    nodes = list(ast.walk(scope))
    aliases, held = set(seed), {}
    for _ in range(2):
        for node in nodes:
            if isinstance(node, ast.Assign) and len(node.targets) == 1 and isinstance(node.targets[0], ast.Name):
                name = node.targets[0].id
                if _is_report_ref(node.value, aliases) and name not in REPORT_NAMES:
                    aliases.add(name)                          # rep = self.report
                else:
                    v = node.value
                    if isinstance(v, ast.Call) and isinstance(v.func, ast.Attribute) and v.func.attr in INNER:
                        v = v.func.value
                    f = _root_field(v, aliases)
                    if f is not None and isinstance(v, (ast.Attribute, ast.Subscript)):
                        held.setdefault(name, set()).add(f)     # items = report.X
    return aliases, held


def report_parameters(modules):
    """{id(FunctionDef): parameter names that receive a report at some call site in the package} - functions of the
    same module and functions imported from another module of the package, to a fixpoint"""
    defs = {}
    for modname, (_, tree) in modules.items():
        for n in tree.body:
            if isinstance(n, (ast.FunctionDef, ast.AsyncFunctionDef)):
                defs[(modname, n.name)] = n
    extra = {}
    for _ in range(3):
        for modname, (rel, tree) in modules.items():
            pkg_parts = modname.split(".") if rel.endswith("__init__.py") else modname.split(".")[:-1]
            imports = {}
            for n in ast.walk(tree):
                if isinstance(n, ast.ImportFrom):
                    base = (n.module or "") if n.level == 0 else ".".join(
                        pkg_parts[:len(pkg_parts) - (n.level - 1)] + ([n.module] if n.module else []))
                    for a in n.names:
                        imports[a.asname or a.name] = (base, a.name)
            for scope in _scopes(tree):
                aliases, _ = _scope_aliases(scope, extra.get(id(scope), ()))
                for c in ast.walk(scope):
                    if not (isinstance(c, ast.Call) and isinstance(c.func, ast.Name)):
                        continue
                    target = defs.get((modname, c.func.id)) or defs.get(imports.get(c.func.id))
                    if target is None:
                        continue
                    params = [a.arg for a in target.args.posonlyargs + target.args.args]
                    for p, a in list(zip(params, c.args)) + [(k.arg, k.value) for k in c.keywords if k.arg in params]:
                        if _is_report_ref(a, aliases) and p not in REPORT_NAMES:
                            extra.setdefault(id(target), set()).add(p)
    return extra


def external_mutations(tree, extra=None):
    """fields X such that the module mutates `<report>.X` (directly, through a local alias of the report or of the
    object stored in the field, or in a helper function that is handed the report)"""
    out = []
    extra = extra or {}

    def add(x):
        if x is not None and x not in out:
            out.append(x)

    for scope in _scopes(tree):
        nodes = list(ast.walk(scope))
        aliases, held = _scope_aliases(scope, extra.get(id(scope), ()))
        for node in nodes:
            if isinstance(node, ast.Assign):
                for t in node.targets:
                    for tt in (t.elts if isinstance(t, (ast.Tuple, ast.List)) else [t]):
                        if isinstance(tt, (ast.Attribute, ast.Subscript)):
                            add(_root_field(tt, aliases))
                            base = tt.value
                            while isinstance(base, (ast.Attribute, ast.Subscript)):
                                base = base.value
                            if isinstance(base, ast.Name) and isinstance(tt, ast.Subscript):
                                for f in sorted(held.get(base.id, ())):
                                    add(f)
            elif isinstance(node, (ast.AugAssign, ast.AnnAssign)):
                if isinstance(node.target, (ast.Attribute, ast.Subscript)):
                    add(_root_field(node.target, aliases))
                elif isinstance(node, ast.AugAssign) and isinstance(node.target, ast.Name):
                    for f in sorted(held.get(node.target.id, ())):
                        add(f)
            elif isinstance(node, ast.Delete):
                for t in node.targets:
                    if isinstance(t, (ast.Attribute, ast.Subscript)):
                        add(_root_field(t, aliases))
            elif isinstance(node, ast.Call):
                d = _dotted(node.func)
                if d in ("setattr", "delattr") and len(node.args) >= 2 and _is_report_ref(node.args[0], aliases):
                    a = node.args[1]
                    add(a.value if isinstance(a, ast.Constant) and isinstance(a.value, str) else DYNAMIC)
                elif isinstance(node.func, ast.Attribute) and node.func.attr in MUTATORS:
                    add(_root_field(node.func.value, aliases))
                    if isinstance(node.func.value, ast.Name):
                        for f in sorted(held.get(node.func.value.id, ())):
                            add(f)
    return out


# ---------------------------------------------------------------------------------------------------------

def _calls(body, pred):
    for node in ast.walk(ast.Module(body=list(body), type_ignores=[])):
        if isinstance(node, ast.Call) and pred(node):
            return True
    return False


def _find_class(tree, name):
    for n in tree.body:
        if isinstance(n, ast.ClassDef) and n.name == name:
            return n
    raise ValueError("class %s not found" % name)


def _methods(cls):
    return {n.name: n for n in cls.body if isinstance(n, (ast.FunctionDef, ast.AsyncFunctionDef))}


def _parse(rel):
    import warnings
    with open(os.path.join(REPO, rel), encoding="utf-8") as fh:
        with warnings.catch_warnings():
            warnings.simplefilter("ignore")
            return ast.parse(fh.read(), rel)


def _b(x):
    return "true" if x else "false"


def _strs(xs):
    return lean_list([lean_str(x) for x in xs])


def _flat_statements(fn, methods, depth=0, seen=()):
    """top-level statements of fn with calls to `self.m()` helpers of the same class inlined (unconditional part only)"""
    out = []
    for st in fn.body:
        c = st.value if isinstance(st, ast.Expr) and isinstance(st.value, ast.Call) else None
        if (c is not None and isinstance(c.func, ast.Attribute) and isinstance(c.func.value, ast.Name)
                and c.func.value.id == "self" and c.func.attr in methods and c.func.attr not in seen and depth < 4):
            out += _flat_statements(methods[c.func.attr], methods, depth + 1, seen + (c.func.attr,))
        else:
            out.append(st)
    return out


def read_ast():
    """everything the ASTs say; `understood[...]` tells which entries the reader could establish"""
    info, notes = {}, {}
    tree = _parse("pedal/core/report.py")
    rd = Reader(tree, "Report")
    methods = rd.methods
    if "__init__" not in methods or "clear" not in methods:
        raise ValueError("Report.__init__ / Report.clear not found")
    # -- __init__
    isteps, iunknown = rd.method_steps("__init__", "__init__")
    init_fields = []
    for s in isteps:
        if s[0] == "reset" and s[2] != "clearCall":
            if s[1] not in [f for f, _ in init_fields]:
                init_fields.append((s[1], s[2][1]))
            else:                                       # assigned twice: the last one counts
                init_fields = [(f, s[2][1] if f == s[1] else k) for f, k in init_fields]
        else:
            iunknown.append("__init__: a statement that is not an assignment: %r" % (s,))
    info["init_fields"], info["init_unknown"] = init_fields, iunknown
    # -- clear
    info["clear_steps"], info["clear_unknown"] = rd.method_steps("clear", "clear")
    # -- other methods
    method_dirties, class_dirties = [], []
    for name, fn in methods.items():
        if name in NOT_DIRTYING:
            continue
        k = rd.kind(fn)
        if k == "staticmethod" or not (fn.args.posonlyargs + fn.args.args):
            continue
        eff = rd.method_effects(name)
        fs = sorted({x for t, x in eff if t == "field"})
        cs = sorted({x for t, x in eff if t == "clsfield"})
        if k == "classmethod":
            if cs:
                class_dirties.append((name, cs))
        else:
            if fs:
                method_dirties.append((name, fs))
            if cs:
                class_dirties.append((name, cs))
    # the order of the definitions in the class means nothing
    info["method_dirties"], info["class_dirties"] = sorted(method_dirties), sorted(class_dirties)
    class_attrs = []
    for n in rd.cls.body:
        if isinstance(n, ast.Assign):
            class_attrs += [t.id for t in n.targets if isinstance(t, ast.Name)]
        elif isinstance(n, ast.AnnAssign) and isinstance(n.target, ast.Name) and n.value is not None:
            class_attrs.append(n.target.id)
    info["class_attrs"] = class_attrs
    # -- __getitem__: lazy reset.  Shapes: `if t not in self.D: ...reset(report=self)` or
    #    `if t in self.D: return self.D[t]` followed by `...reset(report=self)`
    lazy = False
    gi = methods.get("__getitem__")
    is_reset = lambda c: (isinstance(c.func, ast.Attribute) and c.func.attr == "reset"                # noqa: E731
                          and (any(k.arg == "report" and _src(k.value) == "self" for k in c.keywords)
                               or any(_src(a) == "self" for a in c.args)))
    if gi is not None:
        body = gi.body
        for i, st in enumerate(body):
            if not (isinstance(st, ast.If) and isinstance(st.test, ast.Compare) and len(st.test.ops) == 1
                    and _src(st.test.comparators[0]).startswith("self.")):
                continue
            if isinstance(st.test.ops[0], ast.NotIn) and _calls(st.body, is_reset):
                lazy = True
            if (isinstance(st.test.ops[0], ast.In) and st.body and isinstance(st.body[-1], ast.Return) and not st.orelse
                    and _calls(body[i + 1:], is_reset)):
                lazy = True
            if isinstance(st.test.ops[0], ast.In) and st.orelse and _calls(st.orelse, is_reset):
                lazy = True
    info["lazy_tool_reset"] = lazy
    # -- the rest of the package
    external, modules = {}, {}
    pkg = os.path.join(REPO, "pedal")
    for d, _, files in sorted(os.walk(pkg)):
        for fn in sorted(files):
            if not fn.endswith(".py"):
                continue
            rel = os.path.relpath(os.path.join(d, fn), REPO)
            if rel == os.path.join("pedal", "core", "report.py"):
                continue
            try:
                t = _parse(rel)
            except SyntaxError:
                continue
            modname = rel[:-3].replace(os.sep, ".")
            modules[modname[:-len(".__init__")] if modname.endswith(".__init__") else modname] = (rel, t)
    extra = report_parameters(modules)
    for modname, (rel, t) in modules.items():
        for f in external_mutations(t, extra):
            external.setdefault(f, rel)
    info["external_all"] = external
    # -- Feedback.override & co.
    fb = _methods(_find_class(_parse("pedal/core/feedback.py"), "Feedback"))

    def own_dict_lookup(fn):
        def pred(c):
            s = _src(c.func)
            return ((s in ("cls.__dict__.get", "vars(cls).get") and c.args and isinstance(c.args[0], ast.Constant)
                     and c.args[0].value == "_override_backups"))
        if _calls(fn.body, pred):
            return True
        for node in ast.walk(fn):
            if (isinstance(node, ast.Compare) and len(node.ops) == 1 and isinstance(node.ops[0], (ast.In, ast.NotIn))
                    and isinstance(node.left, ast.Constant) and node.left.value == "_override_backups"
                    and _src(node.comparators[0]) in ("cls.__dict__", "vars(cls)")):
                return True
        return False

    def inherited_lookup(fn):
        for node in ast.walk(fn):
            if isinstance(node, ast.Compare) and _src(node.left) == "cls._override_backups":
                return True
            if isinstance(node, ast.For) and _src(node.iter).startswith("cls._override_backups"):
                return True
        return False

    registers = lambda c: isinstance(c.func, ast.Attribute) and c.func.attr == "override_feedback"   # noqa: E731
    ov, rs, ofp = fb.get("override"), fb.get("_restore_overrides"), fb.get("override_for_pool")
    if ov is None or rs is None:
        raise ValueError("Feedback.override / _restore_overrides not found")
    info["backup_per_class"] = (own_dict_lookup(ov) and own_dict_lookup(rs)
                                and not inherited_lookup(ov) and not inherited_lookup(rs))
    info["override_registers"] = _calls(ov.body, registers)
    info["restore_clears_pools"] = _calls(rs.body, lambda c: _src(c.func) in ("cls._pools.clear", "Feedback._pools.clear"))
    info["pool_override_registers"] = ofp is not None and _calls(ofp.body, registers)
    # -- Environment.__init__: `report.clear()` unconditionally, before the first contextualize
    envm = _methods(_find_class(_parse("pedal/core/environment.py"), "Environment"))
    pos_clear = pos_ctx = None
    for i, st in enumerate(_flat_statements(envm["__init__"], envm)):
        s = _src(st)
        if pos_clear is None and isinstance(st, ast.Expr) and s in ("report.clear()", "self.report.clear()"):
            pos_clear = i
        if pos_ctx is None and "contextualize(" in s:
            pos_ctx = i
    info["env_clears_first"] = pos_clear is not None and pos_ctx is not None and pos_clear < pos_ctx
    # -- tifa reset: `reset_builtin_modules()` unconditionally, before the tool data is installed
    tifa = _parse("pedal/tifa/__init__.py")
    rebuilds = False
    for n in tifa.body:
        if isinstance(n, ast.FunctionDef) and n.name == "reset":
            pos_rb = pos_set = None
            for i, st in enumerate(n.body):
                s = _src(st)
                if pos_rb is None and isinstance(st, ast.Expr) and s.endswith("reset_builtin_modules()"):
                    pos_rb = i
                if pos_set is None and isinstance(st, (ast.Assign, ast.Return)) and "report[TOOL_NAME] =" in s:
                    pos_set = i
            rebuilds = pos_rb is not None and pos_set is not None and pos_rb < pos_set
    info["tifa_reset_rebuilds"] = rebuilds
    return info, notes


# ---------------------------------------------------------------------------------------------------------
# AST reading + measurement -> the table

def combine(a, m):
    """a = read_ast()[0], m = procstate_probe.measure() (or None) -> (table info, provenance)"""
    prov = {}
    unknown = []
    m = m or {}
    mc = m.get("clear") or {}
    measured_clear = mc.get("fields") if not mc.get("error") else None
    probed_init = m.get("init_fields")

    # ---- initFields
    init_fields = list(a["init_fields"])
    if a["init_unknown"]:
        if probed_init is not None:
            have = {f for f, _ in init_fields}
            init_fields += [(f, k) for f, k in probed_init if f not in have]
            prov["initFields"] = ("AST + probed (vars(Report()) supplies what these statements of __init__ create: %s)"
                                  % "; ".join(a["init_unknown"])[:400])
        else:
            unknown += a["init_unknown"]
            prov["initFields"] = "AST, incomplete"
    else:
        prov["initFields"] = "AST"
        if probed_init is not None:
            have = {f for f, _ in init_fields}
            missing = [(f, k) for f, k in probed_init if f not in have]
            if missing:
                # attributes a fresh report has although no statement of __init__ was seen to create them
                init_fields += missing
                prov["initFields"] = "AST + probed (a fresh report also has: %s)" % ", ".join(f for f, _ in missing)
    names = [f for f, _ in init_fields]

    # ---- clearSteps
    steps = list(a["clear_steps"])
    if not a["clear_unknown"]:
        prov["clearSteps"] = "AST"
        if measured_clear is not None:
            patched = []
            for f in names:
                if f not in measured_clear:
                    continue
                ast_says, real = table_resets(init_fields, steps, f), measured_clear[f]["reset"]
                if ast_says == real:
                    continue
                kinds = [k for g, k in init_fields if g == f] + [s[2][1] for s in steps
                                                                 if s[0] == "reset" and s[1] == f and s[2] != "clearCall"]
                if real and any(is_opaque(k) for k in kinds) and any(s[0] == "reset" and s[1] == f for s in steps):
                    # the statement is there, but the expression is one the reader cannot classify: take the
                    # measured kind for this field
                    k = measured_clear[f]["kind"]
                    init_fields = [(g, k if g == f else kk) for g, kk in init_fields]
                    how = "clearCall" if measured_clear[f]["kept"] and k in (".dict", ".list", ".set") else ("assign", k)
                    steps = [("reset", f, how) if (s[0] == "reset" and s[1] == f) else s for s in steps]
                    patched.append(f)
                else:
                    unknown.append("clear: the statements read from the AST %s field %s, the measured clear() %s"
                                   % ("reset" if ast_says else "do not reset", f,
                                      "puts it back" if real else "does not put it back"))
            if REGISTRY in names and "restored" in mc:
                if table_restores(init_fields, steps) != bool(mc["restored"]):
                    unknown.append("clear: restore loop read from the AST: %s, measured: every registered class restored: %s"
                                   % (table_restores(init_fields, steps), mc["restored"]))
            prov["clearSteps"] = "AST, confirmed by measurement (%d dirtied reports)" % mc.get("trials", 0)
            if patched:
                prov["clearSteps"] += "; kinds of %s probed" % ", ".join(patched)
    elif measured_clear is not None:
        # fallback (b): synthesise the statements from what clear() measurably does
        if probed_init is not None:
            pk = dict(probed_init)
            init_fields = [(f, pk.get(f, k)) for f, k in init_fields]
        steps = []
        for f in names:
            rec = measured_clear.get(f)
            if f == REGISTRY or rec is None or not rec["reset"] or rec["seen"] == 0:
                continue
            k = rec["kind"]
            steps.append(("reset", f, "clearCall" if rec["kept"] and k in (".dict", ".list", ".set") else ("assign", k)))
        rec = measured_clear.get(REGISTRY)
        if mc.get("restored"):
            steps.append(("restoreEach", REGISTRY))
        if rec is not None and rec["reset"]:
            k = rec["kind"]
            steps.append(("reset", REGISTRY, "clearCall" if rec["kept"] and k in (".dict", ".list", ".set") else ("assign", k)))
        prov["clearSteps"] = ("probed: synthesised from clear() on %d dirtied reports (AST reading left %d constructs not "
                              "understood: %s)" % (mc.get("trials", 0), len(a["clear_unknown"]),
                                                   "; ".join(a["clear_unknown"])[:400]))
    else:
        unknown += a["clear_unknown"]
        prov["clearSteps"] = "AST, incomplete; no measurement (%s)" % (mc.get("error") or "probe unavailable")

    # ---- methodDirties: AST (may-mutate, helpers followed) united with what a call measurably changes
    md = [(n, list(fs)) for n, fs in a["method_dirties"]]
    added = []
    for n, changed in sorted((m.get("method_dirties") or {}).items()):
        if n in NOT_DIRTYING or not changed:
            continue
        cur = next((fs for nn, fs in md if nn == n), None)
        if cur is None:
            md.append((n, list(changed)))
            added.append("%s: %s" % (n, ", ".join(changed)))
        else:
            extra = [f for f in changed if f not in cur]
            if extra:
                cur.extend(extra)
                added.append("%s: %s" % (n, ", ".join(extra)))
    md.sort()
    prov["methodDirties"] = "AST" + ("; probed additions (%s)" % "; ".join(added) if added else
                                     ", measured calls of %d methods change nothing more" % len(m.get("method_dirties") or {}))

    # ---- the rest of the package
    known = set(names)
    ext_all = dict(a["external_all"])
    ext_probed = [f for f in (m.get("external_dirties") or []) if f not in ext_all]
    for f in ext_probed:
        ext_all[f] = "measured: a resolver of pedal.resolvers changes it"
    prov["externalDirties"] = "AST" + ("; probed additions (%s)" % ", ".join(ext_probed) if ext_probed else "")
    external = sorted(f for f in ext_all if f in known)
    external_new = sorted("%s (%s)" % (f, r) for f, r in ext_all.items() if f not in known)

    # ---- boolean shape facts: the measurement decides where it could be made; the AST reading otherwise
    def decide(key, ast_value, measured):
        if measured is None:
            prov[key] = "AST"
            return bool(ast_value)
        if measured and ast_value:
            prov[key] = "AST, confirmed by measurement"
        elif measured:
            prov[key] = "probed (AST shape not recognised)"
        elif ast_value:
            prov[key] = "AST shape recognised, but the measured behaviour contradicts it"
        else:
            prov[key] = "AST and measurement: no"
        return bool(measured)

    mo = m.get("override") or {}
    info = {
        "init_fields": init_fields, "clear_steps": steps, "method_dirties": md, "class_dirties": a["class_dirties"],
        "class_attrs": a["class_attrs"], "external": external, "external_new": external_new, "unknown": unknown,
        "lazy_tool_reset": decide("lazyToolReset", a["lazy_tool_reset"], m.get("lazy_tool_reset")),
        "backup_per_class": decide("backupPerClass", a["backup_per_class"], mo.get("backup_per_class")),
        "override_registers": decide("overrideRegisters", a["override_registers"], mo.get("override_registers")),
        "restore_clears_pools": decide("restoreClearsPools", a["restore_clears_pools"], mo.get("restore_clears_pools")),
        "pool_override_registers": decide("poolOverrideRegisters", a["pool_override_registers"],
                                          mo.get("pool_override_registers")),
        "env_clears_first": decide("envClearsFirst", a["env_clears_first"], m.get("env_clears_first")),
        "tifa_reset_rebuilds": decide("tifaResetRebuilds", a["tifa_reset_rebuilds"], m.get("tifa_reset_rebuilds")),
    }
    return info, prov


def analyse(probe=True):
    a, _ = read_ast()
    m = None
    if probe:
        try:
            import procstate_probe
            m = procstate_probe.measure()
        except Exception as e:       # noqa: BLE001
            m = None
            a.setdefault("probe_error", "%s: %s" % (type(e).__name__, e))
    info, prov = combine(a, m)
    info["provenance"] = prov
    if "probe_error" in a:
        prov["probe"] = "unavailable: " + a["probe_error"][:200]
    return info


def render(info):
    pairs = lambda xs: lean_list(["(%s, %s)" % (lean_str(a), _strs(b)) for a, b in xs])     # noqa: E731
    lines = [
        "import PedalModel.ProcStateTypes",
        "/- GENERATED by harness/translate_procstate.py from the tree under test (ASTs; measurement where noted in the",
        "   evidence). Do not edit. -/",
        "namespace Pedal.Gen.ProcState",
        "open Pedal.ProcState",
        "",
        "def tables : Tables where",
        "  initFields := " + lean_list(["(%s, %s)" % (lean_str(f), k) for f, k in info["init_fields"]]),
        "  clearSteps := " + lean_list([step_lean(s) for s in info["clear_steps"]]),
        "  methodDirties := " + pairs(info["method_dirties"]),
        "  classDirties := " + pairs(info["class_dirties"]),
        "  classAttrs := " + _strs(info["class_attrs"]),
        "  externalDirties := " + _strs(info["external"]),
        "  externalNewFields := " + _strs(info["external_new"]),
        "  unknownSteps := " + _strs(info["unknown"]),
        "  lazyToolReset := " + _b(info["lazy_tool_reset"]),
        "  backupPerClass := " + _b(info["backup_per_class"]),
        "  overrideRegisters := " + _b(info["override_registers"]),
        "  restoreClearsPools := " + _b(info["restore_clears_pools"]),
        "  poolOverrideRegisters := " + _b(info["pool_override_registers"]),
        "  envClearsFirst := " + _b(info["env_clears_first"]),
        "  tifaResetRebuilds := " + _b(info["tifa_reset_rebuilds"]),
        "",
        "end Pedal.Gen.ProcState",
        "",
    ]
    return "\n".join(lines)


def translate():
    info = analyse()
    src = render(info)
    path = os.path.join(LEAN_DIR, "PedalModel", "Gen", "ProcStateTables.lean")
    changed = write_if_changed(path, src)
    return {"file": "PedalModel/Gen/ProcStateTables.lean", "sha1": hashlib.sha1(src.encode()).hexdigest()[:12],
            "changed": changed, "init_fields": [f for f, _ in info["init_fields"]], "unknown": info["unknown"],
            "external_new": info["external_new"], "provenance": info["provenance"]}


if __name__ == "__main__":
    import json
    import sys
    res = analyse(probe="--no-probe" not in sys.argv)
    if "--lean" in sys.argv:
        print(render(res))
    else:
        print(json.dumps(res, indent=1, default=str))

"""
Regenerates lean/PedalModel/Gen/ProcStateTables.lean from the tree under test, by walking ASTs
(nothing is imported, nothing is executed):

* pedal/core/report.py, class Report:
    - `__init__`: every `self.X = <expr>` -> (X, kind of <expr>)              -> `initFields`
    - `clear`: its statements in order, calls to other `self.m()` methods inlined  -> `clearSteps`
    - every other method: which `self.X` it mutates (assignment, augmented assignment, item
      assignment/deletion, or a mutating container method anywhere down a subscript/attribute chain
      rooted at `self.X`)                                                       -> `methodDirties`
    - classmethods mutating `cls.X`                                             -> `classDirties`
    - names bound in the class body                                             -> `classAttrs`
    - `__getitem__` has the shape "missing tool -> TOOLS[name].reset(report=self)" -> `lazyToolReset`
* every other module of the package: mutations of `<report>.X` where `<report>` is a name `report` /
  `MAIN_REPORT` or `self.report`                                               -> `externalDirties`
  (X not initialised by `Report.__init__` is listed in `externalNewFields`: an attribute nobody resets)
* pedal/core/feedback.py, class Feedback: how `override` finds the backup dictionary (own `__dict__` or
  inherited lookup), whether it registers the class with the report, whether `_restore_overrides`
  empties the pool table, whether `override_for_pool` registers the class
* pedal/core/environment.py: `Environment.__init__` calls `report.clear()` before it contextualises
* pedal/tifa/__init__.py: the tool's `reset` calls `reset_builtin_modules()` before installing fresh data

Anything in `Report.clear` (or a method it calls) that is not one of the understood statement shapes is
written into `unknownSteps`, which makes the table obligation fail: nothing is dropped silently.
"""
import ast
import hashlib
import os

from common import LEAN_DIR, REPO, lean_list, lean_str, write_if_changed

MUTATORS = {"append", "add", "clear", "remove", "update", "pop", "extend", "insert", "discard", "setdefault",
            "popitem", "sort", "reverse", "appendleft", "popleft"}
NOT_DIRTYING = {"__init__", "clear", "full_clear", "clear_overridden_feedback"}
REPORT_NAMES = {"report", "MAIN_REPORT"}


def _src(node):
    try:
        return ast.unparse(node)
    except Exception:       # noqa: BLE001
        return "<%s>" % type(node).__name__


def kind_of(expr):
    """-> Lean term of type Kind"""
    if isinstance(expr, ast.Dict) and not expr.keys:
        return ".dict"
    if isinstance(expr, ast.List) and not expr.elts:
        return ".list"
    if isinstance(expr, ast.Constant) and expr.value is None:
        return ".none"
    if isinstance(expr, ast.Call) and isinstance(expr.func, ast.Name) and not expr.args and not expr.keywords:
        if expr.func.id == "dict":
            return ".dict"
        if expr.func.id == "list":
            return ".list"
        if expr.func.id == "set":
            return ".set"
        return ".ctor " + lean_str(expr.func.id)
    return ".opaque " + lean_str(_src(expr))


def root_field(node, owner):
    """`owner.X`, `owner.X[...]`, `owner.X[...].y[...]` ... -> X (else None)"""
    while True:
        if isinstance(node, ast.Attribute) and is_owner(node.value, owner):
            return node.attr
        if isinstance(node, ast.Subscript):
            node = node.value
        elif isinstance(node, ast.Attribute):
            node = node.value
        else:
            return None


def is_owner(node, owner):
    if isinstance(owner, str):
        return isinstance(node, ast.Name) and node.id == owner
    # owner = "any report reference"
    if isinstance(node, ast.Name) and node.id in REPORT_NAMES:
        return True
    return (isinstance(node, ast.Attribute) and node.attr == "report" and isinstance(node.value, ast.Name)
            and node.value.id == "self")


def mutated_fields(body, owner):
    """names X such that the statements mutate `owner.X`"""
    out = []

    def add(x):
        if x is not None and x not in out:
            out.append(x)

    for node in ast.walk(ast.Module(body=list(body), type_ignores=[])):
        if isinstance(node, ast.Assign):
            for t in node.targets:
                for tt in (t.elts if isinstance(t, (ast.Tuple, ast.List)) else [t]):
                    if isinstance(tt, (ast.Attribute, ast.Subscript)):
                        add(root_field(tt, owner))
        elif isinstance(node, (ast.AugAssign, ast.AnnAssign)):
            if isinstance(node.target, (ast.Attribute, ast.Subscript)):
                add(root_field(node.target, owner))
        elif isinstance(node, ast.Delete):
            for t in node.targets:
                if isinstance(t, (ast.Attribute, ast.Subscript)):
                    add(root_field(t, owner))
        elif isinstance(node, ast.Call) and isinstance(node.func, ast.Attribute) and node.func.attr in MUTATORS:
            add(root_field(node.func.value, owner))
    return out


def _is_docstring(stmt):
    return isinstance(stmt, ast.Expr) and isinstance(stmt.value, ast.Constant) and isinstance(stmt.value.value, str)


def clear_steps(methods, name, depth=0):
    """-> (list of Lean ClearStep terms, list of unknown statement sources)"""
    steps, unknown = [], []
    if depth > 4 or name not in methods:
        return steps, ["call of unknown method " + name]
    for st in methods[name].body:
        if _is_docstring(st) or isinstance(st, ast.Pass):
            continue
        # self.X.clear()
        if (isinstance(st, ast.Expr) and isinstance(st.value, ast.Call) and isinstance(st.value.func, ast.Attribute)
                and not st.value.args and not st.value.keywords):
            f = st.value.func
            if (f.attr == "clear" and isinstance(f.value, ast.Attribute) and isinstance(f.value.value, ast.Name)
                    and f.value.value.id == "self"):
                steps.append(".reset %s .clearCall" % lean_str(f.value.attr))
                continue
            # self.m()
            if isinstance(f.value, ast.Name) and f.value.id == "self":
                s2, u2 = clear_steps(methods, f.attr, depth + 1)
                steps += s2
                unknown += u2
                continue
        # self.X = <expr>
        if (isinstance(st, ast.Assign) and len(st.targets) == 1 and isinstance(st.targets[0], ast.Attribute)
                and isinstance(st.targets[0].value, ast.Name) and st.targets[0].value.id == "self"):
            steps.append(".reset %s (.assign (%s))" % (lean_str(st.targets[0].attr), kind_of(st.value)))
            continue
        # for v in self.X: v._restore_overrides()
        if (isinstance(st, ast.For) and isinstance(st.target, ast.Name) and isinstance(st.iter, ast.Attribute)
                and isinstance(st.iter.value, ast.Name) and st.iter.value.id == "self" and not st.orelse
                and len(st.body) == 1 and isinstance(st.body[0], ast.Expr) and isinstance(st.body[0].value, ast.Call)):
            c = st.body[0].value
            if (isinstance(c.func, ast.Attribute) and c.func.attr == "_restore_overrides" and isinstance(c.func.value, ast.Name)
                    and c.func.value.id == st.target.id and not c.args and not c.keywords):
                steps.append(".restoreEach %s" % lean_str(st.iter.attr))
                continue
        unknown.append(_src(st).split("\n")[0][:120])
    return steps, unknown


def _calls(body, pred):
    for node in ast.walk(ast.Module(body=list(body), type_ignores=[])):
        if isinstance(node, ast.Call) and pred(node):
            return True
    return False


def _find_class(tree, name):
    for n in tree.body:
        if isinstance(n, ast.ClassDef) and n.name == name:
            return n
    raise ValueError("class %s not found" % name)


def _methods(cls):
    return {n.name: n for n in cls.body if isinstance(n, (ast.FunctionDef, ast.AsyncFunctionDef))}


def _parse(rel):
    import warnings
    with open(os.path.join(REPO, rel), encoding="utf-8") as fh:
        with warnings.catch_warnings():
            warnings.simplefilter("ignore")
            return ast.parse(fh.read(), rel)


def _b(x):
    return "true" if x else "false"


def _strs(xs):
    return lean_list([lean_str(x) for x in xs])


def analyse():
    info = {}
    report = _find_class(_parse("pedal/core/report.py"), "Report")
    methods = _methods(report)
    # -- __init__
    init_fields, unknown = [], []
    if "__init__" not in methods or "clear" not in methods:
        raise ValueError("Report.__init__ / Report.clear not found")
    for st in methods["__init__"].body:
        if _is_docstring(st):
            continue
        if (isinstance(st, ast.Assign) and len(st.targets) == 1 and isinstance(st.targets[0], ast.Attribute)
                and isinstance(st.targets[0].value, ast.Name) and st.targets[0].value.id == "self"):
            init_fields.append((st.targets[0].attr, kind_of(st.value)))
        elif isinstance(st, ast.Expr) and isinstance(st.value, ast.Call) and _src(st.value.func).startswith("log."):
            continue
        else:
            unknown.append("__init__: " + _src(st).split("\n")[0][:120])
    info["init_fields"] = init_fields
    # -- clear
    steps, u = clear_steps(methods, "clear")
    unknown += ["clear: " + x for x in u]
    info["clear_steps"] = steps
    # -- other methods
    method_dirties, class_dirties = [], []
    for name, fn in methods.items():
        if name in NOT_DIRTYING:
            continue
        first = fn.args.args[0].arg if fn.args.args else None
        is_cls = any(isinstance(d, ast.Name) and d.id == "classmethod" for d in fn.decorator_list)
        if first is None:
            continue
        fs = mutated_fields(fn.body, first)
        if fs:
            (class_dirties if is_cls else method_dirties).append((name, fs))
    info["method_dirties"], info["class_dirties"] = method_dirties, class_dirties
    class_attrs = []
    for n in report.body:
        if isinstance(n, ast.Assign):
            class_attrs += [t.id for t in n.targets if isinstance(t, ast.Name)]
        elif isinstance(n, ast.AnnAssign) and isinstance(n.target, ast.Name):
            class_attrs.append(n.target.id)
    info["class_attrs"] = class_attrs
    # -- __getitem__: lazy reset
    lazy = False
    gi = methods.get("__getitem__")
    if gi is not None:
        for st in gi.body:
            if (isinstance(st, ast.If) and isinstance(st.test, ast.Compare) and len(st.test.ops) == 1
                    and isinstance(st.test.ops[0], ast.NotIn) and _src(st.test.comparators[0]) == "self._tool_data"):
                lazy = _calls(st.body, lambda c: isinstance(c.func, ast.Attribute) and c.func.attr == "reset"
                              and any(k.arg == "report" and _src(k.value) == "self" for k in c.keywords))
    info["lazy_tool_reset"] = lazy
    # -- the rest of the package
    known = {f for f, _ in init_fields}
    external, external_new = [], []
    pkg = os.path.join(REPO, "pedal")
    for d, _, files in sorted(os.walk(pkg)):
        for fn in sorted(files):
            if not fn.endswith(".py"):
                continue
            rel = os.path.relpath(os.path.join(d, fn), REPO)
            if rel == os.path.join("pedal", "core", "report.py"):
                continue
            try:
                tree = _parse(rel)
            except SyntaxError:
                continue
            for f in mutated_fields(tree.body, None):
                (external if f in known else external_new).append((f, rel))
    info["external"] = sorted({f for f, _ in external})
    info["external_new"] = sorted({"%s (%s)" % (f, r) for f, r in external_new})
    # -- Feedback.override & co.
    fb = _methods(_find_class(_parse("pedal/core/feedback.py"), "Feedback"))

    def own_dict_lookup(fn):
        return _calls(fn.body, lambda c: _src(c.func) == "cls.__dict__.get" and c.args
                      and isinstance(c.args[0], ast.Constant) and c.args[0].value == "_override_backups")

    def inherited_lookup(fn):
        for node in ast.walk(fn):
            if isinstance(node, ast.Compare) and _src(node.left) == "cls._override_backups":
                return True
            if isinstance(node, ast.For) and _src(node.iter).startswith("cls._override_backups"):
                return True
        return False

    registers = lambda c: isinstance(c.func, ast.Attribute) and c.func.attr == "override_feedback"   # noqa: E731
    ov, rs, ofp = fb.get("override"), fb.get("_restore_overrides"), fb.get("override_for_pool")
    if ov is None or rs is None:
        raise ValueError("Feedback.override / _restore_overrides not found")
    info["backup_per_class"] = (own_dict_lookup(ov) and own_dict_lookup(rs)
                                and not inherited_lookup(ov) and not inherited_lookup(rs))
    info["override_registers"] = _calls(ov.body, registers)
    info["restore_clears_pools"] = _calls(rs.body, lambda c: _src(c.func) == "cls._pools.clear")
    info["pool_override_registers"] = ofp is not None and _calls(ofp.body, registers)
    # -- Environment.__init__
    env = _methods(_find_class(_parse("pedal/core/environment.py"), "Environment"))["__init__"]
    pos_clear = pos_ctx = None
    for i, st in enumerate(env.body):
        s = _src(st)
        if pos_clear is None and isinstance(st, ast.Expr) and s in ("report.clear()", "self.report.clear()"):
            pos_clear = i
        if pos_ctx is None and "contextualize(" in s:
            pos_ctx = i
    info["env_clears_first"] = pos_clear is not None and pos_ctx is not None and pos_clear < pos_ctx
    # -- tifa reset
    tifa = _parse("pedal/tifa/__init__.py")
    rebuilds = False
    for n in tifa.body:
        if isinstance(n, ast.FunctionDef) and n.name == "reset":
            pos_rb = pos_set = None
            for i, st in enumerate(n.body):
                s = _src(st)
                if pos_rb is None and s == "reset_builtin_modules()":
                    pos_rb = i
                if pos_set is None and s.startswith("report[TOOL_NAME] ="):
                    pos_set = i
            rebuilds = pos_rb is not None and pos_set is not None and pos_rb < pos_set
    info["tifa_reset_rebuilds"] = rebuilds
    info["unknown"] = unknown
    return info


def render(info):
    pairs = lambda xs: lean_list(["(%s, %s)" % (lean_str(a), _strs(b)) for a, b in xs])     # noqa: E731
    lines = [
        "import PedalModel.ProcStateTypes",
        "/- GENERATED by harness/translate_procstate.py from the ASTs of the tree under test. Do not edit. -/",
        "namespace Pedal.Gen.ProcState",
        "open Pedal.ProcState",
        "",
        "def tables : Tables where",
        "  initFields := " + lean_list(["(%s, %s)" % (lean_str(f), k) for f, k in info["init_fields"]]),
        "  clearSteps := " + lean_list(info["clear_steps"]),
        "  methodDirties := " + pairs(info["method_dirties"]),
        "  classDirties := " + pairs(info["class_dirties"]),
        "  classAttrs := " + _strs(info["class_attrs"]),
        "  externalDirties := " + _strs(info["external"]),
        "  externalNewFields := " + _strs(info["external_new"]),
        "  unknownSteps := " + _strs(info["unknown"]),
        "  lazyToolReset := " + _b(info["lazy_tool_reset"]),
        "  backupPerClass := " + _b(info["backup_per_class"]),
        "  overrideRegisters := " + _b(info["override_registers"]),
        "  restoreClearsPools := " + _b(info["restore_clears_pools"]),
        "  poolOverrideRegisters := " + _b(info["pool_override_registers"]),
        "  envClearsFirst := " + _b(info["env_clears_first"]),
        "  tifaResetRebuilds := " + _b(info["tifa_reset_rebuilds"]),
        "",
        "end Pedal.Gen.ProcState",
        "",
    ]
    return "\n".join(lines)


def translate():
    info = analyse()
    src = render(info)
    path = os.path.join(LEAN_DIR, "PedalModel", "Gen", "ProcStateTables.lean")
    changed = write_if_changed(path, src)
    return {"file": "PedalModel/Gen/ProcStateTables.lean", "sha1": hashlib.sha1(src.encode()).hexdigest()[:12],
            "changed": changed, "init_fields": [f for f, _ in info["init_fields"]], "unknown": info["unknown"],
            "external_new": info["external_new"]}


if __name__ == "__main__":
    import json
    print(json.dumps(analyse(), indent=1))

#!/bin/bash
# MANIFEST.setup_cmd: pre-build the Lean project (models, proofs) and every line-protocol driver, offline.
# Every check re-runs `lake build` for its own targets (a no-op after this), so a module of a property that is
# still being built must not make the whole setup fail: failures are reported here and decided by the check.
cd "$(dirname "$0")/lean" || exit 2
command -v lake >/dev/null || { echo "lake not on PATH"; exit 2; }
rc=0
lake build PedalModel || { echo "setup: PedalModel did not build completely (the affected checks will report it)"; }
lake build PedalProofs || { echo "setup: PedalProofs did not build completely (the affected checks will report it)"; }
for d in $(grep -o 'name = "driver_[a-z0-9_]*"' lakefile.toml | sed 's/name = "//; s/"//'); do
  lake build "$d" || echo "setup: $d did not build (its check will report it)"
done
exit $rc

#!/bin/bash
# MANIFEST.setup_cmd: build the Lean project (models, proofs) and every line-protocol driver, offline.
set -e
cd "$(dirname "$0")/lean"
lake build
lake build $(grep -o 'name = "driver_[a-z0-9_]*"' lakefile.toml | sed 's/name = "//; s/"//')

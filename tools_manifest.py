#!/usr/bin/env python3
"""Regenerates MANIFEST.json from harness/registry.json (one entry per claimed property) so that the
file stays valid while checks are added.  Run: python3 tools_manifest.py"""
import json, os
HERE = os.path.dirname(os.path.abspath(__file__))
reg = json.load(open(os.path.join(HERE, "harness", "registry.json")))
props = [json.loads(l) for l in open(os.path.join(HERE, "properties.jsonl")) if l.strip()]
checks, na = [], []
for p in props:
    pid = p["id"]
    r = reg.get(pid)
    if r is None or not r.get("claimed"):
        na.append({"property_id": pid, "reason": (r or {}).get("reason", "check not yet built in this round; see DESIGN.md section 4 for the planned model")})
        continue
    checks.append({
        "property_id": pid,
        "quick_cmd": "./check %s --tier quick" % pid,
        "thorough_cmd": "./check %s --tier thorough" % pid,
        "evidence_file": "evidence/%s.json" % pid,
        "replay_cmd_template": "./check %s --replay {path}" % pid,
        "engine": "lean4-model+correspondence",
        "level_claimed": {"category": "proof", "text": r["level_text"], "design_ref": r.get("design_ref", "DESIGN.md §4 " + pid)},
        "level_note": r["level_note"],
        "technique": r.get("technique", "Lean 4 theorems about an executable model; model tied to /repo by regenerated tables and a differential correspondence check; failing-input search against a property oracle"),
    })
man = {
    "version": 1,
    "setup_cmd": "./setup.sh",
    "hooks": reg["_hooks"],
    "engines": [{"name": "lean4-model+correspondence", "path": "lean/ harness/ check",
                 "serves_properties": [c["property_id"] for c in checks],
                 "kind_free_text": "Lean 4.33 lake project (models, generated tables, theorems, native line-protocol driver) + Python harness (translators, differential correspondence, failing-input search)"}],
    "checks": checks,
    "not_applicable": na,
    "notes": reg.get("_notes", ""),
}
json.dump(man, open(os.path.join(HERE, "MANIFEST.json"), "w"), indent=1)
print("claimed:", [c["property_id"] for c in checks], "not claimed:", [n["property_id"] for n in na])

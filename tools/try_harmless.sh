#!/bin/bash
# tools/try_harmless.sh <harmless-dir> <Cxx> [<Cyy> ...]
# A behaviour-preserving change must leave every named check QUIET: applies patch.diff in a scratch worktree of
# /repo HEAD, confirms the suite counts, runs the checks (quick tier) against it and reports exit codes.
set -u
d="$1"; shift
wt=$(mktemp -d /tmp/wt_hl_XXXX); rmdir "$wt"
git -C /repo worktree add -q "$wt" HEAD || exit 2
cleanup() { git -C /repo worktree remove --force "$wt" >/dev/null 2>&1; git -C /repo worktree prune; }
trap cleanup EXIT
if ! git -C "$wt" apply --check "$d/patch.diff" 2>/dev/null; then echo "PATCH DOES NOT APPLY to /repo HEAD"; exit 3; fi
git -C "$wt" apply "$d/patch.diff"
echo "--- suite with patch: $(cd "$wt" && PYTHONPATH="$wt" /venv/bin/python -m pytest -q -p no:cacheprovider --timeout=900 2>&1 | tail -1)"
bad=0
for id in "$@"; do
  out=$(cd /verif && VERIF_REPO="$wt" ./check "$id" --tier quick 2>&1); rc=$?
  echo "$out" | grep -v conda.cli | grep -v '^KNOWN-FINDING' | tail -3 | cut -c1-260
  echo "check_${id}_rc=$rc"
  [ $rc -ne 0 ] && bad=1
done
[ $bad -eq 0 ] && echo "QUIET (as it must be)" || echo "ALARM ON A HARMLESS CHANGE"
exit $bad

#!/bin/bash
# tools/run_seeds.sh [seed-id ...]   (default: every seeded/<id>)
# Detection regression: for each kept seeded change, apply it in a scratch worktree of /repo HEAD (never in /repo)
# and run the check of the property it breaks (quick tier). A kept seed must make that check exit 1.
cd "$(dirname "$0")/.."
ids=("$@"); [ ${#ids[@]} -eq 0 ] && ids=($(ls seeded))
miss=0
for sid in "${ids[@]}"; do
  d="$PWD/seeded/$sid"; prop=$(jq -r '.breaks_property // .property' "$d/meta.json")
  wt=$(mktemp -d /tmp/wt_rs_XXXX); rmdir "$wt"; git -C /repo worktree add -q "$wt" HEAD || exit 2
  if ! git -C "$wt" apply "$d/patch.diff" 2>/dev/null; then echo "$sid: PATCH NO LONGER APPLIES to /repo HEAD"; git -C /repo worktree remove --force "$wt"; miss=$((miss+1)); continue; fi
  out=$(VERIF_REPO="$wt" ./check "$prop" --tier quick 2>&1); rc=$?
  nv=$(echo "$out" | grep -c '^VIOLATION '); nf=$(echo "$out" | grep '^VIOLATION ' | grep -vc 'no-failing-input-found')
  if [ $rc -eq 1 ] && [ $nv -gt 0 ]; then echo "$sid: CAUGHT by $prop ($nv violation lines, $nf with a failing input)"; else echo "$sid: MISSED by $prop (rc=$rc)"; miss=$((miss+1)); fi
  git -C /repo worktree remove --force "$wt"
done
git -C /repo worktree prune
echo "missed=$miss of ${#ids[@]}"
[ $miss -eq 0 ]

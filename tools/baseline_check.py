#!/usr/bin/env python3
"""tools/baseline_check.py [repo]  -- runs the pinned suite (guard variable unset) with junit output and compares the
set of passing tests with /root/.vp/BASELINE.json's stable_pass (not just the counts)."""
import json, os, subprocess, sys, tempfile, xml.etree.ElementTree as ET
repo = sys.argv[1] if len(sys.argv) > 1 else "/repo"
base = json.load(open("/root/.vp/BASELINE.json"))
want = set(base["stable_pass"])
with tempfile.TemporaryDirectory() as td:
    xml = os.path.join(td, "r.xml")
    env = dict(os.environ); env.pop("PEDAL_EDU_PEDAL_VERIF", None); env["PYTHONPATH"] = repo
    subprocess.run(["/venv/bin/python", "-m", "pytest", "-q", "-p", "no:cacheprovider", "--timeout=900",
                    "--continue-on-collection-errors", "--junitxml=" + xml], cwd=repo, env=env, capture_output=True)
    got = set()
    for tc in ET.parse(xml).getroot().iter("testcase"):
        if not any(ch.tag in ("failure", "error", "skipped") for ch in tc):
            got.add("%s::%s" % (tc.get("classname"), tc.get("name")))
print("baseline stable_pass:", len(want), "passing now:", len(got))
missing = sorted(want - got)
print("stable_pass tests not passing now:", len(missing))
for m in missing[:20]:
    print("  ", m)
sys.exit(1 if missing else 0)

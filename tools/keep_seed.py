#!/usr/bin/env python3
"""tools/keep_seed.py <src-dir> <seed-id> <caught-by comma list or -> <missed-by comma list or -> [note]
Copies a seeded change that the main session has CONFIRMED (tools/try_seed.sh: baseline demo PASS, patched demo
FAIL, suite 493/10/15) into seeded/<seed-id>/ and records what was run and what each check said."""
import json, os, shutil, subprocess, sys
src, sid, caught, missed = sys.argv[1:5]
note = sys.argv[5] if len(sys.argv) > 5 else ""
here = os.path.dirname(os.path.dirname(os.path.abspath(__file__)))
dst = os.path.join(here, "seeded", sid)
os.makedirs(dst, exist_ok=True)
for f in ("patch.diff", "demo.py"):
    shutil.copy(os.path.join(src, f), os.path.join(dst, f))
meta = json.load(open(os.path.join(src, "meta.json")))
head = subprocess.run(["git", "-C", "/repo", "rev-parse", "--short", "HEAD"], capture_output=True, text=True).stdout.strip()
meta.update({
    "breaks_property": meta.get("property"),
    "needs_to_manifest": meta.get("needs"),
    "confirmed_by_main_session": {
        "repo_head": head,
        "ran": ["tools/try_seed.sh %s <checks>  (scratch worktree of /repo HEAD: demo on baseline, git apply patch.diff, "
                "demo, full pytest suite, ./check <id> --tier quick with VERIF_REPO=<worktree>)" % src],
        "baseline_demo": "PASS (exit 0)", "patched_demo": "FAIL (exit 1)",
        "suite_with_patch": "493 passed, 10 failed, 15 skipped",
    },
    "checks_that_report_it": [] if caught == "-" else caught.split(","),
    "checks_quiet_on_it": [] if missed == "-" else missed.split(","),
    "note": note,
})
json.dump(meta, open(os.path.join(dst, "meta.json"), "w"), indent=1)
print("kept", dst)

#!/usr/bin/env python3
"""tools/design_from_notes.py <Cxx> [<Cyy> ...]
Inserts (or replaces) a '### 9.4.<Cxx> ... built, registered' section in DESIGN.md, before '### 9.5 Seeded changes',
assembled from notes/Cxx.md (files, what is claimed = registry level_text/level_note, DESIGN delta, mutations) and
from KNOWN_FINDINGS.jsonl (fix: commits as merged into /repo, open findings)."""
import json, os, re, sys
here = os.path.dirname(os.path.dirname(os.path.abspath(__file__)))
dpath = os.path.join(here, "DESIGN.md")
design = open(dpath, encoding="utf-8").read()
reg = json.load(open(os.path.join(here, "harness", "registry.json")))
kf = [json.loads(l) for l in open(os.path.join(here, "KNOWN_FINDINGS.jsonl")) if l.strip() and not l.startswith("#")]


def section(txt, pattern):
    """Body of the '## [N.] <title matching pattern>' section of the notes."""
    m = re.search(r'^## (?:\d+\w?\.?\s*)?[^\n]*(?:%s)[^\n]*\n(.*?)(?=^## |\Z)' % pattern, txt, re.S | re.M | re.I)
    return m.group(1).strip() if m else ""


for pid in sys.argv[1:]:
    txt = open(os.path.join(here, "notes", pid + ".md"), encoding="utf-8").read()
    title = txt.splitlines()[0].lstrip("# ").strip()
    files = re.search(r'^Files:.*?(?=\n\n|\n## )', txt, re.S | re.M)
    e = reg[pid]
    fixed = [k for k in kf if k["property"] == pid and k["status"] == "fixed"]
    opened = [k for k in kf if k["property"] == pid and k["status"] == "open"]
    parts = ["### 9.4.%s %s — built, registered\n" % (pid, title.split("—", 1)[-1].strip() if "—" in title else title)]
    if files:
        parts.append(re.sub(r'\s*Worktree[^\n]*(\n[^\n]*)?$', '', files.group(0).strip(), flags=re.S) + "\n")
    parts.append("**Claim (MANIFEST level).** " + e["level_text"] + "\n")
    parts.append("**Limits / trusted (MANIFEST note).** " + e["level_note"] + "\n")
    if e.get("technique"):
        parts.append("**Technique.** " + e["technique"] + "\n")
    delta = section(txt, "DESIGN")
    if delta:
        parts.append("**As built versus the §4 plan.**\n\n" + delta + "\n")
    if fixed:
        parts.append("**Repairs merged into /repo (`fix:` commits; suite unchanged).**\n\n" +
                     "\n".join("* `%s` — %s" % (k["commit"], re.sub(r'^fixed: property=%s (%s )?' % (pid, k["commit"]), '', k["what"]))
                               for k in fixed) + "\n")
    if opened:
        parts.append("**Open findings (KNOWN_FINDINGS.jsonl; reproduced on /repo, no small safe repair).**\n\n" +
                     "\n".join("* %s" % re.sub(r'^open: ', '', k["what"]) for k in opened) + "\n")
    later = section(txt, "Robustness|Strengthening|False-alarm")
    if later:
        parts.append("**Later rounds (seeded defects that were missed, harmless refactorings that alarmed).**\n\n" + later + "\n")
    mut = section(txt, "Mutation|Mutants")
    if mut:
        parts.append("**Hand mutations tried by the builder (quick tier).**\n\n" + mut + "\n")
    body = "\n".join(parts) + "\n"
    # notes headings would clash with DESIGN's own: demote
    body = re.sub(r'^(#{1,3}) (?!9\.4\.)', r'#### ', body, flags=re.M)
    pat = re.compile(r'^### 9\.4\.%s .*?(?=^### 9\.)' % pid, re.S | re.M)
    if pat.search(design):
        design = pat.sub(lambda _m: body, design)
    else:
        design = design.replace("### 9.5 Seeded changes", body + "### 9.5 Seeded changes", 1)
    print("DESIGN section written for", pid)
open(dpath, "w", encoding="utf-8").write(design)

#!/bin/bash
# tools/try_seed.sh <seed-dir> <Cxx> [<Cyy> ...]
# Confirms a seeded change in a scratch worktree of /repo HEAD (never in /repo itself):
#   demo on baseline must PASS, demo with patch must FAIL, suite counts must stay 493/10/15,
# then runs the named checks (quick tier) against the patched tree and reports their exit codes.
set -u
seed="$1"; shift
wt=$(mktemp -d /tmp/wt_try_XXXX); rmdir "$wt"
git -C /repo worktree add -q "$wt" HEAD || exit 2
cleanup() { git -C /repo worktree remove --force "$wt" >/dev/null 2>&1; git -C /repo worktree prune; }
trap cleanup EXIT
echo "--- baseline demo"; (cd "$wt" && PYTHONPATH="$wt" timeout 300 /venv/bin/python -W ignore "$seed/demo.py" >/tmp/try_seed_base.out 2>&1); b=$?; tail -2 /tmp/try_seed_base.out | grep -v conda.cli; echo "baseline_rc=$b"
if ! git -C "$wt" apply --check "$seed/patch.diff" 2>/dev/null; then echo "PATCH DOES NOT APPLY to /repo HEAD"; exit 3; fi
git -C "$wt" apply "$seed/patch.diff"
echo "--- patched demo"; (cd "$wt" && PYTHONPATH="$wt" timeout 300 /venv/bin/python -W ignore "$seed/demo.py" >/tmp/try_seed_pat.out 2>&1); p=$?; tail -3 /tmp/try_seed_pat.out | grep -v conda.cli; echo "patched_rc=$p"
echo "--- suite with patch"; (cd "$wt" && PYTHONPATH="$wt" /venv/bin/python -m pytest -q -p no:cacheprovider --timeout=900 2>&1 | tail -1)
for id in "$@"; do
  echo "--- ./check $id against the patched tree"
  # capture the check's own exit status (not the status of the filter pipeline)
  out=$(cd /verif && VERIF_REPO="$wt" ./check "$id" --tier quick 2>&1); rc=$?
  echo "$out" | grep -v conda.cli | tail -4
  nviol=$(echo "$out" | grep -c '^VIOLATION ')
  echo "check_${id}_rc=$rc violations_printed=$nviol"
  if { [ "$rc" -eq 0 ] && [ "$nviol" -gt 0 ]; } || { [ "$rc" -eq 1 ] && [ "$nviol" -eq 0 ]; }; then
    echo "INCONSISTENT: exit status and VIOLATION lines disagree for $id"; fi
done

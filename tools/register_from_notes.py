#!/usr/bin/env python3
"""tools/register_from_notes.py <Cxx> <builder-worktree>
Merges a builder's notes/Cxx.md into harness/registry.json (the first ```json block holding "Cxx": {...}) and
appends its `fixed` KNOWN_FINDINGS records, with the commit ids rewritten from the builder's worktree to the
cherry-picked commits in /repo (matched by commit subject).  `open` records are NOT added here: the main session
adds each one only after reproducing it on /repo.  Then regenerates MANIFEST.json."""
import json, os, re, subprocess, sys
pid, wt = sys.argv[1], sys.argv[2]
here = os.path.dirname(os.path.dirname(os.path.abspath(__file__)))
txt = open(os.path.join(here, "notes", pid + ".md"), encoding="utf-8").read()


def git(repo, *a):
    return subprocess.run(["git", "-C", repo] + list(a), capture_output=True, text=True).stdout


m = re.search(r'```json\s*\n"%s":\s*(\{.*?\n\})\s*\n```' % pid, txt, re.S)
entry = json.loads(m.group(1))
if "technique" not in entry:
    m2 = re.search(r'`technique`:\s*(.*?)\n\s*\n', txt, re.S)
    if m2:
        entry["technique"] = " ".join(m2.group(1).split())
reg_path = os.path.join(here, "harness", "registry.json")
reg = json.load(open(reg_path))
reg[pid] = entry
json.dump(reg, open(reg_path, "w"), indent=1)

repo_subjects = {}
for line in git("/repo", "log", "--format=%h\t%s", "-200").splitlines():
    h, s = line.split("\t", 1)
    repo_subjects.setdefault(s, h)
kf_path = os.path.join(here, "KNOWN_FINDINGS.jsonl")
existing = [json.loads(l) for l in open(kf_path) if l.strip() and not l.startswith("#")]
have = {(e["property"], e["status"], json.dumps(e["signature"], sort_keys=True), e.get("commit")) for e in existing}
added = 0
with open(kf_path, "a") as out:
    for line in txt.splitlines():
        line = line.strip()
        if not (line.startswith("{") and '"status"' in line):
            continue
        try:
            rec = json.loads(line)
        except ValueError:
            continue
        if rec.get("property") != pid or rec.get("status") != "fixed":
            continue
        old = rec.get("commit", "")
        subj = git(wt, "log", "-1", "--format=%s", old).strip() if old else ""
        new = repo_subjects.get(subj)
        if not new:
            print("!! no /repo commit with subject %r (builder commit %s): record skipped" % (subj, old))
            continue
        rec["what"] = rec["what"].replace(old, new)
        if new not in rec["what"]:
            rec["what"] = rec["what"].replace("property=%s " % pid, "property=%s %s " % (pid, new), 1)
        rec["commit"] = new
        key = (rec["property"], rec["status"], json.dumps(rec["signature"], sort_keys=True), new)
        if key in have:
            continue
        out.write(json.dumps(rec) + "\n")
        have.add(key)
        added += 1
print("registered", pid, "technique:", entry.get("technique", "(default)")[:80], "| fixed records added:", added)
subprocess.run([sys.executable, os.path.join(here, "tools_manifest.py")])

#!/bin/bash
# tools/merge_builder.sh <builder-worktree> -- <commit> [<commit> ...]
# Cherry-picks the named (already REVIEWED) commits from a builder's worktree into /repo one at a time, running
# the pinned test suite after each; stops and undoes the last pick if the suite is not 493 passed / 10 failed / 15 skipped.
set -u
wt="$1"; shift; [ "$1" = "--" ] && shift
if [ -n "$(git -C /repo status --porcelain)" ]; then echo "/repo has uncommitted changes; refusing"; exit 2; fi
for c in "$@"; do
  subj=$(git -C "$wt" log -1 --format=%s "$c") || exit 2
  case "$subj" in fix:*|hooks:*) ;; *) echo "REFUSING $c: subject does not start with fix: or hooks: ($subj)"; exit 3;; esac
  before=$(git -C /repo rev-parse HEAD)
  if ! git -C /repo cherry-pick "$c" >/tmp/merge_cp.out 2>&1; then echo "CONFLICT on $c ($subj)"; tail -5 /tmp/merge_cp.out; git -C /repo cherry-pick --abort; exit 4; fi
  res=$(cd /repo && env -u PEDAL_EDU_PEDAL_VERIF /venv/bin/python -m pytest -q -p no:cacheprovider --timeout=900 2>&1 | tail -1)
  if echo "$res" | grep -q "10 failed, 493 passed, 15 skipped"; then echo "ok   $(git -C /repo rev-parse --short HEAD)  $subj"
  else echo "SUITE CHANGED after $c ($subj): $res"; git -C /repo reset -q --hard "$before"; exit 5; fi
done

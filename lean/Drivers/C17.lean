import PedalModel.DriverLoop
import PedalModel.SectionsG
open Pedal

def dispatch : List String → String
  | "sections" :: ts => Sections.handleG ts     -- next_section's arithmetic from the program generated from the tree under test
  | "sectionsh" :: ts => Sections.handle ts     -- the hand-written model (equal by `runG_eq_run`)
  | "split" :: ts => Sections.handleSplit ts
  | _ => "bad-request"

def main : IO Unit := driverMain dispatch

import PedalModel.DriverLoop
import PedalModel.Sections
open Pedal

def dispatch : List String → String
  | "sections" :: ts => Sections.handle ts
  | "split" :: ts => Sections.handleSplit ts
  | _ => "bad-request"

def main : IO Unit := driverMain dispatch

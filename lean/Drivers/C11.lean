import PedalModel.DriverLoop
import PedalModel.CaitWire
open Pedal

/- Line-protocol driver for C11 (same CAIT model as C10). -/
def main : IO Unit := driverMain Pedal.Cait.dispatch

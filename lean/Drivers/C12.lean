import PedalModel.DriverLoop
import PedalModel.Source
open Pedal

def dispatch : List String → String
  | "verify" :: ts => Source.handle ts
  | _ => "bad-request"

def main : IO Unit := driverMain dispatch

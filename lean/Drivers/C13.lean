import PedalModel.DriverLoop
import PedalModel.ProcStateWire
open Pedal

/- Line-protocol driver for C13 (process state across gradings). -/
def dispatch : List String → String
  | "hist" :: ts => ProcState.WirePS.handleHist ts
  | "sess" :: ts => ProcState.WirePS.handleSess ts
  | "tables" :: ts => ProcState.WirePS.handleTables ts
  | _ => "bad-request"

def main : IO Unit := driverMain dispatch

import PedalModel.DriverLoop
import PedalModel.StaticChecksWire
open Pedal

/- Line-protocol driver for C08: the static-check model (PedalModel/StaticChecks.lean). -/
def dispatch : List String → String
  | "c08" :: ts => Static.handle ts
  | _ => "bad-request"

def main : IO Unit := driverMain dispatch

import PedalModel.DriverLoop
import PedalModel.Resolver
open Pedal

def dispatch : List String → String
  | "resolve" :: ts => Resolver.handle ts
  | "reskey" :: ts => Resolver.handleKey ts
  | "score" :: ts => Resolver.handleScore ts
  | _ => "bad-request"

def main : IO Unit := driverMain dispatch

import PedalModel.DriverLoop
import PedalModel.ResolverIR
open Pedal

def dispatch : List String → String
  | "resolve" :: ts => Resolver.handleIR ts      -- merge/finalize from the program generated from the tree under test
  | "resolveh" :: ts => Resolver.handle ts      -- the hand-written model (equal by `resolveIR_eq_resolve`)
  | "reskey" :: ts => Resolver.handleKey ts
  | "score" :: ts => Resolver.handleScore ts
  | _ => "bad-request"

def main : IO Unit := driverMain dispatch

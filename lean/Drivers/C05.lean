import PedalModel.DriverLoop
import PedalModel.SandboxExec
open Pedal

/- Line-protocol driver for C05 (same dispatch as C04): histories of sandbox executions through the model. -/
def dispatch : List String → String
  | "hist" :: ts => SandboxExec.Wire.handleHist ts
  | "nhist" :: ts => SandboxExec.Wire.handleNHist ts
  | _ => "bad-request"

def main : IO Unit := driverMain dispatch

import PedalModel.DriverLoop
import PedalModel.SandboxIO
open Pedal

/- Line-protocol driver for C15 (sandbox output / input bookkeeping). -/
def dispatch : List String → String
  | "hist" :: ts => SandboxIO.handleHist ts
  | "lines" :: ts => SandboxIO.handleLines ts
  | "rstrip" :: ts => SandboxIO.handleRstrip ts
  | "split" :: ts => SandboxIO.handleSplit ts
  | "spaces" :: ts => SandboxIO.handleSpaces ts
  | _ => "bad-request"

def main : IO Unit := driverMain dispatch

import PedalModel.DriverLoop
open Pedal

/- Line-protocol driver for C20: replace the stub dispatch with the model's request handlers. -/
def dispatch : List String → String
  | _ => "bad-request"

def main : IO Unit := driverMain dispatch

import PedalModel.DriverLoop
import PedalModel.FeedbackCoreWire
open Pedal

/- Line-protocol driver for C20 (feedback construction, format dispatch, override/restore). -/
def dispatch : List String → String
  | "session" :: ts => FeedbackCore.WireFC.handleSession ts
  | "dispatch" :: ts => FeedbackCore.WireFC.handleDispatch ts
  | _ => "bad-request"

def main : IO Unit := driverMain dispatch

import PedalModel.DriverLoop
import PedalModel.AssertionsSpec
import PedalModel.Gen.AssertionConds
open Pedal Pedal.Assertions

/-
Line-protocol driver for C07.

values:   N | T | F | I<int> | D<m>/<k> | S<cp,cp,...> (S- empty) | L<n> v.. | U<n> v.. | E<n> v.. |
          M<n> k v .. | Y<type tag> | X<id> | O<id>
operand:  <px 0|1> <oid> <poid> value
requests:
  a <name> <exact 0|1> <search t|f|r|-> <strR S..|-> <outL S..|r> <delta value> <left operand> <right operand>
      -> <outcome> spec=<outcome|none>
  u <n> <exact> <delta value> (<left operand> <right operand>)*n     (unit_test through assert_equal)
      -> ok passed=<0|1> succ=<k> total=<n> | unmodelled
  p <rel> <a value> <b value>        primitive relations: eq cmp in allin len truthy isinstance hashable
  e <exact> <delta value> <actual value> <expected value>     equality_test
-/

def parseInt? (s : String) : Option Int := s.toInt?

def tyTag? : String → Option TyTag
  | "int" => some .int | "float" => some .float | "bool" => some .bool | "str" => some .str
  | "list" => some .list | "tuple" => some .tuple | "set" => some .set | "dict" => some .dict
  | "object" => some .object | "exception" => some .exception | "type" => some .type
  | _ => none

def parseStrBody (body : String) : Option (List Nat) :=
  if body == "-" then some []
  else (body.splitOn ",").mapM fun t => t.toNat?

mutual
partial def parseVal : List String → Option (PyVal × List String)
  | [] => none
  | tok :: rest =>
    let body := (tok.drop 1).toString
    match tok.front with
    | 'N' => if tok == "N" then some (.none, rest) else none
    | 'T' => if tok == "T" then some (.bool true, rest) else none
    | 'F' => if tok == "F" then some (.bool false, rest) else none
    | 'I' => (parseInt? body).map fun i => (.int i, rest)
    | 'D' =>
      match body.splitOn "/" with
      | [m, k] => do
        let m ← parseInt? m
        let k ← k.toNat?
        pure (.flt m k, rest)
      | _ => none
    | 'S' => (parseStrBody body).map fun s => (.str s, rest)
    | 'L' => do
      let n ← body.toNat?
      let (xs, rest) ← parseVals n rest
      pure (.list xs, rest)
    | 'U' => do
      let n ← body.toNat?
      let (xs, rest) ← parseVals n rest
      pure (.tuple xs, rest)
    | 'E' => do
      let n ← body.toNat?
      let (xs, rest) ← parseVals n rest
      pure (.set xs, rest)
    | 'M' => do
      let n ← body.toNat?
      let (xs, rest) ← parseVals (2 * n) rest
      let rec split : List PyVal → List PyVal × List PyVal
        | k :: v :: more => let (ks, vs) := split more; (k :: ks, v :: vs)
        | _ => ([], [])
      let (ks, vs) := split xs
      pure (.dict ks vs, rest)
    | 'Y' => (tyTag? body).map fun t => (.typ t, rest)
    | 'X' => body.toNat?.map fun i => (.exc i, rest)
    | 'O' => body.toNat?.map fun i => (.obj i, rest)
    | _ => none
partial def parseVals : Nat → List String → Option (List PyVal × List String)
  | 0, ts => some ([], ts)
  | n + 1, ts => do
    let (v, ts) ← parseVal ts
    let (vs, ts) ← parseVals n ts
    pure (v :: vs, ts)
end

def parseOperand : List String → Option (V × List String)
  | px :: oid :: poid :: rest => do
    let px ← Wire.decBool px
    let oid ← oid.toNat?
    let poid ← poid.toNat?
    let (v, rest) ← parseVal rest
    pure ({ v := v, px := px, oid := oid, poid := poid }, rest)
  | _ => none

def parseSearch : String → Option (Res Bool)
  | "t" => some (.ok true)
  | "f" => some (.ok false)
  | "r" => some (.error .raised)
  | "-" => some (.error .unmodelled)
  | _ => none

def showOutcome : Outcome → String
  | .silent => "silent"
  | .fires => "fires"
  | .unmodelled => "unmodelled"

def showRes (r : Res Bool) : String :=
  match r with
  | .ok true => "true"
  | .ok false => "false"
  | .error .raised => "raised"
  | .error .unmodelled => "unmodelled"

def lookup (name : String) : Option CondExpr := (Gen.Assertions.table.find? (·.1 == name)).map (·.2)

def handleAssert : List String → String
  | name :: exact :: search :: strR :: outL :: rest =>
    match (do
      let exact ← Wire.decBool exact
      let search ← parseSearch search
      let strR : Option (List Nat) ← (if strR == "-" then some none else (parseStrBody (strR.drop 1).toString).map some)
      let outL : Res (List Nat) ← (if outL == "r" then some (.error .raised)
                                    else (parseStrBody (outL.drop 1).toString).map Except.ok)
      let (delta, rest) ← parseVal rest
      let (l, rest) ← parseOperand rest
      let (r, rest) ← parseOperand rest
      if !rest.isEmpty then none
      let cond ← lookup name
      let ctx : Ctx := { left := l, right := r, exact := .bool exact, delta := delta,
                         search := fun _ _ => search,
                         strOf := fun _ => strR.getD [],
                         output := fun s => match s with | .left => outL | .right => .error .raised }
      let o := outcome Gen.Assertions.wrapperGuard cond ctx
      let spec := match relOf name with
        | some rel => showOutcome (specOutcome ctx (rel ctx))
        | none => "none"
      pure s!"{showOutcome o} spec={spec}") with
    | some s => s
    | none => "bad-request"
  | _ => "bad-request"

partial def parsePairs : Nat → List String → Option (List (V × V) × List String)
  | 0, ts => some ([], ts)
  | n + 1, ts => do
    let (l, ts) ← parseOperand ts
    let (r, ts) ← parseOperand ts
    let (more, ts) ← parsePairs n ts
    pure ((l, r) :: more, ts)

def handleUnit : List String → String
  | n :: exact :: rest =>
    match (do
      let n ← n.toNat?
      let exact ← Wire.decBool exact
      let (delta, rest) ← parseVal rest
      let (pairs, rest) ← parsePairs n rest
      if !rest.isEmpty then none
      let cond ← lookup "assert_equal"
      let ctxs : List Ctx := pairs.map fun (l, r) => { left := l, right := r, exact := .bool exact, delta := delta }
      let outs := ctxs.map (outcome Gen.Assertions.wrapperGuard cond)
      if outs.any (· == .unmodelled) then pure "unmodelled"
      else
        let (p, s, t) := unitTest Gen.Assertions.wrapperGuard cond ctxs
        pure s!"ok passed={Wire.encBool p} succ={s} total={t}") with
    | some s => s
    | none => "bad-request"
  | _ => "bad-request"

def showOrd : Res Ord4 → String
  | .ok .lt => "lt" | .ok .eq => "eq" | .ok .gt => "gt" | .ok .un => "un"
  | .error .raised => "raised" | .error .unmodelled => "unmodelled"

def handlePrim : List String → String
  | rel :: rest =>
    match (do
      let (a, rest) ← parseVal rest
      let (b, rest) ← parseVal rest
      if !rest.isEmpty then none
      match rel with
      | "eq" => pure (Wire.encBool (pyEq a b))
      | "cmp" => pure (showOrd (pyCmp a b))
      | "in" => pure (showRes (pyIn a b))
      | "allin" => pure (showRes (pyAllIn a b))
      | "len" => pure (match pyLen a with | .ok n => toString n | .error _ => "raised")
      | "truthy" => pure (Wire.encBool (truthy a))
      | "isinstance" => pure (showRes (pyIsInstance a b))
      | "hashable" => pure (Wire.encBool (hashable a))
      | _ => none) with
    | some s => s
    | none => "bad-request"
  | _ => "bad-request"

def handleEq : List String → String
  | exact :: rest =>
    match (do
      let exact ← Wire.decBool exact
      let (delta, rest) ← parseVal rest
      let (a, rest) ← parseVal rest
      let (e, rest) ← parseVal rest
      if !rest.isEmpty then none
      match deltaOf delta with
      | .error _ => pure "unmodelled"
      | .ok d => pure (showRes (eqTest exact d a e))) with
    | some s => s
    | none => "bad-request"
  | _ => "bad-request"

def dispatch : List String → String
  | "a" :: ts => handleAssert ts
  | "u" :: ts => handleUnit ts
  | "p" :: ts => handlePrim ts
  | "e" :: ts => handleEq ts
  | _ => "bad-request"

def main : IO Unit := driverMain dispatch

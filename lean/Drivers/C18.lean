import PedalModel.DriverLoop
import PedalModel.TifaWrapper
open Pedal

/- Line-protocol driver for C18: wrapper/cache histories, node-class dispatch, builtin table rows. -/
def dispatch : List String → String
  | "wrap" :: ts => TifaWrapper.handle ts
  | "dispatch" :: ts => TifaWrapper.handleDispatch ts
  | "rows" :: ts => TifaWrapper.handleRows ts
  | "fields" :: ts => TifaWrapper.handleFields ts
  | _ => "bad-request"

def main : IO Unit := driverMain dispatch

import PedalModel.DriverLoop
import PedalModel.ProxyWire
open Pedal

/- Line-protocol driver for C16 (see PedalModel/ProxyWire.lean for the request grammar). -/
def dispatch : List String → String
  | "bin" :: ts => Proxy.Wire.handleBin ts
  | "conv" :: ts => Proxy.Wire.handleConv ts
  | "getitem" :: ts => Proxy.Wire.handleContainer "getitem" ts
  | "contains" :: ts => Proxy.Wire.handleContainer "contains" ts
  | "isinst" :: ts => Proxy.Wire.handleIsinst ts
  | "flags" :: ts => Proxy.Wire.handleFlags ts
  | _ => "bad-request"

def main : IO Unit := driverMain dispatch

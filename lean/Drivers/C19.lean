import PedalModel.DriverLoop
import PedalModel.TypeOpsWire
open Pedal

/- Line-protocol driver for C19: the operator-typing / value-typing model (PedalModel/TypeOps.lean). -/
def dispatch : List String → String
  | "c19" :: ts => Types.handle ts
  | _ => "bad-request"

def main : IO Unit := driverMain dispatch

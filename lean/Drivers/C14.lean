import PedalModel.DriverLoop
import PedalModel.Timeout
open Pedal

/- Line-protocol driver for C14 (timeout interleaving machine). -/
def dispatch : List String → String
  | "sched" :: ts => Timeout.handleSched ts
  | "cfg" :: ts => Timeout.handleCfg ts
  | _ => "bad-request"

def main : IO Unit := driverMain dispatch

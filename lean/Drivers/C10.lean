import PedalModel.DriverLoop
import PedalModel.CaitWire
open Pedal

/- Line-protocol driver for C10 (CAIT matcher model + embedding checker). -/
def main : IO Unit := driverMain Pedal.Cait.dispatch

import PedalModel.DriverLoop
import PedalModel.SandboxEquivWire
open Pedal

/- Line-protocol driver for C06 (see PedalModel/SandboxEquivWire.lean for the request grammar). -/
def dispatch : List String → String
  | "io" :: ts => SandboxEquiv.Wire.handleIO ts
  | "call" :: ts => SandboxEquiv.Wire.handleCall ts
  | "cfg" :: ts => SandboxEquiv.Wire.handleCfg ts
  | _ => "bad-request"

def main : IO Unit := driverMain dispatch

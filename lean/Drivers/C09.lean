import PedalModel.DriverLoop
import PedalModel.TifaFlow
open Pedal

/- Line-protocol driver for C09: the TIFA flow model (`tifaflow`) and the path semantics (`tifaspec`). -/
def dispatch : List String → String
  | "tifaflow" :: ts => TifaFlow.handle ts
  | "tifaspec" :: ts => TifaFlow.handleSpec ts
  | _ => "bad-request"

def main : IO Unit := driverMain dispatch

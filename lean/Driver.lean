import PedalModel.Wire
import PedalModel.Resolver
/-
Line-protocol driver: one request per line on stdin, one answer per line on stdout.
The first token names the model entry point.
-/
open Pedal

def dispatch (line : String) : String :=
  match Wire.splitTokens line with
  | "resolve" :: ts => Resolver.handle ts
  | "reskey" :: ts => Resolver.handleKey ts
  | "score" :: ts => Resolver.handleScore ts
  | _ => "bad-request"

partial def loop (h : IO.FS.Stream) (out : IO.FS.Stream) : IO Unit := do
  let line ← h.getLine
  if line.isEmpty then return ()
  let line := (line.dropEndWhile (fun c => c == '\n' || c == '\r')).toString
  out.putStrLn (dispatch line)
  loop h out

def main : IO Unit := do
  let out ← IO.getStdout
  loop (← IO.getStdin) out
  out.flush

/-
The first match in a stably sorted list is the (key, position)-minimum among the matches.
Core Lean only (uses `List.mergeSort_zipIdx`, `pairwise_mergeSort`, `mergeSort_perm`).
-/
namespace Pedal.Sort

variable {α : Type}

def leKey (key : α → Nat) : α → α → Bool := fun a b => decide (key a ≤ key b)

theorem leKey_trans (key : α → Nat) : ∀ a b c : α, leKey key a b → leKey key b c → leKey key a c := by
  intro a b c; simp only [leKey, decide_eq_true_eq]; omega

theorem leKey_total (key : α → Nat) : ∀ a b : α, leKey key a b || leKey key b a := by
  intro a b; simp only [leKey, Bool.or_eq_true, decide_eq_true_eq]; omega

theorem find_mergeSort_none (key : α → Nat) (p : α → Bool) (l : List α) :
    (l.mergeSort (leKey key)).find? p = none ↔ ∀ g ∈ l, p g = false := by
  simp [List.find?_eq_none, List.mem_mergeSort]

theorem find_mergeSort_min (key : α → Nat) (p : α → Bool) (l : List α) (f : α)
    (h : (l.mergeSort (leKey key)).find? p = some f) :
    p f = true ∧ ∃ i : Nat, l[i]? = some f ∧
      ∀ (j : Nat) (g : α), l[j]? = some g → p g = true → key f ≤ key g ∧ (key g ≤ key f → i ≤ j) := by
  have hp : p f = true := List.find?_some h
  refine ⟨hp, ?_⟩
  rw [← List.mergeSort_zipIdx (le := leKey key), List.find?_map] at h
  have tr := List.zipIdxLE_trans (leKey_trans key)
  have to := List.zipIdxLE_total (leKey_total key)
  have pw := List.pairwise_mergeSort tr to l.zipIdx
  cases hfi : (l.zipIdx.mergeSort (List.zipIdxLE (leKey key))).find? (p ∘ fun x => x.1) with
  | none => rw [hfi] at h; simp at h
  | some fi =>
    rw [hfi] at h
    simp only [Option.map_some, Option.some.injEq] at h
    obtain ⟨f', i⟩ := fi
    simp only at h
    subst h
    obtain ⟨_, as, bs, hsplit, hnot⟩ := List.find?_eq_some_iff_append.mp hfi
    have hmem : (f', i) ∈ l.zipIdx := by
      have : (f', i) ∈ l.zipIdx.mergeSort (List.zipIdxLE (leKey key)) := by rw [hsplit]; simp
      exact List.mem_mergeSort.mp this
    refine ⟨i, ?_, ?_⟩
    · have := List.mem_zipIdx_iff_getElem?.mp hmem
      simpa using this
    · intro j g hj hpg
      have hgm : (g, j) ∈ l.zipIdx.mergeSort (List.zipIdxLE (leKey key)) := by
        apply List.mem_mergeSort.mpr
        exact List.mem_zipIdx_iff_getElem?.mpr (by simpa using hj)
      rw [hsplit] at hgm pw
      have hle : List.zipIdxLE (leKey key) (f', i) (g, j) = true := by
        rcases List.mem_append.mp hgm with hin | hin
        · have := hnot (g, j) hin
          simp [hpg] at this
        · rcases List.mem_cons.mp hin with heq | hin
          · cases heq
            simp [List.zipIdxLE, leKey]
          · have := List.pairwise_append.mp pw
            exact List.rel_of_pairwise_cons this.2.1 hin
      simp only [List.zipIdxLE, leKey, decide_eq_true_eq] at hle
      split at hle
      · rename_i h1
        refine ⟨h1, ?_⟩
        intro h2
        simpa [h2] using hle
      · simp at hle

end Pedal.Sort

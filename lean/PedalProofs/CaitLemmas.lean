import PedalModel.CaitSpec
/-
Helper lemmas for C10 / C11 (CAIT tree matcher model): insertion-ordered dicts, AstMap merging and the
conflict-key invariant, monotonicity of the embedding checker.
-/
namespace Pedal.Cait

/-! ### structural induction on trees -/

theorem T.induct' {P : T → Prop} (h : ∀ k f fl kids, (∀ c ∈ kids, P c) → P (T.mk k f fl kids)) : ∀ t, P t := by
  intro t
  refine T.rec (motive_1 := P) (motive_2 := fun ks => ∀ c ∈ ks, P c) ?_ ?_ ?_ t
  · intro k f fl kids ih; exact h k f fl kids ih
  · intro c hc; cases hc
  · intro hd tl ih1 ih2 c hc
    cases hc with
    | head => exact ih1
    | tail _ h' => exact ih2 c h'

/-! ### dicts -/

section Dict
variable {κ ν : Type} [DecidableEq κ]

def keysOf (d : List (κ × ν)) : List κ := d.map (·.1)

theorem dictGet_dictSet (k k' : κ) (v : ν) (d : List (κ × ν)) :
    dictGet k' (dictSet k v d) = if k' = k then some v else dictGet k' d := by
  induction d with
  | nil =>
    by_cases h : k = k'
    · subst h; simp [dictSet, dictGet]
    · have : ¬ k' = k := fun e => h e.symm
      simp [dictSet, dictGet, h, this]
  | cons hd tl ih =>
    obtain ⟨k1, v1⟩ := hd
    by_cases h1 : k1 = k
    · subst h1
      by_cases h2 : k1 = k'
      · subst h2; simp [dictSet, dictGet]
      · have : ¬ k' = k1 := fun e => h2 e.symm
        simp [dictSet, dictGet, h2, this]
    · by_cases h2 : k1 = k'
      · subst h2
        simp [dictSet, dictGet, h1]
      · simp [dictSet, dictGet, h1, h2, ih]

theorem dictGet_mem {k : κ} {v : ν} {d : List (κ × ν)} (h : dictGet k d = some v) : (k, v) ∈ d := by
  induction d with
  | nil => simp [dictGet] at h
  | cons hd tl ih =>
    obtain ⟨k1, v1⟩ := hd
    simp only [dictGet] at h
    by_cases h1 : k1 = k
    · simp only [if_pos h1] at h
      cases h; subst h1; exact List.mem_cons_self
    · simp only [if_neg h1] at h
      exact List.mem_cons_of_mem _ (ih h)

theorem dictGet_none_of_not_key {k : κ} {d : List (κ × ν)} (h : k ∉ keysOf d) : dictGet k d = none := by
  induction d with
  | nil => rfl
  | cons hd tl ih =>
    obtain ⟨k1, v1⟩ := hd
    simp only [keysOf, List.map_cons, List.mem_cons, not_or] at h
    simp only [dictGet]
    have : ¬ k1 = k := fun e => h.1 e.symm
    simp only [if_neg this]
    exact ih h.2

theorem dictGet_isSome_of_key {k : κ} {d : List (κ × ν)} (h : k ∈ keysOf d) : (dictGet k d).isSome := by
  induction d with
  | nil => simp [keysOf] at h
  | cons hd tl ih =>
    obtain ⟨k1, v1⟩ := hd
    simp only [dictGet]
    by_cases h1 : k1 = k
    · simp [h1]
    · simp only [if_neg h1]
      simp only [keysOf, List.map_cons, List.mem_cons] at h
      rcases h with h | h
      · exact absurd h.symm h1
      · exact ih h

theorem mem_dictSet {k : κ} {v : ν} {d : List (κ × ν)} {x : κ × ν} (h : x ∈ dictSet k v d) :
    x ∈ d ∨ x = (k, v) := by
  induction d with
  | nil => simp only [dictSet, List.mem_singleton] at h; exact Or.inr h
  | cons hd tl ih =>
    obtain ⟨k1, v1⟩ := hd
    simp only [dictSet] at h
    by_cases h1 : k1 = k
    · simp only [if_pos h1, List.mem_cons] at h
      rcases h with h | h
      · subst h1; exact Or.inr h
      · exact Or.inl (List.mem_cons_of_mem _ h)
    · simp only [if_neg h1, List.mem_cons] at h
      rcases h with h | h
      · exact Or.inl (by simp [h])
      · rcases ih h with h' | h'
        · exact Or.inl (List.mem_cons_of_mem _ h')
        · exact Or.inr h'

theorem keysOf_dictSet (k : κ) (v : ν) (d : List (κ × ν)) :
    keysOf (dictSet k v d) = if k ∈ keysOf d then keysOf d else keysOf d ++ [k] := by
  induction d with
  | nil => simp [dictSet, keysOf]
  | cons hd tl ih =>
    obtain ⟨k1, v1⟩ := hd
    by_cases h1 : k1 = k
    · subst h1; simp [dictSet, keysOf]
    · have hne : ¬ k = k1 := fun e => h1 e.symm
      have hk : keysOf (dictSet k v ((k1, v1) :: tl)) = k1 :: keysOf (dictSet k v tl) := by
        simp [dictSet, h1, keysOf]
      have hk2 : keysOf ((k1, v1) :: tl) = k1 :: keysOf tl := rfl
      rw [hk, ih, hk2]
      by_cases h2 : k ∈ keysOf tl
      · simp [h2]
      · simp [h2, hne]

theorem mem_dictUpdate {d e : List (κ × ν)} {x : κ × ν} (h : x ∈ dictUpdate d e) : x ∈ d ∨ x ∈ e := by
  induction e generalizing d with
  | nil => exact Or.inl h
  | cons hd tl ih =>
    simp only [dictUpdate, List.foldl_cons] at h
    rcases ih (d := dictSet hd.1 hd.2 d) h with h' | h'
    · rcases mem_dictSet h' with h'' | h''
      · exact Or.inl h''
      · exact Or.inr (by rw [h'']; exact List.mem_cons_self)
    · exact Or.inr (List.mem_cons_of_mem _ h')

theorem dictGet_dictUpdate_of_not_key {k : κ} {d e : List (κ × ν)} (h : k ∉ keysOf e) :
    dictGet k (dictUpdate d e) = dictGet k d := by
  induction e generalizing d with
  | nil => rfl
  | cons hd tl ih =>
    simp only [keysOf, List.map_cons, List.mem_cons, not_or] at h
    simp only [dictUpdate, List.foldl_cons]
    have := ih (d := dictSet hd.1 hd.2 d) h.2
    simp only [dictUpdate] at this
    rw [this, dictGet_dictSet, if_neg h.1]

theorem dictGet_dictUpdate_of_get {k : κ} {v : ν} {d e : List (κ × ν)} (hn : (keysOf e).Nodup)
    (h : dictGet k e = some v) : dictGet k (dictUpdate d e) = some v := by
  induction e generalizing d with
  | nil => simp [dictGet] at h
  | cons hd tl ih =>
    obtain ⟨k1, v1⟩ := hd
    simp only [keysOf, List.map_cons, List.nodup_cons] at hn
    simp only [dictUpdate, List.foldl_cons]
    simp only [dictGet] at h
    by_cases h1 : k1 = k
    · simp only [if_pos h1] at h
      cases h
      subst h1
      have := dictGet_dictUpdate_of_not_key (d := dictSet k1 v d) (e := tl) (k := k1) hn.1
      simp only [dictUpdate] at this
      rw [this, dictGet_dictSet, if_pos rfl]
    · simp only [if_neg h1] at h
      exact ih hn.2 h

/-- a lookup in `d.update(e)` comes from `e` or from `d` -/
theorem dictGet_dictUpdate_cases {k : κ} {v : ν} {d e : List (κ × ν)}
    (h : dictGet k (dictUpdate d e) = some v) : dictGet k d = some v ∨ (k, v) ∈ e := by
  induction e generalizing d with
  | nil => exact Or.inl h
  | cons hd tl ih =>
    simp only [dictUpdate, List.foldl_cons] at h
    rcases ih (d := dictSet hd.1 hd.2 d) h with h' | h'
    · rw [dictGet_dictSet] at h'
      by_cases hk : k = hd.1
      · simp only [if_pos hk] at h'
        cases h'
        exact Or.inr (by rw [hk]; exact List.mem_cons_self)
      · simp only [if_neg hk] at h'
        exact Or.inl h'
    · exact Or.inr (List.mem_cons_of_mem _ h')

theorem dictGet_isSome_dictUpdate {k : κ} {d e : List (κ × ν)} (h : (dictGet k d).isSome) :
    (dictGet k (dictUpdate d e)).isSome := by
  induction e generalizing d with
  | nil => exact h
  | cons hd tl ih =>
    simp only [dictUpdate, List.foldl_cons]
    apply ih
    rw [dictGet_dictSet]
    by_cases hk : k = hd.1
    · simp [hk]
    · simp only [if_neg hk]; exact h

theorem dictGet_isSome_dictUpdate_right {k : κ} {d e : List (κ × ν)} (h : (dictGet k e).isSome) :
    (dictGet k (dictUpdate d e)).isSome := by
  induction e generalizing d with
  | nil => simp [dictGet] at h
  | cons hd tl ih =>
    obtain ⟨k1, v1⟩ := hd
    simp only [dictUpdate, List.foldl_cons]
    simp only [dictGet] at h
    by_cases h1 : k1 = k
    · have : (dictGet k (dictSet k1 v1 d)).isSome := by
        rw [dictGet_dictSet]; simp [h1]
      exact dictGet_isSome_dictUpdate (e := tl) this
    · simp only [if_neg h1] at h
      exact ih h

theorem keysOf_dictUpdate_subset {d e : List (κ × ν)} {k : κ} (h : k ∈ keysOf (dictUpdate d e)) :
    k ∈ keysOf d ∨ k ∈ keysOf e := by
  simp only [keysOf, List.mem_map] at h ⊢
  obtain ⟨x, hx, rfl⟩ := h
  rcases mem_dictUpdate hx with h' | h'
  · exact Or.inl ⟨x, h', rfl⟩
  · exact Or.inr ⟨x, h', rfl⟩

theorem nodup_keysOf_dictSet {k : κ} {v : ν} {d : List (κ × ν)} (h : (keysOf d).Nodup) :
    (keysOf (dictSet k v d)).Nodup := by
  rw [keysOf_dictSet]
  by_cases hk : k ∈ keysOf d
  · simp only [if_pos hk]; exact h
  · simp only [if_neg hk]
    rw [List.nodup_append]
    refine ⟨h, by simp, ?_⟩
    intro a ha b hb
    simp only [List.mem_singleton] at hb
    subst hb
    intro e; subst e; exact hk ha

theorem nodup_keysOf_dictUpdate {d e : List (κ × ν)} (h : (keysOf d).Nodup) :
    (keysOf (dictUpdate d e)).Nodup := by
  induction e generalizing d with
  | nil => exact h
  | cons hd tl ih =>
    simp only [dictUpdate, List.foldl_cons]
    exact ih (nodup_keysOf_dictSet h)

end Dict

/-! ### AstMap -/

@[simp] theorem addBind_mappings (m : AstMap) (b : Bind) : (m.addBind b).mappings = m.mappings := rfl
@[simp] theorem addBind_exps (m : AstMap) (b : Bind) : (m.addBind b).exps = m.exps := rfl
@[simp] theorem addBind_binds (m : AstMap) (b : Bind) : (m.addBind b).binds = m.binds ++ [b] := rfl

theorem foldl_addBind_mappings (l : List Bind) (m : AstMap) :
    (l.foldl AstMap.addBind m).mappings = m.mappings := by
  induction l generalizing m with
  | nil => rfl
  | cons hd tl ih => simp [List.foldl_cons, ih]

theorem foldl_addBind_exps (l : List Bind) (m : AstMap) :
    (l.foldl AstMap.addBind m).exps = m.exps := by
  induction l generalizing m with
  | nil => rfl
  | cons hd tl ih => simp [List.foldl_cons, ih]

theorem foldl_addBind_binds (l : List Bind) (m : AstMap) :
    (l.foldl AstMap.addBind m).binds = m.binds ++ l := by
  induction l generalizing m with
  | nil => simp
  | cons hd tl ih => simp [List.foldl_cons, ih]

@[simp] theorem merged_mappings (a b : AstMap) :
    (a.merged b).mappings = dictUpdate a.mappings b.mappings := by
  simp [AstMap.merged, foldl_addBind_mappings]

@[simp] theorem merged_exps (a b : AstMap) : (a.merged b).exps = dictUpdate a.exps b.exps := by
  simp [AstMap.merged, foldl_addBind_exps]

@[simp] theorem merged_binds (a b : AstMap) : (a.merged b).binds = a.binds ++ b.binds := by
  simp [AstMap.merged, foldl_addBind_binds]

/-- `conflict_keys` lists exactly the keys bound to two different identifiers -/
def ConfInv (m : AstMap) : Prop :=
  ∀ k, k ∈ m.conflicts ↔ ∃ x ∈ m.binds, ∃ y ∈ m.binds, x.key = k ∧ y.key = k ∧ x.id ≠ y.id

theorem confInv_addBind {m : AstMap} (h : ConfInv m) (b : Bind) : ConfInv (m.addBind b) := by
  intro k
  have hany : ∀ l : List Bind, l.any (differs b) = true ↔ ∃ o ∈ l, o.key = b.key ∧ o.id ≠ b.id := by
    intro l
    simp [List.any_eq_true, differs]
  constructor
  · intro hk
    simp only [AstMap.addBind] at hk
    split at hk
    · rename_i hc
      simp only [Bool.and_eq_true, Bool.not_eq_true'] at hc
      rw [List.mem_append] at hk
      rcases hk with hk | hk
      · obtain ⟨x, hx, y, hy, h1, h2, h3⟩ := (h k).1 hk
        exact ⟨x, by simp [hx], y, by simp [hy], h1, h2, h3⟩
      · simp only [List.mem_singleton] at hk
        subst hk
        obtain ⟨o, ho, ho1, ho2⟩ := (hany _).1 hc.2
        exact ⟨o, ho, b, by simp, ho1, rfl, ho2⟩
    · obtain ⟨x, hx, y, hy, h1, h2, h3⟩ := (h k).1 hk
      exact ⟨x, by simp [hx], y, by simp [hy], h1, h2, h3⟩
  · rintro ⟨x, hx, y, hy, h1, h2, h3⟩
    simp only [addBind_binds, List.mem_append, List.mem_singleton] at hx hy
    have hold : k ∈ m.conflicts → k ∈ (m.addBind b).conflicts := by
      intro hk
      simp only [AstMap.addBind]
      split
      · exact List.mem_append_left _ hk
      · exact hk
    have hnew : ∀ o, o ∈ m.binds ++ [b] → o.key = b.key → o.id ≠ b.id → b.key ∈ (m.addBind b).conflicts := by
      intro o ho ho1 ho2
      simp only [AstMap.addBind]
      split
      · simp
      · rename_i hc
        simp only [Bool.and_eq_true, Bool.not_eq_true', not_and, Bool.not_eq_true] at hc
        by_cases hcon : m.conflicts.contains b.key = true
        · simpa using hcon
        · have h1 : m.conflicts.contains b.key = false := by simpa using hcon
          have := hc h1
          have h2 : (m.binds ++ [b]).any (differs b) = true := (hany _).2 ⟨o, ho, ho1, ho2⟩
          rw [h2] at this; cases this
    rcases hx with hx | hx <;> rcases hy with hy | hy
    · exact hold ((h k).2 ⟨x, hx, y, hy, h1, h2, h3⟩)
    · subst hy
      rw [← h2]
      exact hnew x (by simp [hx]) (h1.trans h2.symm) h3
    · subst hx
      rw [← h1]
      exact hnew y (by simp [hy]) (h2.trans h1.symm) (fun e => h3 e.symm)
    · subst hx; subst hy; exact absurd rfl h3

theorem confInv_foldl {m : AstMap} (h : ConfInv m) (l : List Bind) : ConfInv (l.foldl AstMap.addBind m) := by
  induction l generalizing m with
  | nil => exact h
  | cons hd tl ih => exact ih (confInv_addBind h hd)

theorem confInv_of_no_binds {m : AstMap} (h1 : m.binds = []) (h2 : m.conflicts = []) : ConfInv m := by
  intro k
  simp [h1, h2]

theorem confInv_merged (a b : AstMap) : ConfInv (a.merged b) := by
  simp only [AstMap.merged]
  exact confInv_foldl (confInv_foldl (confInv_of_no_binds rfl rfl) _) _

theorem confInv_pairMap (pp sp : Path) : ConfInv (pairMap pp sp) := confInv_of_no_binds rfl rfl

theorem singleIdent_of_confInv {m : AstMap} (h : ConfInv m) (hc : m.hasConflicts = false) :
    singleIdent m = true := by
  simp only [singleIdent, List.all_eq_true]
  intro a ha b hb
  by_cases hk : a.key = b.key
  · by_cases hi : a.id = b.id
    · simp [hi]
    · have : a.key ∈ m.conflicts := (h a.key).2 ⟨a, ha, b, hb, rfl, hk.symm, hi⟩
      simp only [AstMap.hasConflicts, Bool.not_eq_false', List.isEmpty_iff] at hc
      rw [hc] at this; cases this
  · simp [hk]

/-! ### the embedding checker only grows with the map -/

/-- `m` answers every query `a` answers, the same way -/
structure Ext (a m : AstMap) : Prop where
  maps : ∀ k v, dictGet k a.mappings = some v → dictGet k m.mappings = some v
  exps : ∀ k, (dictGet k a.exps).isSome → (dictGet k m.exps).isSome
  binds : ∀ x ∈ a.binds, x ∈ m.binds

theorem Ext.refl (a : AstMap) : Ext a a := ⟨fun _ _ h => h, fun _ h => h, fun _ h => h⟩

theorem Ext.trans {a b c : AstMap} (h1 : Ext a b) (h2 : Ext b c) : Ext a c :=
  ⟨fun k v h => h2.maps k v (h1.maps k v h), fun k h => h2.exps k (h1.exps k h),
   fun x h => h2.binds x (h1.binds x h)⟩

theorem hasBind_mono {a m : AstMap} (h : Ext a m) {k x : String} (hb : hasBind a k x = true) :
    hasBind m k x = true := by
  simp only [hasBind, List.any_eq_true] at hb ⊢
  obtain ⟨b, hb1, hb2⟩ := hb
  exact ⟨b, h.binds b hb1, hb2⟩

theorem nodeOk_mono {a m : AstMap} (h : Ext a m) {p s : T} (hn : nodeOk a p s = true) :
    nodeOk m p s = true := by
  simp only [nodeOk, Bool.and_eq_true] at hn ⊢
  refine ⟨hn.1, ?_⟩
  have h2 := hn.2
  cases hi : identField p.kind with
  | none => simp only [hi] at h2 ⊢; exact h2
  | some f =>
    simp only [hi, Bool.or_eq_true, Bool.and_eq_true] at h2 ⊢
    rcases h2 with ((h2 | h2) | h2) | h2
    · exact Or.inl (Or.inl (Or.inl ⟨h2.1, hasBind_mono h h2.2⟩))
    · exact Or.inl (Or.inl (Or.inr h2))
    · exact Or.inl (Or.inr h2)
    · exact Or.inr h2

theorem embKids_mono {a m : AstMap} (h : Ext a m) (kids : List T)
    (hIH : ∀ c ∈ kids, ∀ pp sp s, embAt a pp c sp s = true → embAt m pp c sp s = true)
    (pp sp : Path) (s : T) (o : Bool) :
    ∀ i mj used, embKids a pp i kids sp s o mj used = true → embKids m pp i kids sp s o mj used = true := by
  induction kids with
  | nil => intro i mj used _; rw [embKids]
  | cons pc rest ih =>
    intro i mj used hk
    rw [embKids] at hk ⊢
    cases hq : dictGet (pp ++ [i]) a.mappings with
    | none => simp [hq] at hk
    | some q =>
      rw [hq] at hk
      rw [h.maps _ _ hq]
      simp only at hk ⊢
      cases hj : q.getLast? with
      | none => simp [hj] at hk
      | some j =>
        simp only [hj, Bool.and_eq_true] at hk ⊢
        obtain ⟨⟨⟨h1, h2⟩, h3⟩, h4⟩ := hk
        refine ⟨⟨⟨h1, h2⟩, ?_⟩, ?_⟩
        · cases hs : s.kids[j]? with
          | none => simp [hs] at h3
          | some sj =>
            simp only [hs] at h3 ⊢
            exact hIH pc List.mem_cons_self _ _ _ h3
        · exact ih (fun c hc => hIH c (List.mem_cons_of_mem _ hc)) _ _ _ h4

theorem embAt_mono {a m : AstMap} (h : Ext a m) :
    ∀ p pp sp s, embAt a pp p sp s = true → embAt m pp p sp s = true := by
  intro p
  induction p using T.induct' with
  | h kind field flds kids ih =>
    intro pp sp s he
    rw [embAt] at he ⊢
    simp only [Bool.and_eq_true, decide_eq_true_eq] at he ⊢
    refine ⟨h.maps _ _ he.1, ?_⟩
    have h2 := he.2
    cases hr : role (T.mk kind field flds kids) with
    | wildcard => simp only []
    | expPh k => simp only [hr] at h2 ⊢; exact h.exps _ h2
    | wrapper =>
      simp only [hr] at h2 ⊢
      exact embKids_mono h kids ih pp sp s true 0 0 [] h2
    | concrete =>
      simp only [hr, Bool.and_eq_true, Bool.or_eq_true, decide_eq_true_eq] at h2 ⊢
      refine ⟨nodeOk_mono h h2.1, ?_⟩
      rcases h2.2 with h3 | h3
      · exact Or.inl h3
      · exact Or.inr (embKids_mono h kids ih pp sp s _ 0 0 [] h3)

theorem expSomewhereL_mono {a m : AstMap} (k : String) (v : Path) (kids : List T)
    (hIH : ∀ c ∈ kids, ∀ pp, expSomewhere a k v pp c = true → expSomewhere m k v pp c = true) (pp : Path) :
    ∀ i, expSomewhereL a k v pp i kids = true → expSomewhereL m k v pp i kids = true := by
  induction kids with
  | nil => intro i hh; rw [expSomewhereL] at hh; cases hh
  | cons t ts ih =>
    intro i hh
    rw [expSomewhereL] at hh ⊢
    simp only [Bool.or_eq_true] at hh ⊢
    rcases hh with hh | hh
    · exact Or.inl (hIH t List.mem_cons_self _ hh)
    · exact Or.inr (ih (fun c hc => hIH c (List.mem_cons_of_mem _ hc)) _ hh)

theorem expSomewhere_mono {a m : AstMap} (h : Ext a m) (k : String) (v : Path) :
    ∀ p pp, expSomewhere a k v pp p = true → expSomewhere m k v pp p = true := by
  intro p
  induction p using T.induct' with
  | h kind field flds kids ih =>
    intro pp hh
    rw [expSomewhere] at hh ⊢
    simp only [Bool.or_eq_true, Bool.and_eq_true, decide_eq_true_eq] at hh ⊢
    rcases hh with hh | hh
    · exact Or.inl ⟨hh.1, h.maps _ _ hh.2⟩
    · exact Or.inr (expSomewhereL_mono k v kids ih pp 0 hh)

/-! ### what `shallow_match_main` establishes -/

theorem zipAll_imp {α β : Type} {f g : α → β → Bool} (h : ∀ a b, f a b = true → g a b = true) :
    ∀ (l1 : List α) (l2 : List β), zipAll f l1 l2 = true → zipAll g l1 l2 = true := by
  intro l1
  induction l1 with
  | nil => intro l2 _; cases l2 <;> rfl
  | cons a as ih =>
    intro l2 hz
    cases l2 with
    | nil => rfl
    | cons b bs =>
      simp only [zipAll, Bool.and_eq_true] at hz ⊢
      exact ⟨h a b hz.1, ih bs hz.2⟩

theorem zipAll_itemOk_eq : ∀ (I S : List Item), zipAll itemOk I S = true → I.length = S.length →
    I.all Item.isPrim = true → S.all Item.isPrim = true → S = I := by
  intro I
  induction I with
  | nil => intro S _ hl _ _; cases S with
    | nil => rfl
    | cons _ _ => simp at hl
  | cons a as ih =>
    intro S hz hl hI hS
    cases S with
    | nil => simp at hl
    | cons b bs =>
      simp only [zipAll, Bool.and_eq_true] at hz
      simp only [List.all_cons, Bool.and_eq_true] at hI hS
      simp only [List.length_cons, Nat.add_right_cancel_iff] at hl
      have := ih bs hz.2 hl hI.2 hS.2
      subst this
      cases a with
      | node => simp [Item.isPrim] at hI
      | prim x =>
        cases b with
        | node => simp [Item.isPrim] at hS
        | prim y =>
          have : x = y := by simpa [itemOk] using hz.1
          subst this; rfl

theorem plainItems_some {v : FVal} {items : List Item} (h : plainItems v = some items) :
    v.items = items ∧ items ≠ [] ∧ items.all Item.isPrim = true ∧ v ≠ FVal.none := by
  cases v with
  | none => simp [plainItems] at h
  | one i =>
    cases i with
    | node => simp [plainItems] at h
    | prim x =>
      simp only [plainItems, Option.some.injEq] at h
      subst h
      simp [FVal.items, Item.isPrim]
  | many l =>
    simp only [plainItems] at h
    split at h
    · rename_i hc
      simp only [Option.some.injEq] at h
      subst h
      simp only [Bool.and_eq_true, Bool.not_eq_true', List.isEmpty_eq_false_iff] at hc
      exact ⟨rfl, hc.1, hc.2, by simp⟩
    · cases h

theorem lenGuard {I S : List Item}
    (h : (!I.isEmpty && decide (I.length ≠ S.length) && (I ++ S).all Item.isPrim) = false)
    (hne : I ≠ []) (hI : I.all Item.isPrim = true) (hS : S.all Item.isPrim = true) : I.length = S.length := by
  by_cases hl : I.length = S.length
  · exact hl
  · exfalso
    have h1 : I.isEmpty = false := by simpa using hne
    have h2 : (I ++ S).all Item.isPrim = true := by rw [List.all_append, hI, hS]; rfl
    rw [h1, h2] at h
    simp [hl] at h

theorem fieldOk_unfold {ig : List String} {fi fs : Fld} (hv : fi.val ≠ FVal.none) :
    fieldOk ig fi fs =
      ((fi.name = fs.name || ig.contains fi.name) &&
        (ig.contains fi.name ||
          (!(!fi.val.items.isEmpty && decide (fi.val.items.length ≠ fs.val.items.length) &&
              (fi.val.items ++ fs.val.items).all Item.isPrim) &&
            zipAll itemOk fi.val.items fs.val.items))) := by
  cases hval : fi.val with
  | none => exact absurd hval hv
  | one i => simp only [fieldOk, hval]
  | many l => simp only [fieldOk, hval]

theorem fieldOk_content {ig : List String} {skip : Option String}
    (hig : ∀ n, ig.contains n = true → structuralField n = true ∨ some n = skip) {fi fs : Fld}
    (h : fieldOk ig fi fs = true) : fieldContentOk skip fi fs = true := by
  simp only [fieldContentOk]
  cases hp : plainItems fi.val with
  | none => rfl
  | some items =>
    obtain ⟨h1, h2, h3, h4⟩ := plainItems_some hp
    simp only [Bool.or_eq_true, decide_eq_true_eq, Bool.and_eq_true, Bool.not_eq_true']
    rw [fieldOk_unfold h4] at h
    simp only [Bool.and_eq_true, Bool.or_eq_true, decide_eq_true_eq, Bool.not_eq_true'] at h
    by_cases hign : ig.contains fi.name = true
    · rcases hig _ hign with hs | hs
      · exact Or.inl (Or.inl hs)
      · exact Or.inl (Or.inr hs)
    · refine Or.inr ⟨?_, ?_⟩
      · rcases h.1 with h' | h'
        · exact h'
        · exact absurd h' hign
      · rcases h.2 with h' | h'
        · exact absurd h' hign
        · by_cases hS : fs.val.items.all Item.isPrim = true
          · right
            rw [h1] at h'
            have hlen := lenGuard h'.1 h2 h3 hS
            exact zipAll_itemOk_eq _ _ h'.2 hlen h3 hS
          · left; simpa using hS

theorem shallowMainB_spec {cm : Bool} {pf : String} {ig : List String} {skip : Option String} {p s : T}
    (hig : ∀ n, ig.contains n = true → structuralField n = true ∨ some n = skip)
    (h : shallowMainB cm pf ig p s = true) :
    p.kind = s.kind ∧ metasMatch cm pf s = true ∧ contentEq skip p s = true := by
  simp only [shallowMainB, Bool.and_eq_true, decide_eq_true_eq] at h
  obtain ⟨⟨⟨h1, h2⟩, h3⟩, h4⟩ := h
  refine ⟨h2, h3, ?_⟩
  simp only [contentEq, Bool.and_eq_true, decide_eq_true_eq]
  exact ⟨Nat.le_of_eq h1, zipAll_imp (fun a b hab => fieldOk_content hig hab) _ _ h4⟩

theorem shallowMain_some {cm : Bool} {pf : String} {ig : List String} {pp sp : Path} {p s : T} {b : AstMap}
    (h : shallowMain cm pf ig pp p sp s = some b) : b = pairMap pp sp ∧ shallowMainB cm pf ig p s = true := by
  simp only [shallowMain] at h
  split at h
  · rename_i hc; cases h; exact ⟨rfl, hc⟩
  · cases h

/-! ### what `shallow_match` establishes -/

theorem nodeOk_of_content {m : AstMap} {p s : T} (hk : p.kind = s.kind) (hc : contentEq none p s = true) :
    nodeOk m p s = true := by
  simp only [nodeOk, Bool.and_eq_true, decide_eq_true_eq]
  refine ⟨hk, ?_⟩
  cases hi : identField p.kind with
  | none => simp only [hc]
  | some f => simp [hc]

theorem nodeOk_of_bind {m : AstMap} {p s : T} {f : String} (hk : p.kind = s.kind)
    (hf : identField p.kind = some f) (hv : nameClass (p.strAttr f) = .var)
    (hb : hasBind m (p.strAttr f) (s.strAttr f) = true) : nodeOk m p s = true := by
  simp only [nodeOk, Bool.and_eq_true, decide_eq_true_eq]
  refine ⟨hk, ?_⟩
  simp [hf, hv, hb]

theorem nodeOk_of_wild {m : AstMap} {p s : T} {f : String} (hk : p.kind = s.kind)
    (hf : identField p.kind = some f) (hw : nameClass (p.strAttr f) = .wild) : nodeOk m p s = true := by
  simp only [nodeOk, Bool.and_eq_true, decide_eq_true_eq]
  refine ⟨hk, ?_⟩
  simp [hf, hw]

theorem nodeOk_of_name {m : AstMap} {p s : T} {f : String} (hk : p.kind = s.kind)
    (hf : identField p.kind = some f) (hc : contentEq (some f) p s = true)
    (hn : p.strAttr f = s.strAttr f) : nodeOk m p s = true := by
  simp only [nodeOk, Bool.and_eq_true, decide_eq_true_eq]
  refine ⟨hk, ?_⟩
  simp [hf, hc, hn]

/-- facts about a map returned by `shallow_match(ins, std)` -/
structure ShallowGood (b : AstMap) (cm : Bool) (pf : String) (pp : Path) (p : T) (sp : Path) (s : T) : Prop where
  maps : b.mappings = [(pp, sp)]
  inv : ConfInv b
  noconf : b.conflicts = []
  metas : p.kind = "Module" ∨ metasMatch cm pf s = true
  node : role p = .concrete → nodeOk b p s = true
  exps : ∀ kv ∈ b.exps, role p = .expPh kv.1 ∧ kv.2 = sp ∧ p.kind = "Name"
  expKey : ∀ k, role p = .expPh k → p.kind = "Name" → (dictGet k b.exps).isSome = true

theorem pairMap_addBind_conflicts (pp sp : Path) (x : Bind) : ((pairMap pp sp).addBind x).conflicts = [] := by
  simp [AstMap.addBind, pairMap, differs]

theorem hasBind_addBind_self (m : AstMap) (x : Bind) : hasBind (m.addBind x) x.key x.id = true := by
  simp [hasBind]

theorem role_ne_concrete_of_name_exp {p : T} (hk : p.kind = "Name") (hc : nameClass (p.strAttr "id") = .exp) :
    role p = .expPh (p.strAttr "id") := by
  simp [role, hk, hc]

theorem role_of_name_wild {p : T} (hk : p.kind = "Name") (hc : nameClass (p.strAttr "id") = .wild) :
    role p = .wildcard := by
  simp [role, hk, hc]

theorem role_of_arg_wild {p : T} (hk : p.kind = "arg") (hc : nameClass (p.strAttr "arg") = .wild) :
    role p = .wildcard := by
  simp [role, hk, hc]

theorem ctx_structural : ∀ n, ["ctx"].contains n = true → structuralField n = true ∨ some n = (none : Option String) := by
  intro n hn
  simp only [List.contains_eq_mem, List.mem_singleton, decide_eq_true_eq] at hn
  subst hn; left; rfl

theorem nil_structural (skip : Option String) :
    ∀ n, ([] : List String).contains n = true → structuralField n = true ∨ some n = skip := by
  intro n hn; simp at hn

theorem shallowMain_good {cm : Bool} {pf : String} {ig : List String} {pp sp : Path} {p s : T} {b : AstMap}
    (hig : ∀ n, ig.contains n = true → structuralField n = true ∨ some n = (none : Option String))
    (hne : ∀ k, role p ≠ .expPh k ∨ p.kind ≠ "Name")
    (h : shallowMain cm pf ig pp p sp s = some b) : ShallowGood b cm pf pp p sp s := by
  obtain ⟨rfl, hb⟩ := shallowMain_some h
  obtain ⟨h1, h2, h3⟩ := shallowMainB_spec hig hb
  exact ⟨rfl, confInv_pairMap _ _, rfl, Or.inr h2, fun _ => nodeOk_of_content h1 h3,
    fun kv hkv => by simp [pairMap] at hkv,
    fun k hk hn => by rcases hne k with h' | h'; exact absurd hk h'; exact absurd hn h'⟩

theorem identField_name {p : T} (h : p.kind = "Name") : identField p.kind = some "id" := by
  simp [identField, h]
theorem identField_arg {p : T} (h : p.kind = "arg") : identField p.kind = some "arg" := by
  simp [identField, h]
theorem identField_attr {p : T} (h : p.kind = "Attribute") : identField p.kind = some "attr" := by
  simp [identField, h]

theorem role_not_exp_of_kind {p : T} (h1 : p.kind ≠ "Name") (h2 : p.kind ≠ "Expr") (k : String) :
    role p ≠ .expPh k := by
  simp only [role, h1, h2, if_false]
  split
  · simp
  · split
    · split <;> simp
    · split <;> simp

theorem symbolHandler_good {cm : Bool} {pf : String} {idVal : String} {pp sp : Path} {p s : T} {b : AstMap}
    (hk : (p.kind = "Name" ∧ idVal = "id") ∨ (p.kind = "arg" ∧ idVal = "arg") ∨
          (p.kind = "Attribute" ∧ idVal = "attr" ∧ s.kind = "Attribute"))
    (h : symbolHandler cm pf idVal pp p sp s = some b) : ShallowGood b cm pf pp p sp s := by
  have hf : identField p.kind = some idVal := by
    rcases hk with ⟨h1, h2⟩ | ⟨h1, h2⟩ | ⟨h1, h2, _⟩
    · rw [h2]; exact identField_name h1
    · rw [h2]; exact identField_arg h1
    · rw [h2]; exact identField_attr h1
  -- the fall-back to shallow_match_main
  have hmain : ∀ (hc : nameClass (p.strAttr idVal) ≠ .exp ∨ idVal ≠ "id"),
      shallowMain cm pf ["ctx"] pp p sp s = some b → ShallowGood b cm pf pp p sp s := by
    intro hc hm
    refine shallowMain_good ctx_structural ?_ hm
    intro k
    rcases hk with ⟨h1, h2⟩ | ⟨h1, _⟩ | ⟨h1, _, _⟩
    · left
      rcases hc with hc | hc
      · subst h2
        simp only [role, h1]
        simp only [show ("Name" : String) ≠ "Pass" from by decide, if_false, if_true]
        cases hn : nameClass (p.strAttr "id") <;> simp_all
      · exact absurd h2 hc
    · right; rw [h1]; decide
    · right; rw [h1]; decide
  simp only [symbolHandler] at h
  cases hc : nameClass (p.strAttr idVal) with
  | var =>
    simp only [hc] at h
    split at h
    · rename_i hcond
      simp only [Bool.and_eq_true, decide_eq_true_eq] at hcond
      have hnode : ∀ x : Bind, x.key = p.strAttr idVal → x.id = s.strAttr idVal →
          ShallowGood ((pairMap pp sp).addBind x) cm pf pp p sp s := by
        intro x hx1 hx2
        refine ⟨rfl, confInv_addBind (confInv_pairMap _ _) _, pairMap_addBind_conflicts _ _ _, Or.inr hcond.1, ?_, ?_, ?_⟩
        · intro _
          refine nodeOk_of_bind hcond.2.symm hf hc ?_
          rw [← hx1, ← hx2]; exact hasBind_addBind_self _ _
        · intro kv hkv; simp [pairMap] at hkv
        · intro k hr hn
          exfalso
          rcases hk with ⟨h1, h2⟩ | ⟨h1, _⟩ | ⟨h1, _, _⟩
          · subst h2
            simp only [role, h1] at hr
            simp only [show ("Name" : String) ≠ "Pass" from by decide, if_false, if_true, hc] at hr
            cases hr
          · rw [h1] at hn; revert hn; decide
          · rw [h1] at hn; revert hn; decide
      split at h
      · cases h; exact hnode _ rfl rfl
      · cases h; exact hnode _ rfl rfl
    · exact hmain (Or.inl (by rw [hc]; simp)) h
  | exp =>
    simp only [hc] at h
    split at h
    · rename_i hcond
      simp only [Bool.and_eq_true, decide_eq_true_eq] at hcond
      cases h
      have hid := hcond.2
      subst hid
      have hkn : p.kind = "Name" := by
        rcases hk with ⟨h1, _⟩ | ⟨_, h2⟩ | ⟨_, h2, _⟩
        · exact h1
        · exact absurd h2 (by decide)
        · exact absurd h2 (by decide)
      have hr := role_ne_concrete_of_name_exp hkn hc
      refine ⟨rfl, confInv_of_no_binds rfl rfl, rfl, Or.inr hcond.1, ?_, ?_, ?_⟩
      · intro hr'; rw [hr] at hr'; cases hr'
      · intro kv hkv
        simp only [pairMap, List.mem_singleton] at hkv
        subst hkv
        exact ⟨hr, rfl, hkn⟩
      · intro k hr' _
        rw [hr] at hr'
        cases hr'
        simp [pairMap, dictGet]
    · rename_i hcond
      by_cases hid : idVal = "id"
      · -- then metas do not match, so shallow_match_main fails too
        exfalso
        obtain ⟨_, hb⟩ := shallowMain_some h
        obtain ⟨_, h2, _⟩ := shallowMainB_spec ctx_structural hb
        simp only [Bool.and_eq_true, decide_eq_true_eq, not_and] at hcond
        exact hcond h2 hid
      · exact hmain (Or.inr hid) h
  | wild =>
    simp only [hc] at h
    split at h
    · rename_i hcond
      cases h
      refine ⟨rfl, confInv_pairMap _ _, rfl, Or.inr hcond, ?_, ?_, ?_⟩
      · intro hr
        rcases hk with ⟨h1, h2⟩ | ⟨h1, h2⟩ | ⟨h1, h2, h3⟩
        · subst h2; rw [role_of_name_wild h1 hc] at hr; cases hr
        · subst h2; rw [role_of_arg_wild h1 hc] at hr; cases hr
        · exact nodeOk_of_wild (by rw [h1, h3]) hf hc
      · intro kv hkv; simp [pairMap] at hkv
      · intro k hr hn
        exfalso
        rcases hk with ⟨h1, h2⟩ | ⟨h1, _⟩ | ⟨h1, _, _⟩
        · subst h2; rw [role_of_name_wild h1 hc] at hr; cases hr
        · rw [h1] at hn; revert hn; decide
        · rw [h1] at hn; revert hn; decide
    · exact hmain (Or.inl (by rw [hc]; simp)) h
  | plain =>
    simp only [hc] at h
    exact hmain (Or.inl (by rw [hc]; simp)) h

theorem shallowDef_good {cm : Bool} {pf : String} {tbl : Tbl} {ig : List String} {pp sp : Path} {p s : T} {b : AstMap}
    (hk : p.kind = "FunctionDef" ∨ p.kind = "ClassDef")
    (hig : ∀ n, ig.contains n = true → structuralField n = true ∨ some n = some "name")
    (h : shallowDef cm pf tbl ig pp p sp s = some b) : ShallowGood b cm pf pp p sp s := by
  have hf : identField p.kind = some "name" := by
    rcases hk with hk | hk <;> simp [identField, hk]
  have hnn : p.kind ≠ "Name" := by rcases hk with hk | hk <;> rw [hk] <;> decide
  have hne : p.kind ≠ "Expr" := by rcases hk with hk | hk <;> rw [hk] <;> decide
  simp only [shallowDef] at h
  cases hm : shallowMain cm pf ig pp p sp s with
  | none => simp [hm] at h
  | some m =>
    obtain ⟨rfl, hb⟩ := shallowMain_some hm
    obtain ⟨h1, h2, h3⟩ := shallowMainB_spec hig hb
    simp only [hm] at h
    split at h
    · rename_i hcond
      have common : ∀ b', b'.mappings = [(pp, sp)] → ConfInv b' → b'.conflicts = [] → b'.exps = [] →
          nodeOk b' p s = true → ShallowGood b' cm pf pp p sp s := by
        intro b' e1 e2 e3 e4 e5
        refine ⟨e1, e2, e3, Or.inr h2, fun _ => e5, ?_, ?_⟩
        · intro kv hkv; rw [e4] at hkv; cases hkv
        · intro k hr _; exact absurd hr (role_not_exp_of_kind hnn hne k)
      cases hc : nameClass (p.strAttr "name") with
      | var =>
        simp only [hc] at h
        cases h
        refine common _ rfl (confInv_addBind (confInv_pairMap _ _) _) (pairMap_addBind_conflicts _ _ _) rfl ?_
        exact nodeOk_of_bind h1 hf hc (hasBind_addBind_self _ _)
      | wild =>
        simp only [hc] at h
        cases h
        exact common _ rfl (confInv_pairMap _ _) rfl rfl (nodeOk_of_wild h1 hf hc)
      | exp =>
        simp only [hc] at h
        split at h
        · rename_i hn; cases h
          exact common _ rfl (confInv_pairMap _ _) rfl rfl (nodeOk_of_name h1 hf h3 hn)
        · cases h
      | plain =>
        simp only [hc] at h
        split at h
        · rename_i hn; cases h
          exact common _ rfl (confInv_pairMap _ _) rfl rfl (nodeOk_of_name h1 hf h3 hn)
        · cases h
    · cases h

theorem shallowMatch_good {cm : Bool} {pf : String} {pp sp : Path} {p s : T} {b : AstMap}
    (h : shallowMatch cm pf pp p sp s = some b) : ShallowGood b cm pf pp p sp s := by
  simp only [shallowMatch] at h
  have pairGood : ∀ (hm : p.kind = "Module" ∨ metasMatch cm pf s = true) (hr : role p ≠ .concrete)
      (hn : p.kind ≠ "Name"), ShallowGood (pairMap pp sp) cm pf pp p sp s := by
    intro hm hr hn
    refine ⟨rfl, confInv_pairMap _ _, rfl, hm, fun h' => absurd h' hr, ?_, fun k _ h' => absurd h' hn⟩
    intro kv hkv; simp [pairMap] at hkv
  split at h
  · rename_i hk
    split at h
    · cases h
      refine pairGood (Or.inl hk) ?_ (by rw [hk]; decide)
      simp [role, hk]
    · cases h
  · split at h
    · rename_i hk
      exact symbolHandler_good (Or.inr (Or.inl ⟨hk, rfl⟩)) h
    · split at h
      · rename_i hk
        split at h
        · rename_i hc
          simp only [Bool.and_eq_true, decide_eq_true_eq] at hc
          split at h
          · exact symbolHandler_good (Or.inr (Or.inr ⟨hk, rfl, hc.2⟩)) h
          · exact shallowMain_good (nil_structural _) (fun k => Or.inr (by rw [hk]; decide)) h
        · split at h
          · rename_i hc
            exact symbolHandler_good (Or.inr (Or.inr ⟨hk, rfl, hc⟩)) h
          · exact shallowMain_good (nil_structural _) (fun k => Or.inr (by rw [hk]; decide)) h
      · split at h
        · rename_i hk
          exact symbolHandler_good (Or.inl ⟨hk, rfl⟩) h
        · rename_i hnn
          split at h
          · rename_i hk
            simp only [Bool.or_eq_true, decide_eq_true_eq] at hk
            split at h
            · rename_i hm
              cases h
              refine pairGood (Or.inr hm) ?_ hnn
              rcases hk with hk | hk
              · simp [role, hk]
              · simp only [role, hk]
                simp only [show ("Expr" : String) ≠ "Pass" from by decide,
                  show ("Expr" : String) ≠ "Name" from by decide,
                  show ("Expr" : String) ≠ "arg" from by decide, if_false, if_true]
                split
                · split
                  · split <;> simp
                  · simp
                · simp
            · cases h
          · split at h
            · rename_i hk
              refine shallowDef_good (Or.inl hk) ?_ h
              intro n hn
              simp only [List.contains_eq_mem, List.mem_cons, List.mem_nil_iff, or_false,
                decide_eq_true_eq] at hn
              rcases hn with hn | hn
              · right; rw [hn]
              · left; rw [hn]; rfl
            · split at h
              · rename_i hk
                refine shallowDef_good (Or.inr hk) ?_ h
                intro n hn
                simp only [List.contains_eq_mem, List.mem_singleton, decide_eq_true_eq] at hn
                right; rw [hn]
              · exact shallowMain_good (nil_structural _) (fun k => Or.inr hnn) h

end Pedal.Cait

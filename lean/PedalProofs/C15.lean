import PedalProofs.SandboxIOLemmas
/-
C15 — captured output and mocked input exactly record what student code did, in order.

Every theorem is about `Pedal.SandboxIO.run init ops` — the function the driver executes
(`handleHist`) — for EVERY history `ops : List Op`, by induction over the history with
the invariant `Inv` (SandboxIOLemmas).  `history ops` is the declarative reading of the
history: the list of what each execution wrote (`written`), all of them / those since the
last `clear_output`.
-/
namespace Pedal.SandboxIO
open Pedal.Gen.SandboxIO

/-- declarative reading of a history -/
def history (ops : List Op) : Ghost := (grun init Ghost.init ops).2

theorem inv_history (ops : List Op) : Inv (run init ops) (history ops) := by
  have h := inv_grun init Ghost.init ops inv_init
  rwa [grun_fst] at h

/-- Raw output = concatenation, in order, of what the executions since the last clear wrote. -/
theorem c15_raw_is_concat_since_clear (ops : List Op) :
    (run init ops).raw = (history ops).since.flatten :=
  (inv_history ops).raw

/-- Each execution's own record holds exactly its share (one record per execution, in order). -/
theorem c15_context_share (ops : List Op) :
    (run init ops).contexts.map Ctx.output = (history ops).all :=
  (inv_history ops).ctxs

/-- The line view = in-order concatenation, over the executions since the last clear that wrote
something, of `rstrip` then `split "\n"` then `rstrip` each. -/
theorem c15_lines_view (ops : List Op) :
    (run init ops).lines =
      ((history ops).since.filter fun w => !w.isEmpty).flatMap
        fun w => (splitNL (rstrip w)).map rstrip :=
  (inv_history ops).lines

/-- A silent execution adds nothing to the raw output or the line view. -/
theorem c15_silent_contributes_nothing (ops : List Op) (pre : Option InputArg) (tr : List Event)
    (src : InputSrc) (hsrc : execSrc (run init ops).inputs pre = some src)
    (hsilent : written src.isCallable tr = []) :
    (run init (ops ++ [.exec pre tr])).lines = (run init ops).lines ∧
    (run init (ops ++ [.exec pre tr])).raw = (run init ops).raw := by
  rw [run_snoc, step_exec_some hsrc]
  simp [appendOutput, guardHolds_own, runEvents_buf, hsilent]

/-- and a non-silent one adds exactly its entries, after everything already there -/
theorem c15_printing_appends (ops : List Op) (pre : Option InputArg) (tr : List Event)
    (src : InputSrc) (hsrc : execSrc (run init ops).inputs pre = some src)
    (hloud : written src.isCallable tr ≠ []) :
    (run init (ops ++ [.exec pre tr])).lines =
      (run init ops).lines ++ linesOf (written src.isCallable tr) := by
  have : (written src.isCallable tr).isEmpty = false := by
    cases h : written src.isCallable tr with
    | nil => exact absurd h hloud
    | cons _ _ => rfl
  rw [run_snoc, step_exec_some hsrc]
  simp [appendOutput, guardHolds_own, runEvents_buf, this]

/-- `clear_output` empties both views and nothing else does (between executions). -/
theorem c15_clear_output (ops : List Op) :
    (run init (ops ++ [.clearOutput])).raw = [] ∧ (run init (ops ++ [.clearOutput])).lines = [] := by
  simp [run, List.foldl_append, step, stepE]

/-! ### inputs -/

/-- One execution that starts with queue `q` and calls `input()` `n` times: the calls return the
first `n` queued values in order, then the fixed default; exactly the returned values leave
the queue. -/
theorem c15_exec_inputs_fifo (q : List Str) (tr : List Event) :
    (runEvents (.queue q) tr).got.map Prod.fst =
        q.take (nReads tr) ++ List.replicate (nReads tr - q.length) defaultStr ∧
    (runEvents (.queue q) tr).src = .queue (q.drop (nReads tr)) :=
  ⟨(runEvents_queue q tr).2, (runEvents_queue q tr).1⟩

/-- The property's queue discipline as a specification over histories (no callables):
set replaces, queue appends, clear empties, an execution consumes one value per read. -/
def argItems : InputArg → List Str
  | .none => []
  | .one s => [s]
  | .many l => l
  | .callable _ => []

def specQueue (q : List Str) : Op → List Str
  | .exec none tr => q.drop (nReads tr)
  | .exec (some a) tr => (argItems a).drop (nReads tr)
  | .clearOutput => q
  | .setInput .none _ => []
  | .setInput a true => argItems a
  | .setInput a false => q ++ argItems a
  | .queueInput vs => q ++ vs
  | .clearInput => []

/-- what `input()` returns during an operation, per the property -/
def specReturned (q : List Str) : Op → Option (List Str)
  | .exec none tr => some (q.take (nReads tr) ++ List.replicate (nReads tr - q.length) defaultStr)
  | .exec (some a) tr =>
    some ((argItems a).take (nReads tr) ++ List.replicate (nReads tr - (argItems a).length) defaultStr)
  | _ => none

def argNoCallable : InputArg → Bool
  | .callable _ => false
  | _ => true

def Op.noCallable : Op → Bool
  | .exec (some a) _ => argNoCallable a
  | .setInput a _ => argNoCallable a
  | _ => true

theorem setInput_queue (q : List Str) (a : InputArg) (c : Bool) (h : argNoCallable a = true) :
    setInput (.queue q) a c =
      some (.queue (match a, c with
        | .none, _ => []
        | a, true => argItems a
        | a, false => q ++ argItems a)) := by
  cases a with
  | callable f => exact absurd h (by simp [argNoCallable])
  | _ => cases c <;> simp [setInput, argItems]

/-- One step of a callable-free history from a queue state: the operation does not raise, the
queue afterwards is the specified one and, for an execution, the new record's inputs are the
specified return values. -/
theorem step_queue (s : St) (q : List Str) (op : Op) (hq : s.inputs = .queue q)
    (hop : op.noCallable = true) :
    (stepE s op).isSome = true ∧ (step s op).inputs = .queue (specQueue q op) ∧
    (∀ r, specReturned q op = some r → ((step s op).contexts.getLast?).map Ctx.inputs = some r) := by
  cases op with
  | exec pre tr =>
    cases pre with
    | none =>
      simp [step, stepE, execSrc, hq, appendOutput, specQueue, specReturned, runEvents_queue]
    | some a =>
      have ha : argNoCallable a = true := hop
      have := setInput_queue q a true ha
      cases a <;>
        simp_all [step, stepE, execSrc, appendOutput, specQueue, specReturned, runEvents_queue, argItems]
  | clearOutput => simp [step, stepE, hq, specQueue, specReturned]
  | setInput a c =>
    have ha : argNoCallable a = true := hop
    have := setInput_queue q a c ha
    cases a <;> cases c <;> simp_all [step, stepE, specQueue, specReturned, argItems]
  | queueInput vs =>
    have := setInput_queue q (.many vs) false rfl
    simp_all [step, stepE, specQueue, specReturned, argItems]
  | clearInput =>
    have := setInput_queue q .none true rfl
    simp_all [step, stepE, specQueue, specReturned]

/-- FIFO, each queued value consumed once, fixed default afterwards — over ALL callable-free
histories: after any such history the sandbox's queue is the specified queue (so nothing is
lost, duplicated or reordered by any interleaving of set/queue/clear operations and
executions), and no operation raised. -/
theorem c15_input_fifo_once_default (ops : List Op) (h : ∀ op ∈ ops, op.noCallable = true) :
    (run init ops).inputs = .queue (ops.foldl specQueue []) := by
  suffices H : ∀ (s : St) (q : List Str), s.inputs = .queue q → (∀ op ∈ ops, op.noCallable = true) →
      (run s ops).inputs = .queue (ops.foldl specQueue q) from H init [] rfl h
  induction ops with
  | nil => intro s q hq _; simpa [run] using hq
  | cons op ops ih =>
    intro s q hq hall
    have hs := step_queue s q op hq (hall op (List.mem_cons_self ..))
    simp only [run, List.foldl_cons]
    exact ih (fun op' hop' => h op' (List.mem_cons_of_mem _ hop')) (step s op) (specQueue q op) hs.2.1
      (fun op' hop' => hall op' (List.mem_cons_of_mem _ hop'))

/-- …and every execution of such a history records, as its inputs, exactly what the property
says `input()` returned (the queue in force at that moment, FIFO, then the default). -/
theorem c15_input_record (ops : List Op) (pre : Option InputArg) (tr : List Event)
    (h : ∀ op ∈ ops ++ [.exec pre tr], op.noCallable = true) :
    ((run init (ops ++ [.exec pre tr])).contexts.getLast?).map Ctx.inputs =
      specReturned (ops.foldl specQueue []) (.exec pre tr) := by
  have hq := c15_input_fifo_once_default ops (fun op hop => h op (List.mem_append_left _ hop))
  have hs := step_queue (run init ops) _ (.exec pre tr) hq (h _ (by simp))
  have e : run init (ops ++ [.exec pre tr]) = step (run init ops) (.exec pre tr) := by
    simp [run, List.foldl_append]
  rw [e]
  cases pre <;> exact hs.2.2 _ rfl

/-- `run(inputs=a, before=B, code)` — which the harness sends as `[.exec (some a) B, .exec none tr]`, the
order `Sandbox.run` documents (the inputs are queued, then the `before` code is an execution of its own,
then the code) — after ANY callable-free history: the `before` code reads the first `nReads B` of the
GIVEN inputs (not what was queued earlier: the earlier queue is replaced), the code goes on where the
`before` code stopped, and what is left in the queue is what neither of them read. -/
theorem c15_run_with_before (ops : List Op) (a : InputArg) (B tr : List Event)
    (h : ∀ op ∈ ops, op.noCallable = true) (ha : argNoCallable a = true) :
    let s1 := run init (ops ++ [.exec (some a) B])
    let s2 := run init (ops ++ [.exec (some a) B, .exec none tr])
    (s1.contexts.getLast?).map Ctx.inputs =
        some ((argItems a).take (nReads B) ++ List.replicate (nReads B - (argItems a).length) defaultStr) ∧
    (s2.contexts.getLast?).map Ctx.inputs =
        some (((argItems a).drop (nReads B)).take (nReads tr) ++
          List.replicate (nReads tr - ((argItems a).drop (nReads B)).length) defaultStr) ∧
    s2.inputs = .queue ((argItems a).drop (nReads B + nReads tr)) := by
  intro s1 s2
  have hq := c15_input_fifo_once_default ops h
  have e1 : s1 = step (run init ops) (.exec (some a) B) := by
    simp [s1, run, List.foldl_append]
  have e2 : s2 = step s1 (.exec none tr) := by
    simp [s1, s2, run, List.foldl_append]
  have h1 := step_queue (run init ops) _ (.exec (some a) B) hq ha
  rw [← e1] at h1
  have h2 := step_queue s1 _ (.exec none tr) h1.2.1 rfl
  rw [← e2] at h2
  refine ⟨h1.2.2 _ rfl, h2.2.2 _ rfl, ?_⟩
  rw [h2.2.1]
  simp [specQueue, List.drop_drop]

/-- non-vacuity: three inputs, the `before` code reads one, the code reads one, one is left -/
example :
    (run init [.queueInput ["s".toList], .exec (some (.many ["X".toList, "Y".toList, "Z".toList])) [.read []],
      .exec none [.read []]]).inputs = .queue ["Z".toList] := by rfl

/-- with a callable installed, `input()` returns what the callable returns for the prompt and
the prompt is not echoed -/
theorem c15_callable_reads (f : Callable) (tr : List Event) :
    (runEvents (.callable f) tr).src = .callable f ∧
    (runEvents (.callable f) tr).buf = written true tr :=
  ⟨runEvents_callable f tr, runEvents_buf _ tr⟩

/-- OBJECTS THAT OUTLIVE AN EXECUTION.  Replacing, anywhere in a history, calls of `input` through a
reference kept from an earlier execution (`ask = input`, a helper module imported earlier, a
generator that captured it) by calls through the current `input` changes nothing the sandbox
records: the whole state after the history is the same.  Hence every theorem above, stated over
ALL traces (kept reads included), says for kept reads exactly what it says for ordinary ones:
they are answered from the queue as it is at that moment, FIFO, once, then the default; their
prompts and values belong to the execution that made the call. -/
def Event.unkeep : Event → Event
  | .readKept p => .read p
  | e => e

def Op.unkeep : Op → Op
  | .exec pre tr => .exec pre (tr.map Event.unkeep)
  | op => op

theorem runEvents_unkeep (src : InputSrc) (tr : List Event) :
    runEvents src (tr.map Event.unkeep) = runEvents src tr := by
  induction tr generalizing src with
  | nil => rfl
  | cons e es ih =>
    cases e with
    | write t => simp [Event.unkeep, runEvents, ih]
    | read p =>
      cases src with
      | callable f => simp [Event.unkeep, runEvents, ih]
      | queue q => cases q <;> simp [Event.unkeep, runEvents, popQueue_nil, popQueue_cons, ih]
    | readKept p =>
      rw [runEvents_readKept]
      cases src with
      | callable f => simp [Event.unkeep, runEvents, ih]
      | queue q => cases q <;> simp [Event.unkeep, runEvents, popQueue_nil, popQueue_cons, ih]

theorem c15_kept_input_is_current_input (ops : List Op) :
    run init (ops.map Op.unkeep) = run init ops := by
  suffices H : ∀ s : St, run s (ops.map Op.unkeep) = run s ops from H init
  induction ops with
  | nil => intro s; rfl
  | cons op ops ih =>
    intro s
    have hstep : step s op.unkeep = step s op := by
      cases op <;> simp [Op.unkeep, step, stepE, runEvents_unkeep]
    simp only [List.map_cons, run, List.foldl_cons, hstep]
    exact ih (step s op)

/-! ### non-vacuity / regression tests (evaluated, not theorems) -/

private def s (x : String) : Str := x.toList

-- a printing run, a silent call, a whitespace-only call, a clear, a prompt
#guard (run init [.exec none [.write (s "a\n")], .exec none []]).lines = [s "a"]
#guard (run init [.exec none [.write (s "a \n\nb  \n")], .exec none [.write (s "\n")]]).lines
        = [s "a", s "", s "b", s ""]
#guard (run init [.exec none [.write (s "a")], .clearOutput, .exec none [.read (s "p?")]]).lines = [s "p?"]
#guard (run init [.exec none [.write (s "a")], .exec none [.write (s "b")]]).raw = s "ab"
#guard (history [.exec none [.write (s "a")], .exec none [], .clearOutput, .exec none [.read (s "p")]]).since
        = [s "p\n"]
#guard ((run init [.setInput (.many [s "1", s "2"]) true, .queueInput [s "3"],
          .exec none [.read [], .read []], .exec none [.read [], .read []]]).contexts.map Ctx.inputs)
        = [[s "1", s "2"], [s "3", defaultStr]]
-- a kept `input` after the queue was REBOUND (clear_input) and refilled: the new values, FIFO, then the default
#guard ((run init [.setInput (.many [s "a", s "b"]) true, .exec none [.readKept (s "p")], .clearInput,
          .queueInput [s "c"], .exec none [.readKept (s "p"), .read [], .readKept []]]).contexts.map Ctx.inputs)
        = [[s "a"], [s "c", defaultStr, defaultStr]]
#guard (run init [.exec none [.readKept (s "p?")]]).raw = s "p?\n"
#guard rstrip (s "a \t\x0b\x0c\r\n\x1c\x1d\x1e\x1f\u0085  　") = s "a"
#guard rstrip (s " a​") = s " a​"
#guard splitNL (s "a\n\nb\n") = [s "a", s "", s "b", s ""]
#guard splitNL [] = [[]]
#guard linesOf (s "x\ty \r\n\x0c\n") = [s "x\ty"]
-- the premise of the callable-free theorems is satisfiable and the callable path is live
#guard ([Op.setInput (.one (s "1")) false, .exec (some (.many [s "2"])) [.read []]].all Op.noCallable)
#guard (stepE (run init [.setInput (.callable .prefixC) true]) (.queueInput [s "a"])).isNone

end Pedal.SandboxIO

import PedalProofs.SandboxExecLemmas
/-
C04 — student-code failures are contained and reported, never raised into the grader.

Statements are about `Pedal.SandboxExec.execute / stepOp / runOps` on the generated configuration `genCfg`,
for EVERY exception descriptor whose class is an Exception or SystemExit subclass (any name, any flags, any
traceback shape, raised at run time or by `compile`), every tracer style, and every history of executions.

Exception OBJECTS that make pedal's own bookkeeping raise are described by `ExcDesc.hazards`; the hazards the
tree under test does not guard are the probed table `unguarded`.  The theorems hold for every exception with no
unguarded hazard (`c04_*`, `…_partial`); the full statement and its refutation whenever the table is non-empty
are `C04_Contained_Full` / `c04_contained_counterexample`.
-/
namespace Pedal.SandboxExec
open Pedal.Gen.SandboxExec

/-- For each control signature the generated ladder returns, records a contained failure exactly once as the
    student's exception, and records nothing for a normal run - by evaluation of `plan` (48 cases). -/
theorem c04_ladder_contains : allSigs.all (checkC04 mockProbe executeDef) = true := by decide

theorem gen_checkC04 (sig : Sig) : checkC04 genCfg.probe genCfg.exec sig = true :=
  forall_sig_of_all c04_ladder_contains sig

/-- `Sandbox._import` (a student file imported by the running code) has no handlers of its own and does not touch
    the mocking: a failure inside the imported file reaches `_execute`'s ladder like any other (read from its AST). -/
theorem c04_import_transparent : importDef.transparent = true := by decide

/-- The tracer's `with self.trace.as_filename(...)` block lets every failure through unchanged: the model's
    `tracedExec` step hands `_execute`'s handlers exactly what the student code raised.  Probed on the tree under test
    for every tracer style x every exception class the sandbox's own code names and all their base classes (Exception
    and BaseException themselves, the classes of the library the `calls` style is built on, ...), entered once and
    re-entered as `_import` does: no (style, class) pair is swallowed or replaced. -/
theorem c04_tracers_let_failures_through : tracerSwallows = [] := by decide

/-- An exception C04 speaks about: Exception or SystemExit subclass. -/
def ExcDesc.containable (e : ExcDesc) : Prop := e.isException = true ∨ e.isSystemExit = true

/-- None of its hazards is one the tree leaves unguarded. -/
def ExcDesc.safe (e : ExcDesc) : Prop := hazardous unguarded e = false

instance (e : ExcDesc) : Decidable e.containable := by unfold ExcDesc.containable; infer_instance
instance (e : ExcDesc) : Decidable e.safe := by unfold ExcDesc.safe; infer_instance

/-- The call returns normally to the instructor script. -/
theorem c04_contained (style : TraceStyle) (nested : Bool) (s : St) (hs : s.Inv) (t : Termination) (e : ExcDesc)
    (ht : t.exc? = some e) (hc : e.containable) (hz : e.safe) :
    (execute genCfg style nested s t false).2 = .returned :=
  (execute_contains genCfg gen_checkC04 style nested s hs t e ht hc hz).1

/-- The failure is available as the sandbox's exception (builtin KeyError as pedal's KeyError). -/
theorem c04_exception_available (style : TraceStyle) (nested : Bool) (s : St) (hs : s.Inv) (t : Termination) (e : ExcDesc)
    (ht : t.exc? = some e) (hc : e.containable) (hz : e.safe) :
    (execute genCfg style nested s t false).1.exception = some (if e.isKeyError then "KeyError" else e.cls) :=
  (execute_contains genCfg gen_checkC04 style nested s hs t e ht hc hz).2.1

/-- Exactly one runtime feedback is added, of the class `EXCEPTION_FF_MAP` gives for the exact exception
    class (else the generic one), naming that class. -/
theorem c04_exactly_one_runtime_feedback (style : TraceStyle) (nested : Bool) (s : St) (hs : s.Inv) (t : Termination)
    (e : ExcDesc) (ht : t.exc? = some e) (hc : e.containable) (hz : e.safe) :
    ∃ fb : Fb, (execute genCfg style nested s t false).1.feedbacks = s.feedbacks ++ [fb] ∧
      fb.excName = reportedCls e ∧
      fb.label = (ffMap.lookup (reportedCls e)).getD genericLabel ∧
      fb.line = chooseLine lineStrategy e :=
  ⟨_, (execute_contains genCfg gen_checkC04 style nested s hs t e ht hc hz).2.2, rfl, rfl, rfl⟩

/-- The feedback classes are in the `runtime` category (read from `runtime_error.category`). -/
theorem c04_runtime_category : runtimeCategory = "runtime" := by decide

/-- … located on the student's own line: the innermost student-file frame of the traceback, wherever the
    exception object was created (library, pedal's mocked builtins, a called function). -/
theorem c04_location_on_student_line (style : TraceStyle) (nested : Bool) (s : St) (hs : s.Inv) (t : Termination)
    (e : ExcDesc) (ht : t.exc? = some e) (hc : e.containable) (hz : e.safe)
    (l : Nat) (hl : lastLine .student e.frames = some l) :
    ∃ fb : Fb, (execute genCfg style nested s t false).1.feedbacks = s.feedbacks ++ [fb] ∧ fb.line = some l := by
  refine ⟨_, (execute_contains genCfg gen_checkC04 style nested s hs t e ht hc hz).2.2, ?_⟩
  have hstrat : genCfg.strategy = .studentFirst := by decide
  simp [chooseLine, hstrat, hl]

/-- A compile failure with a position is located on that line when no student frame exists. -/
theorem c04_location_of_compile_failure (e : ExcDesc) (l : Nat) (hf : e.frames = []) (hl : e.synLine = some l) :
    chooseLine lineStrategy e = some l := by
  have hstrat : lineStrategy = .studentFirst := by decide
  simp [chooseLine, hstrat, hf, hl, lastLine]

/-- C05's depth independence, imported as a hypothesis (proved for the generated ladder as
    `c05_ladder_depth_independent` in PedalProofs/C05.lean): `_execute` plans the same steps whatever is already on
    the patch / stdout stacks. -/
def DepthIndependent : Prop :=
  ∀ (b : Base) (sig : Sig), plan mockProbe b sig executeDef = plan mockProbe base0 sig executeDef

/-- Containment does not depend on where the execution is started: in ANY state of the stacks - i.e. while other
    executions are in progress on the same sandbox (an input callable or a mocked builtin that runs call() /
    evaluate() / run() itself) - and whatever executions `inner` its own code starts, the call returns. -/
theorem c04_contained_when_nested (hC05 : DepthIndependent) (style : TraceStyle) (nested : Bool) (s : St)
    (inner : St → St) (t : Termination) (e : ExcDesc) (ht : t.exc? = some e) (hc : e.containable) (hz : e.safe) :
    (executeN genCfg style nested s t false inner).2 = .returned := by
  have h0 := c04_contained style nested St.init (by decide) t e ht hc hz
  have hb : baseOf St.init = base0 := by decide
  simp only [execute, hb] at h0
  simp only [executeN]
  rw [show genCfg.probe = mockProbe from rfl, show genCfg.exec = executeDef from rfl, hC05]
  exact h0

/-- A run that ends normally returns, reports nothing and leaves no exception. -/
theorem c04_normal_run_reports_nothing (style : TraceStyle) (nested : Bool) (s : St) (hs : s.Inv) (inject : Bool) :
    (execute genCfg style nested s .normal inject).2 = .returned ∧
    (execute genCfg style nested s .normal inject).1.exception = none ∧
    (execute genCfg style nested s .normal inject).1.feedbacks = s.feedbacks :=
  execute_normal genCfg gen_checkC04 style nested s hs inject

/-- Everything the default configuration blocks raises an ordinary Exception (probed by using each once),
    hence is contained and reported by the theorems above; the documented block list is present. -/
theorem c04_blocked_features_reported :
    blocked.all (fun b => b.isException) = true ∧
    ["compile", "eval", "exec", "globals", "exit", "open:.py", "open:write", "import:pedal", "module:pedal"].all
      (fun n => blocked.any (fun b => b.name == n)) = true := by
  decide

/-! ### Histories -/

def outcomes (cfg : Cfg) : St → List Op → List Outcome
  | _, [] => []
  | s, op :: ops => (stepOp cfg s op).2.1 :: outcomes cfg (stepOp cfg s op).1 ops

/-- The op runs student code that fails. -/
def Op.fails (op : Op) : Bool := op.executes && op.term.exc?.isSome

/-- An op within C04's quantifier: no injected fault, a restoring tracer style, and a containable, safe failure. -/
def Op.Contained (op : Op) : Prop :=
  op.inject = false ∧ TraceOK op.style op.nested ∧ ∀ e, op.term.exc? = some e → e.containable ∧ e.safe

theorem stepOp_contained (s : St) (hs : s.Inv) (op : Op) (hop : op.Contained) :
    (stepOp genCfg s op).2.1 = .returned ∧
    (stepOp genCfg s op).1.feedbacks.length = s.feedbacks.length + (if op.fails then 1 else 0) := by
  obtain ⟨hinj, _, hexc⟩ := hop
  have key : ∀ (hx : op.executes = true),
      (execute genCfg op.style op.nested s op.term op.inject).2 = .returned ∧
      (execute genCfg op.style op.nested s op.term op.inject).1.feedbacks.length =
        s.feedbacks.length + (if op.fails then 1 else 0) := by
    intro hx
    rw [hinj]
    cases ht : op.term.exc? with
    | none =>
      have hn : op.term = .normal := by
        cases hterm : op.term <;> simp [hterm, Termination.exc?] at ht ⊢
      have := c04_normal_run_reports_nothing op.style op.nested s hs false
      simp [hn] at this ⊢
      simp [Op.fails, hn, Termination.exc?, this.1, this.2.2]
    | some e =>
      obtain ⟨hc, hz⟩ := hexc e ht
      have := execute_contains genCfg gen_checkC04 op.style op.nested s hs op.term e ht hc hz
      simp [Op.fails, hx, ht, this.1, this.2.2]
  unfold stepOp
  split
  · rename_i h
    simp [Op.fails, Op.executes, h]
  · rename_i h
    have := key (by simp [Op.executes, h])
    simp [this.1, this.2]
  · rename_i h1 h2
    have hx : op.executes = true := by
      unfold Op.executes
      split
      · rename_i h; exact absurd h h1
      · rfl
    have := key hx
    simp [this.1, this.2]

/-- C05's invariant, imported as a hypothesis (proved for the generated configuration as
    `c05_restored_after_op` in PedalProofs/C05.lean): an execution started with empty patch / stdout stacks
    ends with empty stacks. -/
def StacksRestored : Prop :=
  ∀ (s : St) (op : Op), s.Inv → TraceOK op.style op.nested → (stepOp genCfg s op).1.Inv

/-- Over ANY sequence of run / call / evaluate whose failures are containable: every call returns to the
    instructor script and each failing execution adds exactly one runtime feedback. -/
theorem c04_history (hC05 : StacksRestored) (ops : List Op) (hops : ∀ op ∈ ops, op.Contained) (s : St)
    (hs : s.Inv) :
    (∀ o ∈ outcomes genCfg s ops, o = .returned) ∧
    (runOps genCfg s ops).feedbacks.length = s.feedbacks.length + (ops.filter Op.fails).length := by
  induction ops generalizing s with
  | nil => simp [outcomes, runOps]
  | cons op ops ih =>
    have hop := hops op (List.mem_cons_self ..)
    have h1 := stepOp_contained s hs op hop
    have hinv := hC05 s op hs hop.2.1
    have h2 := ih (fun o ho => hops o (List.mem_cons_of_mem _ ho)) (stepOp genCfg s op).1 hinv
    refine ⟨?_, ?_⟩
    · intro o ho
      simp only [outcomes, List.mem_cons] at ho
      rcases ho with ho | ho
      · rw [ho]; exact h1.1
      · exact h2.1 o ho
    · simp only [runOps]
      rw [h2.2, h1.2, List.filter_cons]
      split <;> simp <;> omega

/-- Non-vacuity (evaluated): ZeroDivisionError inside a called function, then `sys.exit()`, then a clean run. -/
def exampleZde : ExcDesc :=
  { cls := "ZeroDivisionError", isException := true, isSystemExit := false, isKeyError := false, hazards := [],
    synLine := none, frames := [{ kind := .instructor, line := 1 }, { kind := .student, line := 3 }] }
def exampleExit : ExcDesc :=
  { cls := "SystemExit", isException := false, isSystemExit := true, isKeyError := false, hazards := [],
    synLine := none, frames := [{ kind := .student, line := 2 }] }
def exampleStyle04 : TraceStyle := { name := "native", installs := true, restores := true, restoresNested := true }
def exampleOps04 : List Op :=
  [{ entry := .call true, style := exampleStyle04, nested := true, inject := false, term := .raised exampleZde },
   { entry := .run, style := exampleStyle04, nested := false, inject := false, term := .raised exampleExit },
   { entry := .run, style := exampleStyle04, nested := false, inject := false, term := .normal }]

example : (runOps genCfg St.init exampleOps04).feedbacks =
    [{ label := "zero_division_error", excName := "ZeroDivisionError", line := some 3 },
     { label := "runtime_error", excName := "SystemExit", line := some 2 }] := by decide
example : exampleZde.containable ∧ exampleZde.safe := by decide

/-! ### The full statement over every exception object, and the region where it fails -/

/-- The property as stated: whatever exception OBJECT the student code raises. -/
def C04_Contained_Full : Prop :=
  ∀ (style : TraceStyle) (nested : Bool) (s : St), s.Inv → ∀ (t : Termination) (e : ExcDesc), t.exc? = some e → e.containable →
    (execute genCfg style nested s t false).2 = .returned

/-- Excluded region: the exception object has a hazard the tree does not guard. -/
def ExcludedExc (e : ExcDesc) : Bool := hazardous unguarded e

theorem c04_contained_partial (style : TraceStyle) (nested : Bool) (s : St) (hs : s.Inv) (t : Termination) (e : ExcDesc)
    (ht : t.exc? = some e) (hc : e.containable) (hx : ExcludedExc e = false) :
    (execute genCfg style nested s t false).2 = .returned :=
  c04_contained style nested s hs t e ht hc hx

theorem c04_contained_full_of_no_excluded (h : ∀ e, ExcludedExc e = false) : C04_Contained_Full :=
  fun style nested s hs t e ht hc => c04_contained_partial style nested s hs t e ht hc (h e)

/-- In the generated ladder, an Exception whose recording raises is not contained (evaluated, all signatures). -/
def escapeCheck : Bool :=
  allSigs.all fun sig =>
    !(sig.kind == .raised && sig.isException && sig.captureFails && !sig.injected) ||
      (plan mockProbe base0 sig executeDef).2 != .returned

/-- Whenever the probe table lists an unguarded hazard, the full statement is false: an Exception subclass
    whose instances have that hazard escapes `_execute` from the initial state. -/
theorem c04_contained_counterexample (hx : unguarded ≠ []) (hc : escapeCheck = true) : ¬ C04_Contained_Full := by
  intro hfull
  obtain ⟨h, rest, hu⟩ := List.exists_cons_of_ne_nil hx
  let e : ExcDesc := { cls := "E", isException := true, isSystemExit := false, isKeyError := false,
                       hazards := [h], synLine := none, frames := [{ kind := .student, line := 1 }] }
  have hret := hfull exampleStyle04 false St.init (by decide) (.raised e) e rfl (Or.inl rfl)
  have hhaz : hazardous genCfg.unguarded e = true := by
    show hazardous unguarded e = true
    simp [hazardous, e, hu]
  have hsig : sigOf genCfg (.raised e) false =
      { kind := .raised, isException := true, isSystemExit := false, captureFails := true, injected := false } := by
    simp only [sigOf, hhaz, e]
  have hb : baseOf St.init = base0 := by decide
  simp only [execute, hb, hsig] at hret
  have := forall_sig_of_all hc
    { kind := .raised, isException := true, isSystemExit := false, captureFails := true, injected := false }
  simp at this
  exact this hret

/-- The counterexample applies to the tree under test exactly when the table is non-empty (evaluated). -/
theorem c04_counterexample_applies : unguarded ≠ [] → escapeCheck = true := by decide

end Pedal.SandboxExec

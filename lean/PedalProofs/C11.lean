import PedalProofs.CaitSelf
import PedalProofs.C10
/-
C11 — CAIT finds every occurrence that exists by construction.

`findMatches` is the model of `pedal.cait.cait_api.find_matches` the driver executes (PedalModel/Cait.lean).
Part 1 (this section): `any_node_match` tries `deep_find_match` at every node of the (trimmed) program, so a
match of the trimmed pattern at ANY node of the program is a result of `find_matches`, with that node as
`match_root`; hence a program, and every fragment (statement, expression) of it, matches itself.
-/
namespace Pedal.Cait

/-! ### any_node_match reaches every node of the program -/

theorem anyKids_intro (pf : String) (pp : Path) (p : T) (sp : Path) (m : AstMap) :
    ∀ (kids : List T) (j i : Nat) (c : T), kids[i]? = some c → m ∈ anyNode pf pp p (sp ++ [j + i]) c →
      m ∈ anyKids pf pp p sp j kids := by
  intro kids
  induction kids with
  | nil => intro j i c h; simp at h
  | cons a as ih =>
    intro j i c h hm
    rw [anyKids, List.mem_append]
    cases i with
    | zero =>
      simp only [List.getElem?_cons_zero, Option.some.injEq] at h
      subst h
      exact Or.inl (by simpa using hm)
    | succ i =>
      simp only [List.getElem?_cons_succ] at h
      refine Or.inr (ih (j + 1) i c h ?_)
      have : j + 1 + i = j + (i + 1) := by omega
      rw [this]; exact hm

theorem anyNode_intro (pf : String) (pp : Path) (p : T) (m : AstMap) :
    ∀ (q : Path) (s : T) (sp : Path) (sq : T), s.at? q = some sq → m ∈ deep true pf pp p (sp ++ q) sq →
      m ∈ anyNode pf pp p sp s := by
  intro q
  induction q with
  | nil =>
    intro s sp sq h hm
    simp only [T.at?, Option.some.injEq] at h
    subst h
    cases s with
    | mk k f fl kids =>
      rw [anyNode, List.mem_append]
      exact Or.inl (by simpa using hm)
  | cons i rest ih =>
    intro s sp sq h hm
    cases s with
    | mk k f fl kids =>
      simp only [T.at?] at h
      cases hk : kids[i]? with
      | none => simp [hk] at h
      | some c =>
        simp only [hk] at h
        rw [anyNode, List.mem_append]
        refine Or.inr (anyKids_intro pf pp p sp m kids 0 i c hk ?_)
        simp only [Nat.zero_add]
        exact ih c (sp ++ [i]) sq h (by simpa using hm)

/-- A match of the trimmed pattern at the node `t` standing at `q` below the trimmed program root is one of
the results of `find_matches`. -/
theorem findMatches_intro (p s : T) (q : Path) (t : T) (m : AstMap)
    (hat : (trimRoot s).1.at? q = some t)
    (hm : m ∈ deep true (rootField p) (trimGo p []).2 (trimGo p []).1 ((trimRoot s).2 ++ q) t) :
    (m, dictGet (trimGo p []).2 m.mappings) ∈ findMatches p s := by
  simp only [findMatches, List.mem_map]
  exact ⟨m, anyNode_intro _ _ _ _ q _ _ t hat hm, rfl⟩

/-! ### shape assumptions are inherited by sub-trees -/

theorem binOp3_at : ∀ (q : Path) (t t' : T), binOp3 t = true → t.at? q = some t' → binOp3 t' = true := by
  intro q
  induction q with
  | nil => intro t t' h ha; simp only [T.at?, Option.some.injEq] at ha; subst ha; exact h
  | cons i rest ih =>
    intro t t' h ha
    cases t with
    | mk k f fl kids =>
      simp only [T.at?] at ha
      cases hk : kids[i]? with
      | none => simp [hk] at ha
      | some c =>
        simp only [hk] at ha
        exact ih c t' ((binOp3_kids h).1 c (List.mem_of_getElem? hk)) ha

theorem T.setField_setField (t : T) (f g : String) : (t.setField f).setField g = t.setField g := by
  cases t; rfl

theorem T.field_setField (t : T) (f : String) : (t.setField f).field = f := by cases t; rfl

theorem trimGo_nil_of_path_nil (s : T) (h : (trimGo s []).2 = []) : (trimGo s []).1 = s := by
  obtain ⟨q, h1, h2, _⟩ := trimGo_spec s []
  rw [h] at h1
  simp only [List.nil_append] at h1
  subst h1
  simpa [T.at?] using h2.symm

/-! ### C11, self-match -/

/-- **C11 (a fragment of the program used as the pattern).**  Let `t` be any node of the program (at `q`
below the trimmed root: a statement, an expression, the whole program) and `p` a pattern whose trimmed root
is a copy of `t` (the root may carry another field name, as it does when the fragment is parsed on its own).
Then `find_matches` returns a match rooted at that very node, without conflicts, and in it every identifier
that looks like a placeholder is bound to itself. -/
theorem c11_fragment_matches (p s : T) (q : Path) (t : T) (hb : binOp3 p = true) (ho : opLeaves p = true)
    (hat : (trimRoot s).1.at? q = some t)
    (hcopy : ∃ f, (trimGo p []).1 = t.setField f)
    (hfield : rootField p = "none" ∨ rootField p = t.field) :
    ∃ mr ∈ findMatches p s, mr.2 = some ((trimRoot s).2 ++ q) ∧ IdentBinds mr.1 ∧ mr.1.conflicts = [] := by
  obtain ⟨qp, _, hp2, hp3⟩ := trimGo_spec p []
  obtain ⟨f, hf⟩ := hcopy
  have hb' : binOp3 (trimGo p []).1 = true := binOp3_at qp p _ hb hp2
  have hmeta : metasMatch true (rootField p) (((trimGo p []).1).setField t.field) = true := by
    rcases hfield with h | h
    · rw [h]; exact metasMatch_none _ _
    · rw [h]
      have := metasMatch_same true (((trimGo p []).1).setField t.field)
      rwa [T.field_setField] at this
  obtain ⟨m, hm, hid⟩ := deep_self _ hb' true (rootField p) t.field (trimGo p []).2 ((trimRoot s).2 ++ q) hmeta
  have ht : ((trimGo p []).1).setField t.field = t := by
    rw [hf, T.setField_setField, T.setField_self]
  rw [ht] at hm
  have hg := deep_good _ (hp3 ho) _ _ _ _ _ _ hm
  refine ⟨_, findMatches_intro p s q t m hat hm, ?_, hid, hg.noconf⟩
  exact embAt_root hg.emb

/-- **C11 (the whole program as the pattern).** -/
theorem c11_program_matches_itself (s : T) (hb : binOp3 s = true) (ho : opLeaves s = true) :
    ∃ mr ∈ findMatches s s, mr.2 = some (trimRoot s).2 ∧ IdentBinds mr.1 ∧ mr.1.conflicts = [] := by
  have h := c11_fragment_matches s s [] (trimRoot s).1 hb ho rfl
    (by
      refine ⟨(trimGo s []).1.field, ?_⟩
      simp only [trimRoot]
      split
      · rw [T.setField_self]
      · rw [T.setField_setField, T.setField_self])
    (by
      simp only [rootField, trimRoot]
      split
      · rename_i h
        right
        rw [trimGo_nil_of_path_nil s (by simpa using h)]
      · left; rfl)
  simpa using h

end Pedal.Cait

import PedalProofs.CaitDeep
namespace Pedal.Cait
end Pedal.Cait

import PedalProofs.CaitGen
import PedalProofs.C10
/-
C11 — CAIT finds every occurrence that exists by construction.

`findMatches` is the model of `pedal.cait.cait_api.find_matches` the driver executes (PedalModel/Cait.lean).
Part 1 (this section): `any_node_match` tries `deep_find_match` at every node of the (trimmed) program, so a
match of the trimmed pattern at ANY node of the program is a result of `find_matches`, with that node as
`match_root`; hence a program, and every fragment (statement, expression) of it, matches itself.
-/
namespace Pedal.Cait

/-! ### any_node_match reaches every node of the program -/

theorem anyKids_intro (pf : String) (pp : Path) (p : T) (sp : Path) (m : AstMap) :
    ∀ (kids : List T) (j i : Nat) (c : T), kids[i]? = some c → m ∈ anyNode pf pp p (sp ++ [j + i]) c →
      m ∈ anyKids pf pp p sp j kids := by
  intro kids
  induction kids with
  | nil => intro j i c h; simp at h
  | cons a as ih =>
    intro j i c h hm
    rw [anyKids, List.mem_append]
    cases i with
    | zero =>
      simp only [List.getElem?_cons_zero, Option.some.injEq] at h
      subst h
      exact Or.inl (by simpa using hm)
    | succ i =>
      simp only [List.getElem?_cons_succ] at h
      refine Or.inr (ih (j + 1) i c h ?_)
      have : j + 1 + i = j + (i + 1) := by omega
      rw [this]; exact hm

theorem anyNode_intro (pf : String) (pp : Path) (p : T) (m : AstMap) :
    ∀ (q : Path) (s : T) (sp : Path) (sq : T), s.at? q = some sq → m ∈ deep true pf pp p (sp ++ q) sq →
      m ∈ anyNode pf pp p sp s := by
  intro q
  induction q with
  | nil =>
    intro s sp sq h hm
    simp only [T.at?, Option.some.injEq] at h
    subst h
    cases s with
    | mk k f fl kids =>
      rw [anyNode, List.mem_append]
      exact Or.inl (by simpa using hm)
  | cons i rest ih =>
    intro s sp sq h hm
    cases s with
    | mk k f fl kids =>
      simp only [T.at?] at h
      cases hk : kids[i]? with
      | none => simp [hk] at h
      | some c =>
        simp only [hk] at h
        rw [anyNode, List.mem_append]
        refine Or.inr (anyKids_intro pf pp p sp m kids 0 i c hk ?_)
        simp only [Nat.zero_add]
        exact ih c (sp ++ [i]) sq h (by simpa using hm)

/-- A match of the trimmed pattern at the node `t` standing at `q` below the trimmed program root is one of
the results of `find_matches`. -/
theorem findMatches_intro (p s : T) (q : Path) (t : T) (m : AstMap)
    (hat : (trimRoot s).1.at? q = some t)
    (hm : m ∈ deep true (rootField p) (trimGo p []).2 (trimGo p []).1 ((trimRoot s).2 ++ q) t) :
    (m, dictGet (trimGo p []).2 m.mappings) ∈ findMatches p s := by
  simp only [findMatches, List.mem_map]
  exact ⟨m, anyNode_intro _ _ _ _ q _ _ t hat hm, rfl⟩

/-! ### shape assumptions are inherited by sub-trees -/

theorem binOp3_at : ∀ (q : Path) (t t' : T), binOp3 t = true → t.at? q = some t' → binOp3 t' = true := by
  intro q
  induction q with
  | nil => intro t t' h ha; simp only [T.at?, Option.some.injEq] at ha; subst ha; exact h
  | cons i rest ih =>
    intro t t' h ha
    cases t with
    | mk k f fl kids =>
      simp only [T.at?] at ha
      cases hk : kids[i]? with
      | none => simp [hk] at ha
      | some c =>
        simp only [hk] at ha
        exact ih c t' ((binOp3_kids h).1 c (List.mem_of_getElem? hk)) ha

theorem T.setField_setField (t : T) (f g : String) : (t.setField f).setField g = t.setField g := by
  cases t; rfl

theorem T.field_setField (t : T) (f : String) : (t.setField f).field = f := by cases t; rfl

theorem trimGo_nil_of_path_nil (s : T) (h : (trimGo s []).2 = []) : (trimGo s []).1 = s := by
  obtain ⟨q, h1, h2, _⟩ := trimGo_spec s []
  rw [h] at h1
  simp only [List.nil_append] at h1
  subst h1
  simpa [T.at?] using h2.symm

/-! ### C11, self-match -/

/-- **C11 (a fragment of the program used as the pattern).**  Let `t` be any node of the program (at `q`
below the trimmed root: a statement, an expression, the whole program) and `p` a pattern whose trimmed root
is a copy of `t` (the root may carry another field name, as it does when the fragment is parsed on its own).
Then `find_matches` returns a match rooted at that very node, without conflicts, and in it every identifier
that looks like a placeholder is bound to itself. -/
theorem c11_fragment_matches (p s : T) (q : Path) (t : T) (hb : binOp3 p = true) (ho : opLeaves p = true)
    (hat : (trimRoot s).1.at? q = some t)
    (hcopy : ∃ f, (trimGo p []).1 = t.setField f)
    (hfield : rootField p = "none" ∨ rootField p = t.field) :
    ∃ mr ∈ findMatches p s, mr.2 = some ((trimRoot s).2 ++ q) ∧ IdentBinds mr.1 ∧ mr.1.conflicts = [] := by
  obtain ⟨qp, _, hp2, hp3⟩ := trimGo_spec p []
  obtain ⟨f, hf⟩ := hcopy
  have hb' : binOp3 (trimGo p []).1 = true := binOp3_at qp p _ hb hp2
  have hmeta : metasMatch true (rootField p) (((trimGo p []).1).setField t.field) = true := by
    rcases hfield with h | h
    · rw [h]; exact metasMatch_none _ _
    · rw [h]
      have := metasMatch_same true (((trimGo p []).1).setField t.field)
      rwa [T.field_setField] at this
  obtain ⟨m, hm, hid⟩ := deep_self _ hb' true (rootField p) t.field (trimGo p []).2 ((trimRoot s).2 ++ q) hmeta
  have ht : ((trimGo p []).1).setField t.field = t := by
    rw [hf, T.setField_setField, T.setField_self]
  rw [ht] at hm
  have hg := deep_good _ (hp3 ho) _ _ _ _ _ _ hm
  refine ⟨_, findMatches_intro p s q t m hat hm, ?_, hid, hg.noconf⟩
  exact embAt_root hg.emb

/-- **C11 (the whole program as the pattern).** -/
theorem c11_program_matches_itself (s : T) (hb : binOp3 s = true) (ho : opLeaves s = true) :
    ∃ mr ∈ findMatches s s, mr.2 = some (trimRoot s).2 ∧ IdentBinds mr.1 ∧ mr.1.conflicts = [] := by
  have h := c11_fragment_matches s s [] (trimRoot s).1 hb ho rfl
    (by
      refine ⟨(trimGo s []).1.field, ?_⟩
      simp only [trimRoot]
      split
      · rw [T.setField_self]
      · rw [T.setField_setField, T.setField_self])
    (by
      simp only [rootField, trimRoot]
      split
      · rename_i h
        right
        rw [trimGo_nil_of_path_nil s (by simpa using h)]
      · left; rfl)
  simpa using h

/-! ### C11, generalised patterns -/

/-- **C11 (a pattern obtained from a fragment of the program by the generalisation steps).**  Let `t` be any
node of the program (at `q` below the trimmed root) and `p` a pattern whose trimmed root GENERALISES `t` in the
sense of `genAt` (PedalProofs/CaitGen.lean): sub-expressions replaced by `___` / `__e__`, identifiers
consistently replaced by `_v_` placeholders (`ρ` says which identifier each placeholder stands for, `ε` which
sub-tree each `__e__` replaced), children dropped, everything else kept.  Then `find_matches` returns a match
rooted at that very node in which every placeholder binding is the expected one: each symbol-table entry of
key `k` names the identifier `ρ k`, each `exp_table` entry of key `k` is the path `ε k`; and (C10) the match
is an embedding — in particular every `__e__` key IS bound and every `_v_` placeholder's partner identifier
is bound under its key. -/
theorem c11_generalised_fragment_matches (ρ : String → String) (ε : String → Option Path)
    (p s : T) (q : Path) (t : T) (ho : opLeaves p = true)
    (hat : (trimRoot s).1.at? q = some t)
    (hgen : genAt ρ ε (trimGo p []).2 (trimGo p []).1 ((trimRoot s).2 ++ q) t)
    (hfield : rootField p = "none" ∨ rootField p = t.field) :
    ∃ mr ∈ findMatches p s, mr.2 = some ((trimRoot s).2 ++ q) ∧
      (∀ b ∈ mr.1.binds, b.id = ρ b.key) ∧ (∀ kv ∈ mr.1.exps, ε kv.1 = some kv.2) ∧
      IsEmbedding p s mr.1 mr.2 := by
  obtain ⟨qp, _, _, hp3⟩ := trimGo_spec p []
  have hmeta : metasMatch true (rootField p) t = true := by
    rcases hfield with h | h
    · rw [h]; exact metasMatch_none _ _
    · rw [h]; exact metasMatch_same true t
  have hfunc : rootField p = "func" → t.field = "func" := by
    intro hf
    rcases hfield with h | h
    · rw [h] at hf; exact absurd hf (by decide)
    · rw [← h]; exact hf
  obtain ⟨m, hm, hexp⟩ := gen_deep (ρ := ρ) (ε := ε) _ true (rootField p) _ _ t hgen hmeta hfunc
  have hg := deep_good _ (hp3 ho) _ _ _ _ _ _ hm
  have hmem := findMatches_intro p s q t m hat hm
  refine ⟨_, hmem, embAt_root hg.emb, hexp.binds, hexp.exps, ?_⟩
  exact c10_match_is_embedding p s ho _ hmem

/-- the generalisation relation is not empty: with no step applied this is `c11_fragment_matches` again (for
fragments without `__e__`-shaped identifiers), now through `gen_deep` -/
example (ε : String → Option Path) (s t : T) (q : Path) (hs : opLeaves t = true) (hb : binOp3 t = true)
    (hn : noExp t = true) (hat : (trimRoot s).1.at? q = some t) (hr : (trimGo t []).2 = []) :
    ∃ mr ∈ findMatches t s, mr.2 = some ((trimRoot s).2 ++ q) := by
  have e1 : (trimGo t []).1 = t := trimGo_nil_of_path_nil t hr
  have hgen : genAt (fun x => x) ε (trimGo t []).2 (trimGo t []).1 ((trimRoot s).2 ++ q) t := by
    rw [e1]; exact genAt_refl t hn hb _ _
  obtain ⟨mr, h1, h2, _⟩ := c11_generalised_fragment_matches (fun x => x) ε t s q t hs hat hgen
    (by right; simp [rootField, hr])
  exact ⟨mr, h1, h2⟩

/-- **C11 for a checked case**: whenever the driver answers `1` to a `gen` request, the model of
`find_matches` returns a match rooted at the aligned node with exactly the expected bindings. -/
theorem c11_checked_case (p s : T) (rho : List (String × String)) (eps : List (String × Path))
    (al : List (Path × Path)) (h : genCase p s rho eps al = true) :
    ∃ mr ∈ findMatches p s, mr.2 = dictGet (trimGo p []).2 al ∧
      (∀ b ∈ mr.1.binds, b.id = rhoF rho b.key) ∧ (∀ kv ∈ mr.1.exps, dictGet kv.1 eps = some kv.2) ∧
      IsEmbedding p s mr.1 mr.2 := by
  simp only [genCase, Bool.and_eq_true] at h
  obtain ⟨ho, h⟩ := h
  cases hP : dictGet (trimGo p []).2 al with
  | none => simp [hP] at h
  | some P =>
    simp only [hP, Bool.and_eq_true] at h
    obtain ⟨hpre, h⟩ := h
    have hPeq : (trimRoot s).2 ++ P.drop (trimRoot s).2.length = P :=
      List.prefix_iff_eq_append.1 (List.isPrefixOf_iff_prefix.1 hpre)
    cases ht : (trimRoot s).1.at? (P.drop (trimRoot s).2.length) with
    | none => simp [ht] at h
    | some t =>
      simp only [ht, Bool.and_eq_true, Bool.or_eq_true, decide_eq_true_eq] at h
      have hgen := genChk_sound _ _ _ _ h.1
      rw [← hPeq] at hgen
      obtain ⟨mr, h1, h2, h3, h4, h5⟩ := c11_generalised_fragment_matches (rhoF rho) (epsF eps) p s _ t ho ht hgen h.2
      exact ⟨mr, h1, by rw [h2, hPeq], h3, h4, h5⟩


/-! ### C11's last sentence without the restriction to patterns taken from the program: open finding

"Generalising a matching pattern this way never loses the match", read for ANY matching pattern, is false of
the code as it stands: from a `+` / `*` node downwards the matcher compares no AST field
(`deep_find_match_BinOp` passes `check_meta=False`), while the wildcard that replaces such a sub-expression
is compared with the field check on.  The full statement is kept here with no theorem attached; the witness
below is evaluated on the model the driver runs (`#guard`, a test — strings do not reduce in the kernel), and
the harness reproduces it on the real code in every run (KNOWN_FINDINGS: open). -/

/-- replace the subtree at `path` -/
def replaceAt : Path → T → T → T
  | [], _, new => new
  | i :: rest, .mk k f fl kids, new => .mk k f fl (kids.modify i (fun c => replaceAt rest c new))

/-- replacing any sub-tree of a matching pattern by a `___` wildcard (standing in the same field) keeps a match -/
def C11_GeneraliseAnyMatching_Full : Prop :=
  ∀ (p s : T) (path : Path) (old w : T), opLeaves p = true → binOp3 p = true → p.at? path = some old →
    w.kind = "Name" → nameClass (w.strAttr "id") = .wild → w.field = old.field →
    findMatches p s ≠ [] → findMatches (replaceAt path p w) s ≠ []

def witnessP : T :=
  .mk "Module" "none" [⟨"body", .many [.node]⟩, ⟨"type_ignores", .many []⟩] [
    .mk "Expr" "body" [⟨"value", .one (.node)⟩] [
      .mk "Subscript" "value" [⟨"value", .one (.node)⟩, ⟨"slice", .one (.node)⟩, ⟨"ctx", .one (.node)⟩] [
        .mk "Name" "value" [⟨"id", .one (.prim ⟨"str", "x"⟩)⟩, ⟨"ctx", .one (.node)⟩] [
          .mk "Load" "ctx" [] []],
        .mk "Slice" "slice" [⟨"lower", .one (.node)⟩, ⟨"upper", .none⟩, ⟨"step", .none⟩] [
          .mk "BinOp" "lower" [⟨"left", .one (.node)⟩, ⟨"op", .one (.node)⟩, ⟨"right", .one (.node)⟩] [
            .mk "Name" "left" [⟨"id", .one (.prim ⟨"str", "a"⟩)⟩, ⟨"ctx", .one (.node)⟩] [
              .mk "Load" "ctx" [] []],
            .mk "Add" "op" [] [],
            .mk "Name" "right" [⟨"id", .one (.prim ⟨"str", "b"⟩)⟩, ⟨"ctx", .one (.node)⟩] [
              .mk "Load" "ctx" [] []]]],
        .mk "Load" "ctx" [] []]]]

def witnessP' : T :=
  .mk "Module" "none" [⟨"body", .many [.node]⟩, ⟨"type_ignores", .many []⟩] [
    .mk "Expr" "body" [⟨"value", .one (.node)⟩] [
      .mk "Subscript" "value" [⟨"value", .one (.node)⟩, ⟨"slice", .one (.node)⟩, ⟨"ctx", .one (.node)⟩] [
        .mk "Name" "value" [⟨"id", .one (.prim ⟨"str", "x"⟩)⟩, ⟨"ctx", .one (.node)⟩] [
          .mk "Load" "ctx" [] []],
        .mk "Slice" "slice" [⟨"lower", .one (.node)⟩, ⟨"upper", .none⟩, ⟨"step", .none⟩] [
          .mk "Name" "lower" [⟨"id", .one (.prim ⟨"str", "___"⟩)⟩, ⟨"ctx", .one (.node)⟩] [
            .mk "Load" "ctx" [] []]],
        .mk "Load" "ctx" [] []]]]

def witnessS : T :=
  .mk "Module" "none" [⟨"body", .many [.node]⟩, ⟨"type_ignores", .many []⟩] [
    .mk "Expr" "body" [⟨"value", .one (.node)⟩] [
      .mk "Subscript" "value" [⟨"value", .one (.node)⟩, ⟨"slice", .one (.node)⟩, ⟨"ctx", .one (.node)⟩] [
        .mk "Name" "value" [⟨"id", .one (.prim ⟨"str", "x"⟩)⟩, ⟨"ctx", .one (.node)⟩] [
          .mk "Load" "ctx" [] []],
        .mk "Slice" "slice" [⟨"lower", .none⟩, ⟨"upper", .one (.node)⟩, ⟨"step", .none⟩] [
          .mk "BinOp" "upper" [⟨"left", .one (.node)⟩, ⟨"op", .one (.node)⟩, ⟨"right", .one (.node)⟩] [
            .mk "Name" "left" [⟨"id", .one (.prim ⟨"str", "a"⟩)⟩, ⟨"ctx", .one (.node)⟩] [
              .mk "Load" "ctx" [] []],
            .mk "Add" "op" [] [],
            .mk "Name" "right" [⟨"id", .one (.prim ⟨"str", "b"⟩)⟩, ⟨"ctx", .one (.node)⟩] [
              .mk "Load" "ctx" [] []]]],
        .mk "Load" "ctx" [] []]]]

def witnessWild : T :=
  .mk "Name" "lower" [⟨"id", .one (.prim ⟨"str", "___"⟩)⟩, ⟨"ctx", .one (.node)⟩] [.mk "Load" "ctx" [] []]

-- `x[a+b:]` matches `x[:a+b]`; `x[___:]` (= the first pattern with `a+b` replaced) does not
#guard (findMatches witnessP witnessS).length == 1
#guard (findMatches witnessP' witnessS).isEmpty
#guard toString (repr (replaceAt [0, 0, 1, 0] witnessP witnessWild)) == toString (repr witnessP')
#guard opLeaves witnessP && binOp3 witnessP && nameClass (witnessWild.strAttr "id") == .wild
#guard (witnessP.at? [0, 0, 1, 0]).map (·.field) == some witnessWild.field
-- the same three trees when the pattern IS taken from the program: nothing is lost (c11_generalised_fragment_matches)
#guard (findMatches witnessS witnessS).length == 1

end Pedal.Cait

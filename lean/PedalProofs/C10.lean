import PedalProofs.CaitDeep
/-
C10 — every CAIT match is a genuine embedding of the pattern in the student's code.

`findMatches` is the model of `pedal.cait.cait_api.find_matches` that the driver executes and the
correspondence compares with the real code; `checkMatch` is the decidable reading of C10's first sentence
(PedalModel/CaitSpec.lean) — the very function the harness evaluates, through the driver, on every match the
REAL code returns.
-/
namespace Pedal.Cait

/-- A returned match (map + match_root) is an embedding of pattern `p` in program `s`. -/
def IsEmbedding (p s : T) (m : AstMap) (root : Option Path) : Prop := checkMatch p s m root = true

/-! ### any_node_match only ever calls deep_find_match at nodes of the program -/

theorem at?_append {t : T} {q1 q2 : Path} {t1 : T} (h : t.at? q1 = some t1) : t.at? (q1 ++ q2) = t1.at? q2 := by
  induction q1 generalizing t with
  | nil => simp only [T.at?] at h; cases h; rfl
  | cons i rest ih =>
    cases t with
    | mk k f fl kids =>
      simp only [List.cons_append, T.at?] at h ⊢
      cases hk : kids[i]? with
      | none => simp [hk] at h
      | some c => simp only [hk] at h ⊢; exact ih h

theorem anyKids_mem (pf : String) (pp : Path) (p : T) (sp : Path) (kids : List T)
    (hIH : ∀ c ∈ kids, ∀ sp m, m ∈ anyNode pf pp p sp c →
      ∃ q sq, c.at? q = some sq ∧ m ∈ deep true pf pp p (sp ++ q) sq) :
    ∀ j m, m ∈ anyKids pf pp p sp j kids →
      ∃ idx c q sq, kids[idx]? = some c ∧ c.at? q = some sq ∧ m ∈ deep true pf pp p (sp ++ [j + idx] ++ q) sq := by
  induction kids with
  | nil => intro j m hm; rw [anyKids] at hm; cases hm
  | cons c cs ih =>
    intro j m hm
    rw [anyKids, List.mem_append] at hm
    rcases hm with hm | hm
    · obtain ⟨q, sq, h1, h2⟩ := hIH c List.mem_cons_self _ _ hm
      exact ⟨0, c, q, sq, rfl, h1, by simpa using h2⟩
    · obtain ⟨idx, c', q, sq, h1, h2, h3⟩ := ih (fun c hc => hIH c (List.mem_cons_of_mem _ hc)) (j + 1) m hm
      refine ⟨idx + 1, c', q, sq, by simpa using h1, h2, ?_⟩
      have : j + 1 + idx = j + (idx + 1) := by omega
      rw [← this]; exact h3

theorem anyNode_mem (pf : String) (pp : Path) (p : T) : ∀ (s : T) (sp : Path) (m : AstMap),
    m ∈ anyNode pf pp p sp s → ∃ q sq, s.at? q = some sq ∧ m ∈ deep true pf pp p (sp ++ q) sq := by
  intro s
  induction s using T.induct' with
  | h k f fl kids ih =>
    intro sp m hm
    rw [anyNode.eq_def] at hm
    simp only [List.mem_append] at hm
    rcases hm with hm | hm
    · exact ⟨[], _, rfl, by simpa using hm⟩
    · obtain ⟨idx, c, q, sq, h1, h2, h3⟩ := anyKids_mem pf pp p sp kids ih 0 m hm
      refine ⟨idx :: q, sq, ?_, ?_⟩
      · simp only [T.at?, h1]; exact h2
      · simpa using h3

/-! ### root trimming -/

theorem stripWrappers_eq_trimGo : ∀ (t : T) (path : Path), stripWrappers t path = trimGo t path := by
  intro t
  induction t using T.induct' with
  | h k f fl kids ih =>
    intro path
    match kids, ih with
    | [], _ => rw [stripWrappers, trimGo] <;> intros <;> simp_all
    | [c], ih =>
      rw [stripWrappers, trimGo]
      by_cases h1 : k = "Module"
      · simp [h1, ih c (by simp)]
      · by_cases h2 : k = "Expr"
        · simp [h2, ih c (by simp)]
        · simp [h1, h2]
    | _ :: _ :: _, _ => rw [stripWrappers, trimGo] <;> intros <;> simp_all

theorem trimGo_spec : ∀ (t : T) (path : Path), ∃ q, (trimGo t path).2 = path ++ q ∧
    t.at? q = some (trimGo t path).1 ∧ (opLeaves t = true → opLeaves (trimGo t path).1 = true) := by
  intro t
  induction t using T.induct' with
  | h k f fl kids ih =>
    intro path
    match kids, ih with
    | [], _ => exact ⟨[], by rw [trimGo] <;> intros <;> simp_all, by rw [trimGo] <;> intros <;> simp_all [T.at?],
        by rw [trimGo] <;> intros <;> simp_all⟩
    | [c], ih =>
      by_cases hk : (k = "Expr" || k = "Module") = true
      · obtain ⟨q, h1, h2, h3⟩ := ih c (by simp) (path ++ [0])
        refine ⟨0 :: q, ?_, ?_, ?_⟩
        · rw [trimGo]; simp only [hk, if_true]; rw [h1]; simp
        · rw [trimGo]; simp only [hk, if_true, T.at?]; simpa using h2
        · intro ho; rw [trimGo]; simp only [hk, if_true]
          exact h3 (opLeaves_kids ho c (by simp))
      · refine ⟨[], ?_, ?_, ?_⟩
        · rw [trimGo]; simp [hk]
        · rw [trimGo]; simp [hk, T.at?]
        · intro ho; rw [trimGo]; simp only [hk]; exact ho
    | a :: b :: rest, _ =>
      exact ⟨[], by rw [trimGo] <;> intros <;> simp_all, by rw [trimGo] <;> intros <;> simp_all [T.at?],
        by rw [trimGo] <;> intros <;> simp_all⟩

/-! ### the checker does not look at the `field` of the two roots -/

theorem embAt_setField_p (m : AstMap) (pp sp : Path) (p s : T) (f : String) :
    embAt m pp (p.setField f) sp s = embAt m pp p sp s := by
  cases p with
  | mk k f0 fl ks => simp only [T.setField]; rw [embAt, embAt]; rfl

theorem expSomewhere_setField (m : AstMap) (k : String) (v pp : Path) (p : T) (f : String) :
    expSomewhere m k v pp (p.setField f) = expSomewhere m k v pp p := by
  cases p with
  | mk k f0 fl ks => simp only [T.setField]; rw [expSomewhere, expSomewhere]; rfl

theorem embKids_setField_s (m : AstMap) (pp sp : Path) (s : T) (f : String) (kids : List T) :
    ∀ i o mj used, embKids m pp i kids sp (s.setField f) o mj used = embKids m pp i kids sp s o mj used := by
  have hk : (s.setField f).kids = s.kids := by cases s; rfl
  induction kids with
  | nil => intro i o mj used; rw [embKids, embKids]
  | cons pc rest ih =>
    intro i o mj used
    rw [embKids, embKids]
    simp only [hk, ih]

theorem embAt_setField_s (m : AstMap) (pp sp : Path) (p s : T) (f : String) :
    embAt m pp p sp (s.setField f) = embAt m pp p sp s := by
  have hn : nodeOk m p (s.setField f) = nodeOk m p s := by cases s; rfl
  cases p with
  | mk k f0 fl ks =>
    rw [embAt, embAt]
    simp only [hn, embKids_setField_s]

theorem at?_setField_cons (t : T) (f : String) (i : Nat) (q : Path) :
    (t.setField f).at? (i :: q) = t.at? (i :: q) := by
  cases t; rfl

/-! ### C10 -/

/-- **C10, first sentence.**  Every match the model of `find_matches` returns — for every pattern whose
`Add`/`Mult` operator nodes are leaves (true of every `ast` tree) and every program — is an embedding in the
sense of `checkMatch`: partners of the same kind and equal plain content, children paired with children of
the partner in left-to-right order (operands of `+`/`*` possibly swapped), every `_v_` key bound to one
identifier, every `__e__` key bound to the partner of a placeholder of that name, `match_root` = the partner
of the (stripped) pattern root, which is a node of the program. -/
theorem c10_match_is_embedding (p s : T) (hp : opLeaves p = true) :
    ∀ mr ∈ findMatches p s, IsEmbedding p s mr.1 mr.2 := by
  intro mr hmr
  simp only [findMatches, List.mem_map] at hmr
  obtain ⟨m, hm, rfl⟩ := hmr
  -- the trimmed pattern
  obtain ⟨qp, _, _, hp3⟩ := trimGo_spec p []
  -- the trimmed program
  obtain ⟨qs, hs1, hs2, _⟩ := trimGo_spec s []
  simp only [List.nil_append] at hs1
  have hsp : (trimRoot s).2 = (trimGo s []).2 := by simp only [trimRoot]; split <;> rfl
  have hst : (trimRoot s).1 = (trimGo s []).1 ∨ (trimRoot s).1 = (trimGo s []).1.setField "none" := by
    simp only [trimRoot]; split
    · exact Or.inl rfl
    · exact Or.inr rfl
  -- where the match was found
  obtain ⟨q, sq, hq1, hq2⟩ := anyNode_mem _ _ _ _ _ _ hm
  have hg := deep_good _ (hp3 hp) _ _ _ _ _ _ hq2
  have hroot := embAt_root hg.emb
  -- the partner as a node of the whole program
  have hat : ∃ sq', s.at? ((trimRoot s).2 ++ q) = some sq' ∧
      embAt m (trimGo p []).2 (trimGo p []).1 ((trimRoot s).2 ++ q) sq' = true := by
    rw [hsp, hs1, at?_append hs2]
    rcases hst with e | e
    · rw [e] at hq1; exact ⟨sq, hq1, by rw [← hs1, ← hsp]; exact hg.emb⟩
    · rw [e] at hq1
      cases q with
      | nil =>
        simp only [T.at?, Option.some.injEq] at hq1
        refine ⟨(trimGo s []).1, rfl, ?_⟩
        have := hg.emb
        rw [← hq1, embAt_setField_s] at this
        rw [← hs1, ← hsp]; exact this
      | cons i rest =>
        rw [at?_setField_cons] at hq1
        exact ⟨sq, hq1, by rw [← hs1, ← hsp]; exact hg.emb⟩
  obtain ⟨sq', hat1, hat2⟩ := hat
  simp only [IsEmbedding, checkMatch, hroot, hat1, stripWrappers_eq_trimGo, Bool.and_eq_true]
  refine ⟨⟨⟨hat2, ?_⟩, singleIdent_of_confInv hg.inv (hasConflicts_of_noconf hg.noconf)⟩, by simp [hg.noconf]⟩
  simp only [expsOk, List.all_eq_true]
  intro kv hkv
  exact hg.exps kv hkv

/-! ### C10, second sentence: content that occurs nowhere yields no match -/

theorem couldMatch_of_nodeOk {m : AstMap} {q t : T} (h : nodeOk m q t = true) : couldMatch q t = true := by
  simp only [nodeOk, couldMatch, Bool.and_eq_true] at h ⊢
  refine ⟨h.1, ?_⟩
  have h2 := h.2
  cases hi : identField q.kind with
  | none => simp only [hi] at h2 ⊢; exact h2
  | some f =>
    simp only [hi, Bool.or_eq_true, Bool.and_eq_true] at h2 ⊢
    rcases h2 with ((h2 | h2) | h2) | h2
    · exact Or.inl (Or.inl (Or.inl h2.1))
    · exact Or.inl (Or.inl (Or.inr h2))
    · exact Or.inl (Or.inr h2)
    · exact Or.inr h2

theorem self_mem_nodes (t : T) : t ∈ t.nodes := by
  cases t; rw [T.nodes]; exact List.mem_cons_self

theorem mem_nodesL {ts : List T} {c t : T} (hc : c ∈ ts) (ht : t ∈ c.nodes) : t ∈ nodesL ts := by
  induction ts with
  | nil => cases hc
  | cons a rest ih =>
    rw [nodesL, List.mem_append]
    cases hc with
    | head => exact Or.inl ht
    | tail _ h => exact Or.inr (ih h)

theorem nodes_of_kid {s c t : T} (hc : c ∈ s.kids) (ht : t ∈ c.nodes) : t ∈ s.nodes := by
  cases s with
  | mk k f fl kids =>
    rw [T.nodes]
    exact List.mem_cons_of_mem _ (mem_nodesL hc ht)

theorem nodes_of_at? : ∀ (q : Path) (s sq t : T), s.at? q = some sq → t ∈ sq.nodes → t ∈ s.nodes := by
  intro q
  induction q with
  | nil => intro s sq t h ht; simp only [T.at?, Option.some.injEq] at h; subst h; exact ht
  | cons i rest ih =>
    intro s sq t h ht
    cases s with
    | mk k f fl kids =>
      simp only [T.at?] at h
      cases hk : kids[i]? with
      | none => simp [hk] at h
      | some c =>
        simp only [hk] at h
        exact nodes_of_kid (s := T.mk k f fl kids) (List.mem_of_getElem? hk) (ih c sq t h ht)

theorem required_of_embKids (m : AstMap) (kids : List T)
    (hIH : ∀ c ∈ kids, ∀ pp sp s, embAt m pp c sp s = true → ∀ q ∈ required c, ∃ t ∈ s.nodes, couldMatch q t = true)
    (pp sp : Path) (s : T) (o : Bool) :
    ∀ i mj used, embKids m pp i kids sp s o mj used = true →
      ∀ q ∈ requiredL kids, ∃ t ∈ s.nodes, couldMatch q t = true := by
  induction kids with
  | nil => intro i mj used _ q hq; rw [requiredL] at hq; cases hq
  | cons pc rest ih =>
    intro i mj used hk q hq
    rw [embKids] at hk
    cases hd : dictGet (pp ++ [i]) m.mappings with
    | none => simp [hd] at hk
    | some x =>
      simp only [hd] at hk
      cases hj : x.getLast? with
      | none => simp [hj] at hk
      | some j =>
        simp only [hj, Bool.and_eq_true] at hk
        obtain ⟨⟨_, h3⟩, h4⟩ := hk
        rw [requiredL, List.mem_append] at hq
        rcases hq with hq | hq
        · cases hs : s.kids[j]? with
          | none => simp [hs] at h3
          | some sj =>
            simp only [hs] at h3
            obtain ⟨t, ht, hc⟩ := hIH pc List.mem_cons_self _ _ _ h3 q hq
            exact ⟨t, nodes_of_kid (List.mem_of_getElem? hs) ht, hc⟩
        · exact ih (fun c hc => hIH c (List.mem_cons_of_mem _ hc)) _ _ _ h4 q hq

/-- an embedding pairs every required concrete pattern node with a node that could match it -/
theorem required_of_embAt (m : AstMap) : ∀ (p : T) (pp sp : Path) (s : T), embAt m pp p sp s = true →
    ∀ q ∈ required p, ∃ t ∈ s.nodes, couldMatch q t = true := by
  intro p
  induction p using T.induct' with
  | h k f fl kids ih =>
    intro pp sp s he q hq
    rw [embAt] at he
    rw [required] at hq
    simp only [Bool.and_eq_true] at he
    have h2 := he.2
    cases hr : role (T.mk k f fl kids) with
    | wildcard => simp [hr] at hq
    | expPh key => simp [hr] at hq
    | wrapper =>
      simp only [hr] at hq h2
      exact required_of_embKids m kids ih pp sp s true 0 0 [] h2 q hq
    | concrete =>
      simp only [hr, Bool.and_eq_true, Bool.or_eq_true, decide_eq_true_eq] at hq h2
      rw [List.mem_cons] at hq
      rcases hq with hq | hq
      · subst hq
        exact ⟨s, self_mem_nodes s, couldMatch_of_nodeOk h2.1⟩
      · rcases h2.2 with h3 | h3
        · simp [h3] at hq
        · by_cases hn : k = "Name"
          · simp [hn] at hq
          · simp only [hn, if_false] at hq
            exact required_of_embKids m kids ih pp sp s _ 0 0 [] h3 q hq

/-- **C10, second sentence.**  If some concrete node the pattern requires (its kind with its plain content)
could be paired with NO node of the program, `find_matches` returns nothing. -/
theorem c10_absent_content_no_match (p s : T) (hp : opLeaves p = true)
    (habsent : ∃ q ∈ required (stripWrappers p []).1, ∀ t ∈ s.nodes, couldMatch q t = false) :
    findMatches p s = [] := by
  apply List.eq_nil_iff_forall_not_mem.2
  intro mr hmr
  have hemb := c10_match_is_embedding p s hp mr hmr
  obtain ⟨q, hq, hno⟩ := habsent
  simp only [IsEmbedding, checkMatch] at hemb
  cases hroot : mr.2 with
  | none => simp [hroot] at hemb
  | some r =>
    simp only [hroot] at hemb
    cases hat : s.at? r with
    | none => simp [hat] at hemb
    | some sr =>
      simp only [hat, Bool.and_eq_true] at hemb
      obtain ⟨t, ht, hc⟩ := required_of_embAt _ _ _ _ _ hemb.1.1.1 q hq
      have := hno t (nodes_of_at? r s sr t hat ht)
      rw [this] at hc; cases hc

end Pedal.Cait

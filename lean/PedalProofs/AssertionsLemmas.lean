import PedalModel.AssertionsSpec
import PedalModel.Gen.AssertionConds
/-
Helper lemmas for C07 (PedalProofs/C07.lean holds the property theorems).
-/
namespace Pedal.Assertions
open Pedal.Gen.Assertions

/-- What the guard makes of the evaluated condition when no operand is an error. -/
def evalOutcome (r : Res V) : Outcome :=
  match r with
  | .ok x => if truthy x.v then .fires else .silent
  | .error .unmodelled => .unmodelled
  | .error .raised => .fires

/-- The measured guard: error operands fire, raising conditions fire. -/
theorem outcome_guard (cond : CondExpr) (c : Ctx) :
    outcome wrapperGuard cond c = if anyErr c then .fires else evalOutcome (eval c cond) := by
  simp only [outcome, wrapperGuard, anyErr, evalOutcome, Bool.true_and]
  rfl

/-- `name`'s generated condition does exactly what the property demands of the relation `relOf name`. -/
def Correct (name : String) (cond : CondExpr) : Prop :=
  ∃ rel, relOf name = some rel ∧ ∀ c : Ctx, outcome wrapperGuard cond c = specOutcome c (rel c)

theorem correct_of (name : String) (cond : CondExpr) (rel : Ctx → Res Bool) (h : relOf name = some rel)
    (hc : ∀ c : Ctx, anyErr c = false → evalOutcome (eval c cond) = relOutcome (rel c)) : Correct name cond := by
  refine ⟨rel, h, fun c => ?_⟩
  rw [outcome_guard]
  cases he : anyErr c
  · simpa [specOutcome, he] using hc c he
  · simp [specOutcome, he]

theorem specOutcome_of_noErr (c : Ctx) (h : anyErr c = false) (r : Res Bool) :
    specOutcome c r = relOutcome r := by
  simp [specOutcome, h]

/-! ### small facts about the relations -/

theorem vIn_unwrapped (x y : V) : vIn x.unwrapped y = pyIn x.v y.v := by
  unfold vIn
  cases y.v <;> simp [V.unwrapped]

theorem vIn_fresh (a : PyVal) (y : V) : vIn (V.fresh a) y = pyIn a y.v := by
  unfold vIn
  cases y.v <;> simp [V.fresh]

theorem pyIs_cond (l r : V) :
    pyIs (if l.px then l.unwrapped else l) (if r.px then r.unwrapped else r) = sameObject l r := by
  unfold sameObject
  cases hl : l.px <;> cases hr : r.px <;> simp [pyIs, V.unwrapped, hl, hr]

/-- `X.value._actual_value if X.is_sandboxed else X.value` -/
theorem eval_actual_left (c : Ctx) :
    eval c (.ite (.isSandboxed .left) (.actualValue (.value .left)) (.value .left)) =
      .ok (if c.left.px then c.left.unwrapped else c.left) := by
  simp only [eval, Ctx.side]
  cases h : c.left.px <;> simp [V.ofBool, V.fresh, truthy]

theorem eval_actual_right (c : Ctx) :
    eval c (.ite (.isSandboxed .right) (.actualValue (.value .right)) (.value .right)) =
      .ok (if c.right.px then c.right.unwrapped else c.right) := by
  simp only [eval, Ctx.side]
  cases h : c.right.px <;> simp [V.ofBool, V.fresh, truthy]

theorem eval_len_left (c : Ctx) :
    eval c (.len (.value .left)) =
      match pyLen c.left.v with
      | .ok n => .ok (V.fresh (.int n))
      | .error e => .error e := by
  simp only [eval, Ctx.side]
  cases pyLen c.left.v <;> rfl

/-- `value = unwrap_value(cls.value)`, then `(int, float) if value == int or value == float else value` -/
def widenExpr : CondExpr :=
  .ite (.or_ (.cmp .eq (.unwrap (.value .right)) (.tyLit .int)) (.cmp .eq (.unwrap (.value .right)) (.tyLit .float)))
    (.tuple2 (.tyLit .int) (.tyLit .float)) (.unwrap (.value .right))

theorem eval_widen (c : Ctx) : ∃ w, eval c widenExpr = .ok w ∧ w.v = widenCls c.right.v := by
  simp only [widenExpr, eval, evalCmp, Ctx.side, V.unwrapped]
  cases hv : c.right.v with
  | typ t => cases t <;> simp [pyEq, V.ofBool, V.fresh, truthy, widenCls, hv]
  | _ => simp [pyEq, num?, V.ofBool, V.fresh, truthy, widenCls, hv]

theorem eval_or_errors2 (c : Ctx) (b : CondExpr) (h : anyErr c = false) :
    eval c (.or_ .errors2 b) = eval c b := by
  have he : (isErr c.left || isErr c.right) = false := h
  rw [eval, eval]
  simp [he, V.ofBool, V.fresh, truthy]

theorem eval_or_errors1 (c : Ctx) (b : CondExpr) (h : anyErr c = false) :
    eval c (.or_ (.errors1 .left) b) = eval c b := by
  have he : (isErr c.left || isErr c.right) = false := h
  have hl : isErr c.left = false := by
    cases h1 : isErr c.left
    · rfl
    · simp [h1] at he
  rw [eval, eval]
  simp [hl, Ctx.side, V.ofBool, V.fresh, truthy]

/-- a condition of the form `not <relation>`: the assertion is silent exactly when the relation is True -/
theorem evalOutcome_not (c : Ctx) (a : CondExpr) (r : Res Bool) (h : eval c a = r.map V.ofBool) :
    evalOutcome (eval c (.not_ a)) = relOutcome r := by
  rw [eval, h]
  cases r with
  | error e => cases e <;> rfl
  | ok b => cases b <;> rfl

/-- a condition that is the negated relation itself: silent exactly when the relation is False -/
theorem evalOutcome_pos (c : Ctx) (a : CondExpr) (r : Res Bool) (h : eval c a = r.map V.ofBool) :
    evalOutcome (eval c a) = relOutcome (notR r) := by
  rw [h]
  cases r with
  | error e => cases e <;> rfl
  | ok b => cases b <;> rfl

theorem eval_equalityTest_params (c : Ctx) :
    eval c (.equalityTest (.value .left) (.value .right) (.param "exact_strings") (.param "delta")) =
      (equalRel c).map V.ofBool := by
  simp only [eval, Ctx.side, equalRel]
  simp only [show ("exact_strings" == "exact_strings") = true from by decide,
    show ("delta" == "exact_strings") = false from by decide,
    show ("delta" == "delta") = true from by decide, if_true, Bool.false_eq_true, if_false, V.fresh]
  cases deltaOf c.delta <;> rfl

theorem notR_notR (r : Res Bool) : notR (notR r) = r := by
  cases r with
  | error e => rfl
  | ok b => cases b <;> rfl

theorem eval_str_right (c : Ctx) : eval c (.str_ (.value .right)) = .ok (V.fresh (.str (strOfV c c.right))) := by
  simp only [eval, Ctx.side, strOfV]
  cases c.right.v <;> rfl

/-- `re.search(unwrap_value(regex.value), str(text.value))` compared with `None` -/
theorem eval_regex (c : Ctx) (op : CmpOp) :
    eval c (.cmp op (.reSearch (.unwrap (.value .left)) (.str_ (.value .right))) .noneLit) =
      match regexRel c with
      | .ok m => evalCmp op (if m then V.fresh (.obj 1) else V.fresh .none) (V.fresh .none)
      | .error e => .error e := by
  rw [eval, eval, eval_str_right]
  simp only [eval, Ctx.side, regexRel, V.unwrapped, V.fresh]
  cases hl : c.left.v <;> simp
  case str ps =>
    cases hs : c.search ps (strOfV c c.right) with
    | error e => simp [Except.map]
    | ok m => cases m <;> simp [Except.map]

theorem pyIs_none_right (x : V) (h : x.px = false) : pyIs x (V.fresh .none) = isNoneVal x.v := by
  unfold pyIs
  cases hv : x.v <;> simp [V.fresh, h, isNoneVal]

theorem numCmp_ne_un (a b : Int × Nat) : numCmp a b ≠ .un := by
  unfold numCmp
  simp only
  split
  · simp
  · split <;> simp

theorem pyCmp_int_left (n : Int) (r : PyVal) (o : Ord4) (h : pyCmp (.int n) r = .ok o) : o ≠ .un := by
  cases r <;> simp [pyCmp, num?] at h <;> first
    | (subst h; exact numCmp_ne_un _ _)
    | skip

end Pedal.Assertions

import PedalModel.AssertionsFacts
import PedalModel.Gen.AssertionConds
/-
Helper lemmas for C07 (PedalProofs/C07.lean holds the property theorems).
-/
namespace Pedal.Assertions
open Pedal.Gen.Assertions

/-- What the guard makes of the evaluated condition when no operand is an error. -/
def evalOutcome (r : Res V) : Outcome :=
  match r with
  | .ok x => if truthy x.v then .fires else .silent
  | .error .unmodelled => .unmodelled
  | .error .raised => .fires

/-- The measured guard: error operands fire, raising conditions fire. -/
theorem outcome_guard (cond : CondExpr) (c : Ctx) :
    outcome wrapperGuard cond c = if anyErr c then .fires else evalOutcome (eval c cond) := by
  simp only [outcome, wrapperGuard, anyErr, evalOutcome, Bool.true_and]
  rfl

/-- `name`'s generated condition does exactly what the property demands of the relation `relOf name`. -/
def Correct (name : String) (cond : CondExpr) : Prop :=
  ∃ rel, relOf name = some rel ∧ ∀ c : Ctx, outcome wrapperGuard cond c = specOutcome c (rel c)

theorem correct_of (name : String) (cond : CondExpr) (rel : Ctx → Res Bool) (h : relOf name = some rel)
    (hc : ∀ c : Ctx, anyErr c = false → evalOutcome (eval c cond) = relOutcome (rel c)) : Correct name cond := by
  refine ⟨rel, h, fun c => ?_⟩
  rw [outcome_guard]
  cases he : anyErr c
  · simpa [specOutcome, he] using hc c he
  · simp [specOutcome, he]

theorem specOutcome_of_noErr (c : Ctx) (h : anyErr c = false) (r : Res Bool) :
    specOutcome c r = relOutcome r := by
  simp [specOutcome, h]

theorem noErr_sides (c : Ctx) (h : anyErr c = false) : isErr c.left = false ∧ isErr c.right = false := by
  have he : (isErr c.left || isErr c.right) = false := h
  cases h1 : isErr c.left <;> cases h2 : isErr c.right <;> simp [h1, h2] at he ⊢

/-- `Correct` from the case in which neither operand is an error (the guard covers the rest). -/
theorem correct_of_noErr (name : String) (cond : CondExpr) (rel : Ctx → Res Bool) (h : relOf name = some rel)
    (hc : ∀ c : Ctx, isErr c.left = false → isErr c.right = false →
      evalOutcome (eval c cond) = relOutcome (rel c)) : Correct name cond :=
  correct_of name cond rel h fun c he => hc c (noErr_sides c he).1 (noErr_sides c he).2

end Pedal.Assertions

import PedalModel.AssertionsSpec
import PedalModel.Gen.AssertionConds
/-
Helper lemmas for C07 (PedalProofs/C07.lean holds the property theorems).
-/
namespace Pedal.Assertions
open Pedal.Gen.Assertions

/-- What the guard makes of the evaluated condition when no operand is an error. -/
def evalOutcome (r : Res V) : Outcome :=
  match r with
  | .ok x => if truthy x.v then .fires else .silent
  | .error .unmodelled => .unmodelled
  | .error .raised => .fires

/-- The measured guard: error operands fire, raising conditions fire. -/
theorem outcome_guard (cond : CondExpr) (c : Ctx) :
    outcome wrapperGuard cond c = if anyErr c then .fires else evalOutcome (eval c cond) := by
  simp only [outcome, wrapperGuard, anyErr, evalOutcome, Bool.true_and]
  rfl

/-- `name`'s generated condition does exactly what the property demands of the relation `relOf name`. -/
def Correct (name : String) (cond : CondExpr) : Prop :=
  ∃ rel, relOf name = some rel ∧ ∀ c : Ctx, outcome wrapperGuard cond c = specOutcome c (rel c)

theorem correct_of (name : String) (cond : CondExpr) (rel : Ctx → Res Bool) (h : relOf name = some rel)
    (hc : ∀ c : Ctx, anyErr c = false → evalOutcome (eval c cond) = relOutcome (rel c)) : Correct name cond := by
  refine ⟨rel, h, fun c => ?_⟩
  rw [outcome_guard]
  cases he : anyErr c
  · simpa [specOutcome, he] using hc c he
  · simp [specOutcome, he]

theorem specOutcome_of_noErr (c : Ctx) (h : anyErr c = false) (r : Res Bool) :
    specOutcome c r = relOutcome r := by
  simp [specOutcome, h]

/-! ### small facts about the relations -/

theorem vIn_unwrapped (x y : V) : vIn x.unwrapped y = pyIn x.v y.v := by
  unfold vIn
  cases y.v <;> simp [V.unwrapped]

theorem vIn_fresh (a : PyVal) (y : V) : vIn (V.fresh a) y = pyIn a y.v := by
  unfold vIn
  cases y.v <;> simp [V.fresh]

theorem pyIs_cond (l r : V) :
    pyIs (if l.px then l.unwrapped else l) (if r.px then r.unwrapped else r) = sameObject l r := by
  unfold sameObject
  cases hl : l.px <;> cases hr : r.px <;> simp [pyIs, V.unwrapped, hl, hr]

/-- `X.value._actual_value if X.is_sandboxed else X.value` -/
theorem eval_actual_left (c : Ctx) :
    eval c (.ite (.isSandboxed .left) (.actualValue (.value .left)) (.value .left)) =
      .ok (if c.left.px then c.left.unwrapped else c.left) := by
  simp only [eval, Ctx.side]
  cases h : c.left.px <;> simp [V.ofBool, V.fresh, truthy]

theorem eval_actual_right (c : Ctx) :
    eval c (.ite (.isSandboxed .right) (.actualValue (.value .right)) (.value .right)) =
      .ok (if c.right.px then c.right.unwrapped else c.right) := by
  simp only [eval, Ctx.side]
  cases h : c.right.px <;> simp [V.ofBool, V.fresh, truthy]

theorem eval_len_left (c : Ctx) :
    eval c (.len (.value .left)) =
      match pyLen c.left.v with
      | .ok n => .ok (V.fresh (.int n))
      | .error e => .error e := by
  simp only [eval, Ctx.side]
  cases pyLen c.left.v <;> rfl

/-- `value = unwrap_value(cls.value)`, then `(int, float) if value == int or value == float else value` -/
def widenExpr : CondExpr :=
  .ite (.or_ (.cmp .eq (.unwrap (.value .right)) (.tyLit .int)) (.cmp .eq (.unwrap (.value .right)) (.tyLit .float)))
    (.tuple2 (.tyLit .int) (.tyLit .float)) (.unwrap (.value .right))

theorem eval_widen (c : Ctx) : ∃ w, eval c widenExpr = .ok w ∧ w.v = widenCls c.right.v := by
  simp only [widenExpr, eval, evalCmp, Ctx.side, V.unwrapped]
  cases hv : c.right.v with
  | typ t => cases t <;> simp [pyEq, V.ofBool, V.fresh, truthy, widenCls, hv]
  | _ => simp [pyEq, num?, V.ofBool, V.fresh, truthy, widenCls, hv]

theorem eval_or_errors2 (c : Ctx) (b : CondExpr) (h : anyErr c = false) :
    eval c (.or_ .errors2 b) = eval c b := by
  have he : (isErr c.left || isErr c.right) = false := h
  rw [eval, eval]
  simp [he, V.ofBool, V.fresh, truthy]

theorem eval_or_errors1 (c : Ctx) (b : CondExpr) (h : anyErr c = false) :
    eval c (.or_ (.errors1 .left) b) = eval c b := by
  have he : (isErr c.left || isErr c.right) = false := h
  have hl : isErr c.left = false := by
    cases h1 : isErr c.left
    · rfl
    · simp [h1] at he
  rw [eval, eval]
  simp [hl, Ctx.side, V.ofBool, V.fresh, truthy]

/-- a condition of the form `not <relation>`: the assertion is silent exactly when the relation is True -/
theorem evalOutcome_not (c : Ctx) (a : CondExpr) (r : Res Bool) (h : eval c a = r.map V.ofBool) :
    evalOutcome (eval c (.not_ a)) = relOutcome r := by
  rw [eval, h]
  cases r with
  | error e => cases e <;> rfl
  | ok b => cases b <;> rfl

/-- a condition that is the negated relation itself: silent exactly when the relation is False -/
theorem evalOutcome_pos (c : Ctx) (a : CondExpr) (r : Res Bool) (h : eval c a = r.map V.ofBool) :
    evalOutcome (eval c a) = relOutcome (notR r) := by
  rw [h]
  cases r with
  | error e => cases e <;> rfl
  | ok b => cases b <;> rfl

theorem eval_equalityTest_params (c : Ctx) :
    eval c (.equalityTest (.value .left) (.value .right) (.param "exact_strings") (.param "delta")) =
      (equalRel c).map V.ofBool := by
  simp only [eval, Ctx.side, equalRel]
  simp only [show ("exact_strings" == "exact_strings") = true from by decide,
    show ("delta" == "exact_strings") = false from by decide,
    show ("delta" == "delta") = true from by decide, if_true, Bool.false_eq_true, if_false, V.fresh]
  cases deltaOf c.delta <;> rfl

theorem notR_notR (r : Res Bool) : notR (notR r) = r := by
  cases r with
  | error e => rfl
  | ok b => cases b <;> rfl

theorem eval_str_right (c : Ctx) : eval c (.str_ (.value .right)) = .ok (V.fresh (.str (strOfV c c.right))) := by
  simp only [eval, Ctx.side, strOfV]
  cases c.right.v <;> rfl

theorem eval_reSearch_eq (c : Ctx) (p t : CondExpr) :
    eval c (.reSearch p t) =
      match eval c p, eval c t with
      | .ok x, .ok y =>
        if x.px then .error .raised
        else match x.v, y.v with
          | .str ps, .str ts =>
            if y.px then .error .raised
            else (c.search ps ts).map fun m => if m then V.fresh (.obj 1) else V.fresh .none
          | _, _ => .error .raised
      | .error e, _ => .error e
      | _, .error e => .error e := by
  rw [eval]; rfl

theorem eval_cmp_eq (c : Ctx) (op : CmpOp) (a b : CondExpr) :
    eval c (.cmp op a b) =
      match eval c a with
      | .error e => .error e
      | .ok x =>
        match eval c b with
        | .error e => .error e
        | .ok y => evalCmp op x y := by
  rw [eval]; rfl

/-- `re.search(unwrap_value(regex.value), str(text.value))` -/
theorem eval_regex_search (c : Ctx) :
    eval c (.reSearch (.unwrap (.value .left)) (.str_ (.value .right))) =
      match regexRel c with
      | .ok m => .ok (if m then V.fresh (.obj 1) else V.fresh .none)
      | .error e => .error e := by
  rw [eval_reSearch_eq, eval_str_right]
  simp only [eval, Ctx.side, regexRel, V.unwrapped, V.fresh]
  cases hl : c.left.v <;> simp
  case str ps =>
    cases hs : c.search ps (strOfV c c.right) with
    | error e => simp [Except.map]
    | ok m => cases m <;> simp [Except.map]

/-- `... is None` / `... is not None` on the result of the search -/
theorem eval_regex (c : Ctx) :
    eval c (.cmp .is_ (.reSearch (.unwrap (.value .left)) (.str_ (.value .right))) .noneLit) =
      (notR (regexRel c)).map V.ofBool ∧
    eval c (.cmp .isNot (.reSearch (.unwrap (.value .left)) (.str_ (.value .right))) .noneLit) =
      (regexRel c).map V.ofBool := by
  rw [eval_cmp_eq, eval_cmp_eq, eval_regex_search]
  cases h : regexRel c with
  | error e => exact ⟨rfl, rfl⟩
  | ok m => cases m <;> simp [eval, evalCmp, pyIs, V.fresh, V.ofBool, notR, Except.map]

/-! ### output assertions -/

theorem eval_param_exact (c : Ctx) : eval c (.param "exact_strings") = .ok (V.fresh c.exact) := by
  rw [eval]
  simp only [show ("exact_strings" == "exact_strings") = true from by decide, if_true]

theorem eval_noneLit (c : Ctx) : eval c .noneLit = .ok (V.fresh .none) := by
  rw [eval]

theorem eval_output_left (c : Ctx) :
    eval c (.output .left) = (c.output .left).map fun o => V.fresh (.str o) := by
  rw [eval]

theorem eval_equalityTest_eq (c : Ctx) (a b ex d : CondExpr) :
    eval c (.equalityTest a b ex d) =
      match eval c a, eval c b, eval c ex, eval c d with
      | .ok x, .ok y, .ok e, .ok dd =>
        match deltaOf dd.v with
        | .error er => .error er
        | .ok dv => (eqTest (truthy e.v) dv x.v y.v).map V.ofBool
      | .error e, _, _, _ => .error e
      | _, .error e, _, _ => .error e
      | _, _, .error e, _ => .error e
      | _, _, _, .error e => .error e := by
  rw [eval]; rfl

theorem eval_output_equality (c : Ctx) :
    eval c (.equalityTest (.output .left) (.str_ (.value .right)) (.param "exact_strings") .noneLit) =
      (outputRel c).map V.ofBool := by
  rw [eval_equalityTest_eq, eval_output_left, eval_str_right, eval_param_exact, eval_noneLit]
  unfold outputRel
  cases h : c.output .left with
  | error e => rfl
  | ok o => simp [Except.map, V.fresh, deltaOf]

theorem eval_ite_eq (c : Ctx) (t a b : CondExpr) :
    eval c (.ite t a b) =
      match eval c t with
      | .error e => .error e
      | .ok x => if truthy x.v then eval c a else eval c b := by
  rw [eval]; rfl

theorem eval_not_eq (c : Ctx) (a : CondExpr) :
    eval c (.not_ a) =
      match eval c a with
      | .ok x => .ok (V.ofBool (!truthy x.v))
      | .error e => .error e := by
  rw [eval]; rfl

theorem eval_lower_eq (c : Ctx) (a : CondExpr) :
    eval c (.lower a) =
      match eval c a with
      | .error e => .error e
      | .ok x =>
        match x.v with
        | .str s => if isAscii s then .ok (V.fresh (.str (s.map lowerC))) else .error .unmodelled
        | _ => .error .raised := by
  rw [eval]; rfl

theorem truthy_bool (b : Bool) : truthy (.bool b) = b := rfl

/-- `str(text.value) [.lower()] in self.get_output(execution) [.lower()]`, `in` and `not in` forms -/
theorem eval_output_contains (c : Ctx) :
    eval c (.ite (.not_ (.param "exact_strings"))
        (.cmp .in_ (.lower (.str_ (.value .right))) (.lower (.output .left)))
        (.cmp .in_ (.str_ (.value .right)) (.output .left))) = (outputContainsRel c).map V.ofBool ∧
    eval c (.ite (.not_ (.param "exact_strings"))
        (.cmp .notIn (.lower (.str_ (.value .right))) (.lower (.output .left)))
        (.cmp .notIn (.str_ (.value .right)) (.output .left))) = (notR (outputContainsRel c)).map V.ofBool := by
  rw [eval_ite_eq, eval_ite_eq, eval_not_eq, eval_param_exact]
  simp only [eval_cmp_eq, eval_lower_eq, eval_str_right, eval_output_left, outputContainsRel, V.fresh, V.ofBool,
    truthy_bool]
  cases hex : truthy c.exact
  · -- not exact: lower both
    simp only [Bool.not_false, if_true, Bool.false_eq_true, if_false]
    cases ha : isAscii (strOfV c c.right)
    · simp [notR, Except.map]
    · cases ho : c.output .left with
      | error e => simp [Except.map, notR]
      | ok o =>
        cases hao : isAscii o
        · simp [Except.map, notR, hao]
        · simp [Except.map, evalCmp, vIn, pyIn, notR, V.ofBool, V.fresh, hao]
  · simp only [Bool.not_true, Bool.false_eq_true, if_false, if_true]
    cases ho : c.output .left with
    | error e => simp [Except.map, notR]
    | ok o => simp [Except.map, evalCmp, vIn, pyIn, notR, V.ofBool, V.fresh]

/-- `re.search(str(text.value), self.get_output(execution))` compared with None -/
theorem eval_output_regex (c : Ctx) :
    eval c (.cmp .is_ (.reSearch (.str_ (.value .right)) (.output .left)) .noneLit) =
      (notR (outputRegexRel c)).map V.ofBool ∧
    eval c (.cmp .isNot (.reSearch (.str_ (.value .right)) (.output .left)) .noneLit) =
      (outputRegexRel c).map V.ofBool := by
  rw [eval_cmp_eq, eval_cmp_eq, eval_reSearch_eq, eval_str_right, eval_output_left, eval_noneLit]
  unfold outputRegexRel
  cases ho : c.output .left with
  | error e => exact ⟨rfl, rfl⟩
  | ok o =>
    simp only [Except.map, V.fresh]
    cases hs : c.search (strOfV c c.right) o with
    | error e => simp [notR, Except.map]
    | ok m => cases m <;> simp [evalCmp, pyIs, V.fresh, V.ofBool, notR, Except.map]

theorem pyIs_none_right (x : V) (h : x.px = false) : pyIs x (V.fresh .none) = isNoneVal x.v := by
  unfold pyIs
  cases hv : x.v <;> simp [V.fresh, h, isNoneVal]

theorem numCmp_ne_un (a b : Int × Nat) : numCmp a b ≠ .un := by
  unfold numCmp
  simp only
  split
  · simp
  · split <;> simp

theorem pyCmp_int_left (n : Int) (r : PyVal) (o : Ord4) (h : pyCmp (.int n) r = .ok o) : o ≠ .un := by
  cases r <;> simp [pyCmp, num?] at h <;> first
    | (subst h; exact numCmp_ne_un _ _)
    | skip

/-! ### numbers and strings under `equality_test` -/

theorem numClose_comm (a b d : Int × Nat) : numClose a b d = numClose b a d := by
  unfold numClose
  have h : (a.1 * (2:Int) ^ b.2 - b.1 * (2:Int) ^ a.2).natAbs = (b.1 * (2:Int) ^ a.2 - a.1 * (2:Int) ^ b.2).natAbs := by
    rw [← Int.natAbs_neg, Int.neg_sub]
  rw [h, Nat.add_comm a.2 b.2]

theorem numEq_comm (a b : Int × Nat) : numEq a b = numEq b a := by
  unfold numEq
  exact BEq.comm

theorem pyEq_num (a e : PyVal) (x y : Int × Nat) (ha : num? a = some x) (he : num? e = some y) :
    pyEq a e = numEq x y := by
  cases a <;> simp [num?] at ha <;> cases e <;> simp [num?] at he <;> subst ha <;> subst he <;> simp [pyEq, num?]

/-- `equality_test` on two numbers: the tolerance test as soon as either is a float, else `==`. -/
theorem eqTest_num (ex : Bool) (d : Int × Nat) (a e : PyVal) (x y : Int × Nat)
    (ha : num? a = some x) (he : num? e = some y) :
    eqTest ex (some d) a e = .ok (if isFloat a || isFloat e then numClose y x d else numEq x y) := by
  cases a <;> simp [num?] at ha <;> cases e <;> simp [num?] at he <;> subst ha <;> subst he <;>
    simp [eqTest, isFloat, isIntOrFloat, num?, pyEq]

/-- `equality_test` on two strings: exact, or equality of the normal forms. -/
theorem eqTest_str (ex : Bool) (d : Option (Int × Nat)) (sa se : List Nat) :
    eqTest ex d (.str sa) (.str se) =
      if ex then .ok (sa == se)
      else if isAscii sa && isAscii se then .ok (normStr se == normStr sa) else .error .unmodelled := by
  simp [eqTest, isFloat, isIntOrFloat, num?]

theorem lowerC_idem (c : Nat) : lowerC (lowerC c) = lowerC c := by
  unfold lowerC
  by_cases h : 65 ≤ c ∧ c ≤ 90
  · have h2 : ¬ (65 ≤ c + 32 ∧ c + 32 ≤ 90) := by omega
    rw [if_pos h, if_neg h2]
  · rw [if_neg h, if_neg h]

/-! ### symmetry of `==` and `equality_test` on scalars, lists and tuples (induction on size) -/

mutual
/-- values built from scalars (ASCII strings), lists and tuples only -/
def seqOnly : PyVal → Bool
  | .list xs => seqOnlyList xs
  | .tuple xs => seqOnlyList xs
  | .set _ => false
  | .dict _ _ => false
  | .str s => isAscii s
  | _ => true
def seqOnlyList : List PyVal → Bool
  | [] => true
  | x :: xs => seqOnly x && seqOnlyList xs
end

theorem seqOnlyList_mem (xs : List PyVal) (h : seqOnlyList xs = true) : ∀ x ∈ xs, seqOnly x = true := by
  induction xs with
  | nil => intro x hx; cases hx
  | cons y ys ih =>
    simp only [seqOnlyList, Bool.and_eq_true] at h
    intro x hx
    cases hx with
    | head => exact h.1
    | tail _ hm => exact ih h.2 x hm

theorem pyEqList_symm (xs ys : List PyVal) (h : ∀ x ∈ xs, ∀ y ∈ ys, pyEq x y = pyEq y x) :
    pyEqList xs ys = pyEqList ys xs := by
  induction xs generalizing ys with
  | nil => cases ys <;> simp [pyEqList]
  | cons x xs ih =>
    cases ys with
    | nil => simp [pyEqList]
    | cons y ys =>
      simp only [pyEqList]
      rw [h x (List.mem_cons_self) y (List.mem_cons_self)]
      rw [ih ys (fun a ha b hb => h a (List.mem_cons_of_mem _ ha) b (List.mem_cons_of_mem _ hb))]

theorem eqSeq_symm (ex : Bool) (d : Option (Int × Nat)) (xs ys : List PyVal)
    (h : ∀ x ∈ xs, ∀ y ∈ ys, eqTest ex d x y = eqTest ex d y x) :
    eqSeq ex d xs ys = eqSeq ex d ys xs := by
  induction xs generalizing ys with
  | nil => cases ys <;> simp [eqSeq]
  | cons x xs ih =>
    cases ys with
    | nil => simp [eqSeq]
    | cons y ys =>
      simp only [eqSeq]
      rw [h x (List.mem_cons_self) y (List.mem_cons_self)]
      rw [ih ys (fun a ha b hb => h a (List.mem_cons_of_mem _ ha) b (List.mem_cons_of_mem _ hb))]

theorem eqTest_list (ex : Bool) (d : Option (Int × Nat)) (xs ys : List PyVal) :
    eqTest ex d (.list xs) (.list ys) =
      if pyEq (.list xs) (.list ys) then .ok true
      else if xs.length != ys.length then .ok false else eqSeq ex d xs ys := by
  simp [eqTest, isFloat, isIntOrFloat, num?]

theorem eqTest_tuple (ex : Bool) (d : Option (Int × Nat)) (xs ys : List PyVal) :
    eqTest ex d (.tuple xs) (.tuple ys) =
      if pyEq (.tuple xs) (.tuple ys) then .ok true
      else if xs.length != ys.length then .ok false else eqSeq ex d xs ys := by
  simp [eqTest, isFloat, isIntOrFloat, num?]

theorem pyEq_symm_aux : ∀ (n : Nat) (a e : PyVal), sizeOf a + sizeOf e ≤ n →
    seqOnly a = true → seqOnly e = true → pyEq a e = pyEq e a := by
  intro n
  induction n with
  | zero =>
    intro a e h
    cases a <;> simp at h
  | succ n ih =>
    intro a e hsz ha he
    have seqCase : ∀ xs ys : List PyVal, sizeOf xs + sizeOf ys ≤ n → seqOnlyList xs = true →
        seqOnlyList ys = true → pyEqList xs ys = pyEqList ys xs := by
      intro xs ys hs hxs hys
      refine pyEqList_symm xs ys (fun x hx y hy => ?_)
      have h1 := List.sizeOf_lt_of_mem hx
      have h2 := List.sizeOf_lt_of_mem hy
      exact ih x y (by omega) (seqOnlyList_mem xs hxs x hx) (seqOnlyList_mem ys hys y hy)
    cases a <;> cases e <;> first
      | (simp [seqOnly] at ha; done)
      | (simp [seqOnly] at he; done)
      | (simp [pyEq, num?, numEq]; done)
      | (simp [pyEq, num?, numEq]; exact BEq.comm)
      | skip
    case list.list xs ys =>
      simp only [pyEq]
      simp only [seqOnly] at ha he
      simp only [PyVal.list.sizeOf_spec] at hsz
      exact seqCase xs ys (by omega) ha he
    case tuple.tuple xs ys =>
      simp only [pyEq]
      simp only [seqOnly] at ha he
      simp only [PyVal.tuple.sizeOf_spec] at hsz
      exact seqCase xs ys (by omega) ha he

theorem pyEq_symm (a e : PyVal) (ha : seqOnly a = true) (he : seqOnly e = true) : pyEq a e = pyEq e a :=
  pyEq_symm_aux _ a e (Nat.le_refl _) ha he

theorem eqTest_num_symm (ex : Bool) (d : Int × Nat) (a e : PyVal) (x y : Int × Nat)
    (ha : num? a = some x) (he : num? e = some y) : eqTest ex (some d) a e = eqTest ex (some d) e a := by
  rw [eqTest_num ex d a e x y ha he, eqTest_num ex d e a y x he ha]
  rw [numClose_comm y x d, numEq_comm y x, Bool.or_comm (isFloat e) (isFloat a)]

theorem eqTest_str_symm (ex : Bool) (d : Option (Int × Nat)) (sa se : List Nat) :
    eqTest ex d (.str sa) (.str se) = eqTest ex d (.str se) (.str sa) := by
  rw [eqTest_str, eqTest_str, Bool.and_comm (isAscii sa) (isAscii se)]
  have h1 : (sa == se) = (se == sa) := BEq.comm
  have h2 : (normStr se == normStr sa) = (normStr sa == normStr se) := BEq.comm
  rw [h1, h2]

theorem eqTest_symm_aux (ex : Bool) (d : Int × Nat) : ∀ (n : Nat) (a e : PyVal), sizeOf a + sizeOf e ≤ n →
    seqOnly a = true → seqOnly e = true → eqTest ex (some d) a e = eqTest ex (some d) e a := by
  intro n
  induction n with
  | zero =>
    intro a e h
    cases a <;> simp at h
  | succ n ih =>
    intro a e hsz ha he
    have hpe := pyEq_symm a e ha he
    have seqCase : ∀ xs ys : List PyVal, sizeOf xs + sizeOf ys ≤ n → seqOnlyList xs = true →
        seqOnlyList ys = true → eqSeq ex (some d) xs ys = eqSeq ex (some d) ys xs := by
      intro xs ys hs hxs hys
      refine eqSeq_symm ex (some d) xs ys (fun x hx y hy => ?_)
      have h1 := List.sizeOf_lt_of_mem hx
      have h2 := List.sizeOf_lt_of_mem hy
      exact ih x y (by omega) (seqOnlyList_mem xs hxs x hx) (seqOnlyList_mem ys hys y hy)
    cases a <;> cases e <;> first
      | (simp [seqOnly] at ha; done)
      | (simp [seqOnly] at he; done)
      | (rw [eqTest.eq_def, eqTest.eq_def]; simp [isFloat, isIntOrFloat, num?, pyEq, numEq]; done)
      | (rw [eqTest.eq_def, eqTest.eq_def]; simp [isFloat, isIntOrFloat, num?, pyEq, numEq]; exact BEq.comm)
      | rfl
      | exact eqTest_num_symm ex d _ _ _ _ rfl rfl
      | exact eqTest_str_symm ex (some d) _ _
      | skip
    case list.list xs ys =>
      rw [eqTest_list, eqTest_list, hpe]
      have hl : (xs.length != ys.length) = (ys.length != xs.length) := by
        simp only [bne, show (xs.length == ys.length) = (ys.length == xs.length) from BEq.comm]
      simp only [seqOnly] at ha he
      simp only [PyVal.list.sizeOf_spec] at hsz
      rw [hl, seqCase xs ys (by omega) ha he]
    case tuple.tuple xs ys =>
      rw [eqTest_tuple, eqTest_tuple, hpe]
      have hl : (xs.length != ys.length) = (ys.length != xs.length) := by
        simp only [bne, show (xs.length == ys.length) = (ys.length == xs.length) from BEq.comm]
      simp only [seqOnly] at ha he
      simp only [PyVal.tuple.sizeOf_spec] at hsz
      rw [hl, seqCase xs ys (by omega) ha he]

/-! ### `equality_test` never raises on scalars, lists and tuples -/

theorem eqSeq_ok (ex : Bool) (d : Option (Int × Nat)) (xs ys : List PyVal)
    (h : ∀ x ∈ xs, ∀ y ∈ ys, ∃ b, eqTest ex d x y = .ok b) : ∃ b, eqSeq ex d xs ys = .ok b := by
  induction xs generalizing ys with
  | nil => cases ys <;> exact ⟨true, by simp [eqSeq]⟩
  | cons x xs ih =>
    cases ys with
    | nil => exact ⟨true, by simp [eqSeq]⟩
    | cons y ys =>
      obtain ⟨b, hb⟩ := h x (List.mem_cons_self) y (List.mem_cons_self)
      simp only [eqSeq, hb]
      cases b
      · exact ⟨false, rfl⟩
      · exact ih ys (fun a ha b hb => h a (List.mem_cons_of_mem _ ha) b (List.mem_cons_of_mem _ hb))

theorem eqTest_ok_aux (ex : Bool) (d : Int × Nat) : ∀ (n : Nat) (a e : PyVal), sizeOf a + sizeOf e ≤ n →
    seqOnly a = true → seqOnly e = true → ∃ b, eqTest ex (some d) a e = .ok b := by
  intro n
  induction n with
  | zero =>
    intro a e h
    cases a <;> simp at h
  | succ n ih =>
    intro a e hsz ha he
    have seqCase : ∀ xs ys : List PyVal, sizeOf xs + sizeOf ys ≤ n → seqOnlyList xs = true →
        seqOnlyList ys = true → ∃ b, eqSeq ex (some d) xs ys = .ok b := by
      intro xs ys hs hxs hys
      refine eqSeq_ok ex (some d) xs ys (fun x hx y hy => ?_)
      have h1 := List.sizeOf_lt_of_mem hx
      have h2 := List.sizeOf_lt_of_mem hy
      exact ih x y (by omega) (seqOnlyList_mem xs hxs x hx) (seqOnlyList_mem ys hys y hy)
    cases a <;> cases e <;> first
      | (simp [seqOnly] at ha; done)
      | (simp [seqOnly] at he; done)
      | (rw [eqTest.eq_def]; simp [isFloat, isIntOrFloat, num?]; done)
      | skip
    case str.str sa se =>
      simp only [seqOnly] at ha he
      rw [eqTest_str]
      cases ex <;> simp [ha, he]
    case list.list xs ys =>
      rw [eqTest_list]
      simp only [seqOnly] at ha he
      simp only [PyVal.list.sizeOf_spec] at hsz
      split
      · exact ⟨true, rfl⟩
      · split
        · exact ⟨false, rfl⟩
        · exact seqCase xs ys (by omega) ha he
    case tuple.tuple xs ys =>
      rw [eqTest_tuple]
      simp only [seqOnly] at ha he
      simp only [PyVal.tuple.sizeOf_spec] at hsz
      split
      · exact ⟨true, rfl⟩
      · split
        · exact ⟨false, rfl⟩
        · exact seqCase xs ys (by omega) ha he

end Pedal.Assertions

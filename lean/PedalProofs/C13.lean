import PedalProofs.ProcStateLemmas
import PedalModel.Gen.ProcStateTables
/-
C13 — grading a submission is independent of what the process graded before it.

The statements are about `Pedal.ProcState.grade / runAll / World.clear / step`, the functions `driver_c13`
executes, interpreting `Pedal.Gen.ProcState.tables`, the tables harness/translate_procstate.py regenerates
from the ASTs of the tree under test on every run.

* `c13_tables_ok` is the obligation on the regenerated tables (by evaluation): it fails as soon as a field is
  added to `Report.__init__` but not put back by `Report.clear`, a method or another module starts mutating a
  field `clear` does not reset, `clear` gains a statement the translator does not understand, the override
  backups stop being per class, the pool table stops being emptied, the environment stops clearing first, …
* everything else is proved for ALL tables satisfying the obligation, all class hierarchies, all histories of
  gradings (any scripts: crashing at any point, overriding classes, suppressing, changing the formatter,
  mocking, splitting sections, resolving or not) by induction, and then instantiated.
-/
namespace Pedal.ProcState
open Pedal.FeedbackCore Pedal.Gen.ProcState

/-! ### the obligation on the tables of the tree under test -/

/-- **Table obligation.** -/
theorem c13_tables_ok : tableOk tables = true := by decide

/-- Every field `Report.__init__` creates is put back by `Report.clear` — with a statement that really
    restores its initial value — or is `class_hooks`. -/
theorem c13_every_init_field_is_reset : ∀ f, f ∈ tables.names → f ∈ exempt ∨ tables.resets f = true :=
  (tableFacts tables c13_tables_ok).initReset

/-- Every field that any `Report` method or any other module of the package mutates is put back by `clear`. -/
theorem c13_every_mutated_field_is_cleared : ∀ f, f ∈ allDirtied tables → tables.resets f = true := by
  intro f hf
  have F := tableFacts tables c13_tables_ok
  have hd : f ∈ tables.names ∧ f ∉ exempt := by
    unfold allDirtied at hf
    rcases List.mem_append.mp hf with h | h
    · obtain ⟨⟨m, fs⟩, hm, hfs⟩ := List.mem_flatMap.mp h
      have : tableOk tables = true := c13_tables_ok
      simp only [tableOk, Bool.and_eq_true] at this
      have h2 := this.1.1.1.1.1.1.1.1.1.1.1.1.2
      have := (List.all_eq_true.mp h2) f hf
      simpa using this
    · exact F.externalOk f (by simpa using h)
  rcases F.initReset f hd.1 with h | h
  · exact absurd h hd.2
  · exact h

/-! ### for all tables that satisfy the obligation -/

/-- States a history of gradings can reach from a fresh process. -/
def Reachable (T : Tables) (s0 : Store) (w : World) : Prop := ∃ h : List Grading, w = runAll T (init s0) h

theorem reachable_inv {T : Tables} {s0 : Store} (hT : tableOk T = true) (hp : s0.Pristine) {w : World}
    (hr : Reachable T s0 w) : Inv T s0 w := by
  obtain ⟨h, rfl⟩ := hr
  exact runAll_inv (tableFacts T hT) h _ (fresh_inv T s0 _ (fresh_init s0 hp))

/-- **`clear` resets everything a grading can observe**: after `Report.clear()` in any reachable state every
    field is as `__init__` made it, no tool has data, the pool table is empty, every class dictionary is what
    it was when the process started and no class is registered as overridden. -/
theorem clear_resets_observable (T : Tables) (hT : tableOk T = true) (s0 : Store) (hp : s0.Pristine)
    (w : World) (hr : Reachable T s0 w) : Fresh s0 (w.clear T) :=
  clear_fresh (tableFacts T hT) (reachable_inv hT hp hr)

/-- **History independence**, general form: the same grading gives the same observations and the same outcome
    (normal end or the exception it crashed with) from any two reachable states. -/
theorem history_independent (T : Tables) (hT : tableOk T = true) (s0 : Store) (hp : s0.Pristine)
    (w w' : World) (hr : Reachable T s0 w) (hr' : Reachable T s0 w') (g : Grading) :
    (grade T w g).result = (grade T w' g).result := by
  obtain ⟨ho, hh, _⟩ := grade_sim (tableFacts T hT) (reachable_inv hT hp hr) (reachable_inv hT hp hr') g
  simp only [StepR.result, ho, hh]

/-! ### for the tables of the tree under test -/

/-- **C13, `clear`.** -/
theorem c13_clear_resets_observable (s0 : Store) (hp : s0.Pristine) (h : List Grading) :
    Fresh s0 ((runAll tables (init s0) h).clear tables) :=
  clear_resets_observable tables c13_tables_ok s0 hp _ ⟨h, rfl⟩

/-- **C13.** For every finite sequence `h` of gradings executed in one process and every further grading `g`:
    `g` produces what it produces when it is the first thing a fresh process does. -/
theorem c13_history_independent (s0 : Store) (hp : s0.Pristine) (h : List Grading) (g : Grading) :
    (grade tables (runAll tables (init s0) h) g).result = (grade tables (init s0) g).result :=
  history_independent tables c13_tables_ok s0 hp _ _ ⟨h, rfl⟩ ⟨[], rfl⟩ g

/-- … at every position of the sequence: what precedes a grading does not matter. -/
theorem c13_position_independent (s0 : Store) (hp : s0.Pristine) (h1 h2 : List Grading) (g : Grading) :
    (grade tables (runAll tables (init s0) h1) g).result = (grade tables (runAll tables (init s0) h2) g).result :=
  history_independent tables c13_tables_ok s0 hp _ _ ⟨h1, rfl⟩ ⟨h2, rfl⟩ g

theorem runAll_append (T : Tables) (w : World) (h1 h2 : List Grading) :
    runAll T w (h1 ++ h2) = runAll T (runAll T w h1) h2 := by
  simp [runAll, List.foldl_append]

/-- **Grading the same pair twice gives identical results.** -/
theorem c13_idempotent (s0 : Store) (hp : s0.Pristine) (h : List Grading) (g : Grading) :
    let w := runAll tables (init s0) h
    (grade tables (grade tables w g).w g).result = (grade tables w g).result := by
  intro w
  have : (grade tables w g).w = runAll tables (init s0) (h ++ [g]) := by
    rw [runAll_append]; rfl
  rw [this]
  exact c13_position_independent s0 hp (h ++ [g]) h g

/-- The state a grading leaves behind is again one from which everything above holds (in particular after a
    script that crashed half-way through overriding classes). -/
theorem c13_invariant_kept (s0 : Store) (hp : s0.Pristine) (h : List Grading) :
    Inv tables s0 (runAll tables (init s0) h) :=
  reachable_inv c13_tables_ok hp ⟨h, rfl⟩

/-! ### non-vacuity: the model really carries state across gradings, and a table that forgets a reset is caught -/

def exStore : Store :=
  { mro := fun c => if c = "type_error" then ["type_error", "runtime_error", "Feedback"]
                    else if c = "runtime_error" then ["runtime_error", "Feedback"] else [c]
    own := fun c a => if c = "runtime_error" ∧ a = "title" then some (.str "Runtime Error")
                      else if c = "Feedback" ∧ a = "title" then some .none else none
    backups := fun _ => none
    overridden := [] }

example : exStore.Pristine := ⟨fun _ => rfl, rfl⟩

/-- a script that overrides a base class and a subclass, suppresses, changes the formatter, uses pools,
    mocks a function, analyses a program that touches a builtin module — and then crashes -/
def nasty : Grading :=
  { sub := "s1", env := [.useTool "source", .tifa "import math; math.x = 1", .mutateTool "sandbox" "run"],
    script := [.override "runtime_error" [("title", .str "X")], .override "type_error" [("title", .str "Y")],
               .call "suppress" "runtime", .call "set_formatter" "Html", .call "set_pools" "2",
               .overrideForPool "gently" "A" [("title", .str "POOL-A")], .mutateTool "sandbox" "mock f",
               .call "add_hook" "h", .call "start_group" "section 1", .crash "ZeroDivisionError"] }

/-- a plain grading that looks at everything -/
def probe : Grading :=
  { sub := "s2", env := [.useTool "source", .tifa "print(1)", .useTool "sandbox"],
    script := [.feedback "type_error" ["title"] true "fb", .resolve [("runtime_error", "title"), ("type_error", "title")]] }

/-- the state the nasty grading leaves behind is NOT the fresh one … -/
example : ((grade tables (init exStore) nasty).w.fields "suppressions" ≠ []) ∧
    ((grade tables (init exStore) nasty).w.store.lookup "type_error" "title" = some (.str "Y")) ∧
    ((grade tables (init exStore) nasty).w.pools ≠ []) ∧ ((grade tables (init exStore) nasty).w.modules ≠ []) ∧
    (grade tables (init exStore) nasty).halt = some "ZeroDivisionError" := by decide

/-- … but the next grading cannot tell -/
example : (grade tables (grade tables (init exStore) nasty).w probe).result = (grade tables (init exStore) probe).result :=
  c13_history_independent exStore ⟨fun _ => rfl, rfl⟩ [nasty] probe

/-- The same tables with the `suppressions` reset removed from `clear`: the obligation fails … -/
def forgetful : Tables :=
  { tables with clearSteps := tables.clearSteps.filter (fun s =>
      match s with
      | .reset f _ => f != "suppressions"     -- however the tree under test writes that reset
      | .restoreEach _ => true) }

example : tableOk forgetful = false := by decide

/-- … and the model exhibits the history dependence the obligation rules out. -/
example : (grade forgetful (grade forgetful (init exStore) nasty).w probe).result
    ≠ (grade forgetful (init exStore) probe).result := by decide

/-- Pool overrides that do not register the class (the pinned tree): caught as well. -/
def unregisteredPools : Tables := { tables with poolOverrideRegisters := false, restoreClearsPools := false }

example : tableOk unregisteredPools = false := by decide

example : (grade unregisteredPools (grade unregisteredPools (init exStore) nasty).w probe).result
    ≠ (grade unregisteredPools (init exStore) probe).result := by decide

end Pedal.ProcState

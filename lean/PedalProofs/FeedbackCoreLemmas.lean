import PedalModel.FeedbackCore
/-
Lemmas about the class-attribute store (override / restore / clear) used by C20 and C13.
-/
namespace Pedal.FeedbackCore
namespace Store

/-- What `c.__dict__[a]` was before any override: the backed-up value if there is one, else the
    current one. -/
def orig (s : Store) (c a : String) : Option AVal :=
  match (s.backupOf c).lookup a with
  | some old => old
  | none => s.own c a

/-- The invariant every override/clear history keeps, relative to the starting store `s0`. -/
structure Inv (s0 s : Store) : Prop where
  mro : s.mro = s0.mro
  orig : ∀ c a, s.orig c a = s0.own c a
  reg : ∀ c, s.backupOf c ≠ [] → c ∈ s.overridden

theorem inv_init (s0 : Store) (h : s0.Pristine) : Inv s0 s0 := by
  refine ⟨rfl, ?_, ?_⟩
  · intro c a; simp [orig, h.1 c]
  · intro c hc; exact absurd (h.1 c) hc

theorem backupOf_setBackups (s : Store) (c k : String) (v : List (String × Option AVal)) :
    (setBackups s.backups c (some v) k).getD [] = if k = c then v else s.backupOf k := by
  unfold setBackups backupOf
  split <;> simp

/-- One loop step of `override` keeps every original value, the MRO and the registration list, and
    touches no other class's backups. -/
theorem overrideOne_spec (s s' : Store) (c f : String) (v : AVal) (h : s.overrideOne c f v = .ok s') :
    s'.mro = s.mro ∧ s'.overridden = s.overridden ∧ (∀ k a, s'.orig k a = s.orig k a) ∧
    (∀ k, k ≠ c → s'.backupOf k = s.backupOf k) := by
  unfold overrideOne at h
  split at h
  · rename_i old hl
    cases h
    refine ⟨rfl, rfl, ?_, fun _ _ => rfl⟩
    intro k a
    simp only [orig, backupOf, setOwn]
    by_cases hk : k = c ∧ a = f
    · obtain ⟨rfl, rfl⟩ := hk
      have : ((s.backups k).getD []).lookup a = some old := hl
      simp [this]
    · simp [hk]
  · rename_i hl
    split at h
    · cases h
    · cases h
      refine ⟨rfl, rfl, ?_, ?_⟩
      · intro k a
        have hb : ∀ k, ({ s with backups := setBackups s.backups c (some (s.backupOf c ++ [(f, s.own c f)])),
                                  own := setOwn s.own c f (some v) } : Store).backupOf k =
            if k = c then s.backupOf c ++ [(f, s.own c f)] else s.backupOf k := by
          intro k; exact backupOf_setBackups s c k _
        simp only [orig, hb]
        by_cases hk : k = c
        · subst hk
          simp only [if_true, List.lookup_append, setOwn]
          by_cases ha : a = f
          · subst ha
            have : (s.backupOf k).lookup a = none := hl
            simp [this, List.lookup]
          · have hfa : (a == f) = false := by simpa using ha
            cases hla : (s.backupOf k).lookup a <;> simp [List.lookup, hfa, ha]
        · simp [hk, setOwn]
      · intro k hk
        show (setBackups s.backups c _ k).getD [] = _
        rw [backupOf_setBackups]; simp [hk]

theorem overrideLoop_spec (c : String) (fs : List (String × AVal)) :
    ∀ (s : Store), let r := (s.overrideLoop c fs).1
      r.mro = s.mro ∧ r.overridden = s.overridden ∧ (∀ k a, r.orig k a = s.orig k a) ∧
      (∀ k, k ≠ c → r.backupOf k = s.backupOf k) := by
  induction fs with
  | nil => intro s; exact ⟨rfl, rfl, fun _ _ => rfl, fun _ _ => rfl⟩
  | cons p rest ih =>
    intro s
    obtain ⟨f, v⟩ := p
    simp only [overrideLoop]
    cases h : s.overrideOne c f v with
    | error e => exact ⟨rfl, rfl, fun _ _ => rfl, fun _ _ => rfl⟩
    | ok s' =>
      obtain ⟨m1, o1, g1, b1⟩ := overrideOne_spec s s' c f v h
      obtain ⟨m2, o2, g2, b2⟩ := ih s'
      exact ⟨m2.trans m1, o2.trans o1, fun k a => (g2 k a).trans (g1 k a),
        fun k hk => (b2 k hk).trans (b1 k hk)⟩

theorem override_inv (s0 s : Store) (c : String) (fs : List (String × AVal)) (h : Inv s0 s) :
    Inv s0 (s.override c fs).1 := by
  unfold override
  let s1 : Store := { s with backups := setBackups s.backups c (some (s.backupOf c)),
                             overridden := if c ∈ s.overridden then s.overridden else s.overridden ++ [c] }
  have hb1 : ∀ k, s1.backupOf k = s.backupOf k := by
    intro k
    show (setBackups s.backups c (some (s.backupOf c)) k).getD [] = _
    rw [backupOf_setBackups]; split
    · rename_i hk; rw [hk]
    · rfl
  have horig1 : ∀ k a, s1.orig k a = s.orig k a := by
    intro k a; simp only [orig, hb1]; rfl
  have hc1 : c ∈ s1.overridden := by
    show c ∈ (if c ∈ s.overridden then s.overridden else s.overridden ++ [c])
    split <;> simp_all
  have hsub : ∀ k, k ∈ s.overridden → k ∈ s1.overridden := by
    intro k hk
    show k ∈ (if c ∈ s.overridden then s.overridden else s.overridden ++ [c])
    split <;> simp_all
  obtain ⟨m, o, g, b⟩ := overrideLoop_spec c fs s1
  refine ⟨m.trans h.mro, fun k a => ((g k a).trans (horig1 k a)).trans (h.orig k a), ?_⟩
  intro k hk
  rw [o]
  by_cases hkc : k = c
  · rw [hkc]; exact hc1
  · rw [b k hkc, hb1] at hk
    exact hsub k (h.reg k hk)

theorem restoreCls_none (s : Store) (c : String) (hb : s.backups c = none) : s.restoreCls c = s := by
  simp [restoreCls, hb]

theorem restoreCls_some (s : Store) (c : String) (b : List (String × Option AVal)) (hb : s.backups c = some b) :
    s.restoreCls c = { s with own := fun k a => if k = c then (match b.lookup a with
                                               | some old => old
                                               | none => s.own c a) else s.own k a,
                              backups := setBackups s.backups c (some []) } := by
  unfold restoreCls
  split
  · rename_i h; rw [hb] at h; cases h
  · rename_i b' h; rw [hb] at h; cases h; rfl

theorem restoreCls_spec (s : Store) (c : String) :
    (s.restoreCls c).mro = s.mro ∧ (s.restoreCls c).overridden = s.overridden ∧
    (∀ k a, (s.restoreCls c).orig k a = s.orig k a) ∧ (s.restoreCls c).backupOf c = [] ∧
    (∀ k, s.backupOf k = [] → (s.restoreCls c).backupOf k = []) := by
  cases hb : s.backups c with
  | none =>
    rw [restoreCls_none s c hb]
    refine ⟨rfl, rfl, fun _ _ => rfl, ?_, fun _ h => h⟩
    simp [backupOf, hb]
  | some b =>
    rw [restoreCls_some s c b hb]
    have hbk : ∀ k, ({ s with own := fun k a => if k = c then (match b.lookup a with
                                               | some old => old
                                               | none => s.own c a) else s.own k a,
                              backups := setBackups s.backups c (some []) } : Store).backupOf k =
        if k = c then [] else s.backupOf k := fun k => backupOf_setBackups s c k []
    have hbc : s.backupOf c = b := by simp [backupOf, hb]
    refine ⟨rfl, rfl, ?_, ?_, ?_⟩
    · intro k a
      unfold orig
      rw [hbk]
      by_cases hk : k = c
      · subst hk
        simp [hbc]
      · simp [hk]
    · rw [hbk]; simp
    · intro k hk; rw [hbk]; split
      · rfl
      · exact hk

theorem foldl_restore_spec (order : List String) :
    ∀ (s : Store), let r := order.foldl restoreCls s
      r.mro = s.mro ∧ (∀ k a, r.orig k a = s.orig k a) ∧
      (∀ k, k ∈ order ∨ s.backupOf k = [] → r.backupOf k = []) := by
  induction order with
  | nil => intro s; exact ⟨rfl, fun _ _ => rfl, fun k h => by simpa using h⟩
  | cons c rest ih =>
    intro s
    obtain ⟨m1, _, g1, e1, p1⟩ := restoreCls_spec s c
    obtain ⟨m2, g2, e2⟩ := ih (s.restoreCls c)
    refine ⟨m2.trans m1, fun k a => (g2 k a).trans (g1 k a), ?_⟩
    intro k hk
    apply e2
    rcases hk with hk | hk
    · rcases List.mem_cons.mp hk with rfl | hk
      · right; exact e1
      · left; exact hk
    · right; exact p1 k hk

/-- Clearing in ANY order that covers the registered classes puts every class dictionary back. -/
theorem clearIn_restores (s0 s : Store) (h : Inv s0 s) (order : List String)
    (hcover : ∀ c ∈ s.overridden, c ∈ order) :
    (s.clearIn order).own = s0.own ∧ (s.clearIn order).mro = s0.mro ∧ (s.clearIn order).Pristine := by
  obtain ⟨m, g, e⟩ := foldl_restore_spec order s
  have hempty : ∀ k, (order.foldl restoreCls s).backupOf k = [] := by
    intro k
    apply e
    by_cases hk : s.backupOf k = []
    · right; exact hk
    · left; exact hcover k (h.reg k hk)
  refine ⟨?_, m.trans h.mro, ⟨hempty, rfl⟩⟩
  funext k a
  have := (g k a).trans (h.orig k a)
  show (order.foldl restoreCls s).own k a = s0.own k a
  simpa [orig, hempty k] using this

theorem clear_inv (s0 s : Store) (h : Inv s0 s) : Inv s0 s.clear := by
  obtain ⟨ho, hm, hp⟩ := clearIn_restores s0 s h s.overridden (fun _ hc => hc)
  refine ⟨hm, ?_, ?_⟩
  · intro c a
    have : s.clear.backupOf c = [] := hp.1 c
    simp only [orig, this, List.lookup]
    exact congrFun (congrFun ho c) a
  · intro c hc; exact absurd (hp.1 c) hc

theorem runAll_inv (s0 : Store) (hp : s0.Pristine) (h : List Op) : Inv s0 (s0.runAll h) := by
  unfold runAll
  suffices ∀ s, Inv s0 s → Inv s0 (h.foldl step s) from this s0 (inv_init s0 hp)
  induction h with
  | nil => intro s hs; exact hs
  | cons op rest ih =>
    intro s hs
    apply ih
    cases op with
    | override c fs => exact override_inv s0 s c fs hs
    | clear => exact clear_inv s0 s hs

theorem lookup_congr (s t : Store) (ho : s.own = t.own) (hm : s.mro = t.mro) (c a : String) :
    s.lookup c a = t.lookup c a := by
  unfold lookup; rw [ho, hm]

end Store
end Pedal.FeedbackCore

import PedalProofs.CaitDeep
/-
C11 core, part 1: a tree matches itself (`deep` of a node against the same node is not empty), by structural
induction on the tree.
-/
namespace Pedal.Cait

/-- every placeholder key is bound to the identifier spelled like the key (what a tree matched against
itself produces) -/
def IdentBinds (m : AstMap) : Prop := ∀ b ∈ m.binds, b.id = b.key

theorem identBinds_pairMap (pp sp : Path) : IdentBinds (pairMap pp sp) := by
  intro b hb; simp [pairMap] at hb

theorem identBinds_merged {a b : AstMap} (ha : IdentBinds a) (hb : IdentBinds b) :
    IdentBinds (a.merged b) ∧ (a.merged b).hasConflicts = false := by
  have hi : IdentBinds (a.merged b) := by
    intro x hx
    rw [merged_binds, List.mem_append] at hx
    rcases hx with hx | hx
    · exact ha x hx
    · exact hb x hx
  refine ⟨hi, ?_⟩
  have hinv := confInv_merged a b
  cases hc : (a.merged b).conflicts with
  | nil => simp [AstMap.hasConflicts, hc]
  | cons k rest =>
    exfalso
    have : k ∈ (a.merged b).conflicts := by rw [hc]; exact List.mem_cons_self
    obtain ⟨x, hx, y, hy, h1, h2, h3⟩ := (hinv k).1 this
    apply h3
    rw [hi x hx, hi y hy, h1, h2]

/-! ### shallow self-match -/

theorem itemOk_self (x : Item) : itemOk x x = true := by
  cases x <;> simp [itemOk]

theorem zipAll_self {α : Type} {f : α → α → Bool} (h : ∀ a, f a a = true) : ∀ l : List α, zipAll f l l = true := by
  intro l
  induction l with
  | nil => rfl
  | cons a as ih => simp [zipAll, h a, ih]

theorem fieldOk_self (ig : List String) (f : Fld) : fieldOk ig f f = true := by
  by_cases hv : f.val = FVal.none
  · simp [fieldOk, hv]
  · rw [fieldOk_unfold hv]
    simp [zipAll_self itemOk_self]

theorem shallowMainB_self {cm : Bool} {pf : String} (ig : List String) {k f1 f2 : String} {fl : List Fld}
    {ks1 ks2 : List T} (hm : metasMatch cm pf (.mk k f2 fl ks2) = true) :
    shallowMainB cm pf ig (.mk k f1 fl ks1) (.mk k f2 fl ks2) = true := by
  simp [shallowMainB, hm, zipAll_self (fieldOk_self ig)]

theorem shallowMain_self {cm : Bool} {pf : String} (ig : List String) {pp sp : Path} {k f1 f2 : String}
    {fl : List Fld} {ks1 ks2 : List T} (hm : metasMatch cm pf (.mk k f2 fl ks2) = true) :
    shallowMain cm pf ig pp (.mk k f1 fl ks1) sp (.mk k f2 fl ks2) = some (pairMap pp sp) := by
  simp [shallowMain, shallowMainB_self ig hm]

theorem identBinds_addBind {m : AstMap} (h : IdentBinds m) {x : Bind} (hx : x.id = x.key) :
    IdentBinds (m.addBind x) := by
  intro b hb
  rw [addBind_binds, List.mem_append] at hb
  rcases hb with hb | hb
  · exact h b hb
  · simp only [List.mem_singleton] at hb; subst hb; exact hx

theorem ite_some {c : Prop} [Decidable c] {x y : Option AstMap} {P : AstMap → Prop}
    (hx : ∃ b, x = some b ∧ P b) (hy : ∃ b, y = some b ∧ P b) :
    ∃ b, (if c then x else y) = some b ∧ P b := by
  by_cases hc : c
  · rw [if_pos hc]; exact hx
  · rw [if_neg hc]; exact hy

theorem symbolHandler_self {cm : Bool} {pf idVal : String} {pp sp : Path} {k f1 f2 : String} {fl : List Fld}
    {ks1 ks2 : List T} (hm : metasMatch cm pf (.mk k f2 fl ks2) = true) :
    ∃ b, symbolHandler cm pf idVal pp (.mk k f1 fl ks1) sp (.mk k f2 fl ks2) = some b ∧ IdentBinds b := by
  simp only [symbolHandler, hm, T.kind_mk, T.strAttr, T.flds_mk, T.field_mk, Bool.true_and, decide_true, if_true]
  cases nameClass (strOfFlds idVal fl) with
  | var =>
    simp only
    exact ite_some ⟨_, rfl, identBinds_addBind (identBinds_pairMap _ _) rfl⟩
      ⟨_, rfl, identBinds_addBind (identBinds_pairMap _ _) rfl⟩
  | exp =>
    simp only
    exact ite_some ⟨_, rfl, fun b hb => by simp [pairMap] at hb⟩
      ⟨_, shallowMain_self _ hm, identBinds_pairMap _ _⟩
  | wild => exact ⟨_, rfl, identBinds_pairMap _ _⟩
  | plain => exact ⟨_, shallowMain_self _ hm, identBinds_pairMap _ _⟩

theorem shallowDef_self {cm : Bool} {pf : String} {tbl : Tbl} (ig : List String) {pp sp : Path} {k f1 f2 : String}
    {fl : List Fld} {ks1 ks2 : List T} (hm : metasMatch cm pf (.mk k f2 fl ks2) = true) :
    ∃ b, shallowDef cm pf tbl ig pp (.mk k f1 fl ks1) sp (.mk k f2 fl ks2) = some b ∧ IdentBinds b := by
  simp only [shallowDef, shallowMain_self ig hm, hm, T.kind_mk, T.strAttr, T.flds_mk, Bool.and_self,
    decide_true, if_true]
  cases nameClass (strOfFlds "name" fl) with
  | var => exact ⟨_, rfl, identBinds_addBind (identBinds_pairMap _ _) rfl⟩
  | wild => exact ⟨_, rfl, identBinds_pairMap _ _⟩
  | exp => exact ⟨_, rfl, identBinds_pairMap _ _⟩
  | plain => exact ⟨_, rfl, identBinds_pairMap _ _⟩

/-- `shallow_match` of a node against a node with the same kind and fields succeeds when the metas match -/
theorem shallowMatch_self {cm : Bool} {pf : String} {pp sp : Path} {k f1 f2 : String} {fl : List Fld}
    {ks1 ks2 : List T} (hm : metasMatch cm pf (.mk k f2 fl ks2) = true) :
    ∃ b, shallowMatch cm pf pp (.mk k f1 fl ks1) sp (.mk k f2 fl ks2) = some b ∧ IdentBinds b := by
  have hmain : ∀ ig, ∃ b, shallowMain cm pf ig pp (.mk k f1 fl ks1) sp (.mk k f2 fl ks2) = some b ∧ IdentBinds b :=
    fun ig => ⟨_, shallowMain_self ig hm, identBinds_pairMap _ _⟩
  have hpair : ∃ b, some (pairMap pp sp) = some b ∧ IdentBinds b := ⟨_, rfl, identBinds_pairMap _ _⟩
  simp only [shallowMatch, T.kind_mk]
  by_cases hk : k = "Module"
  · simp only [hk, decide_true, Bool.true_or, if_true]
    exact hpair
  · simp only [hk, ↓reduceIte]
    refine ite_some (symbolHandler_self hm) ?_
    refine ite_some (ite_some (ite_some (symbolHandler_self hm) (hmain _))
      (ite_some (symbolHandler_self hm) (hmain _))) ?_
    refine ite_some (symbolHandler_self hm) ?_
    refine ite_some ?_ ?_
    · simp only [hm, if_true]; exact hpair
    · exact ite_some (shallowDef_self _ hm) (ite_some (shallowDef_self _ hm) (hmain _))

/-! ### introduction rules for the child loop -/

theorem candsFrom_intro {f : Nat → T → List AstMap} {ys : Nat} :
    ∀ (l : List T) (j0 j : Nat) (sj : T), l[j - j0]? = some sj → j0 ≤ j → ys ≤ j → f j sj ≠ [] →
      (j, f j sj) ∈ candsFrom f ys j0 l := by
  intro l
  induction l with
  | nil => intro j0 j sj h; simp at h
  | cons a as ih =>
    intro j0 j sj h h1 h2 h3
    rw [candsFrom, List.mem_append]
    by_cases hj : j = j0
    · subst hj
      simp only [Nat.sub_self, List.getElem?_cons_zero, Option.some.injEq] at h
      subst h
      left
      have : ¬ j < ys := by omega
      simp only [this, if_false]
      have : (f j a).isEmpty = false := by simpa using h3
      simp [this]
    · right
      have : j - j0 = (j - (j0 + 1)) + 1 := by omega
      rw [this, List.getElem?_cons_succ] at h
      exact ih (j0 + 1) j sj h (by omega) h2 h3

/-- candidate indices come in increasing order: the first is the least -/
theorem candsFrom_lb {f : Nat → T → List AstMap} {ys : Nat} :
    ∀ (l : List T) (j0 : Nat) (c : Nat × List AstMap), c ∈ candsFrom f ys j0 l → j0 ≤ c.1 := by
  intro l j0 c hc
  obtain ⟨_, _, h, _⟩ := candsFrom_mem l j0 c hc
  exact h

theorem candsFrom_head_le {f : Nat → T → List AstMap} {ys : Nat} :
    ∀ (l : List T) (j0 : Nat) (c0 : Nat × List AstMap) (rest : List (Nat × List AstMap)),
      candsFrom f ys j0 l = c0 :: rest → ∀ c ∈ candsFrom f ys j0 l, c0.1 ≤ c.1 := by
  intro l
  induction l with
  | nil => intro j0 c0 rest h; simp [candsFrom] at h
  | cons a as ih =>
    intro j0 c0 rest h c hc
    rw [candsFrom] at h hc
    by_cases hfirst : (if j0 < ys then ([] : List (Nat × List AstMap)) else
        (let r := f j0 a; if r.isEmpty then [] else [(j0, r)])) = []
    · rw [hfirst] at h hc
      simp only [List.nil_append] at h hc
      exact ih (j0 + 1) c0 rest h c hc
    · -- the head is (j0, _)
      have hhead : c0.1 = j0 := by
        split at h
        · exact absurd (by simp_all) hfirst
        · simp only at h
          split at h
          · exact absurd (by simp_all) hfirst
          · simp only [List.singleton_append, List.cons.injEq] at h
            rw [← h.1]
      rw [hhead]
      rw [List.mem_append] at hc
      rcases hc with hc | hc
      · split at hc
        · cases hc
        · simp only at hc
          split at hc
          · cases hc
          · simp only [List.mem_singleton] at hc; rw [hc]; exact Nat.le_refl _
      · have := candsFrom_lb as (j0 + 1) c hc
        omega

theorem mapMerge_intro {st : List (AstMap × Nat)} {cands : List (Nat × List AstMap)}
    {x : AstMap × Nat} {c : Nat × List AstMap} {r : AstMap}
    (hx : x ∈ st) (hc : c ∈ cands) (hge : x.2 ≤ c.1) (hr : r ∈ c.2)
    (hconf : (x.1.merged r).hasConflicts = false) :
    ∃ st' c0 rest, cands = c0 :: rest ∧ mapMerge st cands = some (st', c0.1 + 1) ∧
      (x.1.merged r, c.1 + 1) ∈ st' := by
  cases cands with
  | nil => cases hc
  | cons c0 rest =>
    have hmem : (x.1.merged r, c.1 + 1) ∈ st.flatMap (fun b => extendOne b.1 b.2 (c0 :: rest)) := by
      simp only [List.mem_flatMap]
      refine ⟨x, hx, ?_⟩
      simp only [extendOne, List.mem_flatMap]
      refine ⟨c, hc, ?_⟩
      simp only [ge_iff_le, hge, if_true, List.mem_filterMap]
      exact ⟨r, hr, by simp [hconf]⟩
    refine ⟨_, c0, rest, rfl, ?_, hmem⟩
    simp only [mapMerge]
    have : (st.flatMap (fun b => extendOne b.1 b.2 (c0 :: rest))).isEmpty = false := by
      cases hh : st.flatMap (fun b => extendOne b.1 b.2 (c0 :: rest)) with
      | nil => rw [hh] at hmem; cases hmem
      | cons _ _ => rfl
    simp [this]

/-! ### a tree matches itself -/

theorem T.setField_self (t : T) : t.setField t.field = t := by cases t; rfl

theorem metasMatch_none (cm : Bool) (s : T) : metasMatch cm "none" s = true := by
  simp [metasMatch]

theorem metasMatch_same (cm : Bool) (s : T) : metasMatch cm s.field s = true := by
  cases cm <;> simp [metasMatch]

/-- `t` matches a copy of itself (whatever field the copy's root carries) whenever the root metas match -/
def SelfDeep (t : T) : Prop :=
  ∀ (cm : Bool) (pf f2 : String) (pp sp : Path), metasMatch cm pf (t.setField f2) = true →
    ∃ m ∈ deep cm pf pp t sp (t.setField f2), IdentBinds m

theorem deepKids_self (cm : Bool) (ig : List String) (pp sp : Path) (s : T) (rest : List T)
    (hIH : ∀ c ∈ rest, SelfDeep c) :
    ∀ (done : List T), s.kids = done ++ rest → ∀ (st : List (AstMap × Nat)) (y : Nat),
      (∃ x ∈ st, x.2 ≤ done.length ∧ IdentBinds x.1) → y ≤ done.length →
      ∃ m ∈ deepKids cm ig pp done.length rest sp s st y, IdentBinds m := by
  induction rest with
  | nil =>
    intro done _ st y hst _
    obtain ⟨x, hx, _, hi⟩ := hst
    rw [deepKids]
    exact ⟨x.1, List.mem_map.2 ⟨x, hx, rfl⟩, hi⟩
  | cons pc rest ih =>
    intro done hs st y hst hy
    have ih' := ih (fun c hc => hIH c (List.mem_cons_of_mem _ hc)) (done ++ [pc])
      (by rw [hs]; simp)
    have hlen : (done ++ [pc]).length = done.length + 1 := by simp
    rw [hlen] at ih'
    obtain ⟨x, hx, hx2, hxi⟩ := hst
    rw [deepKids]
    by_cases hign : ig.contains pc.field = true
    · simp only [hign, if_true]
      exact ih' st y ⟨x, hx, by omega, hxi⟩ (by omega)
    · simp only [hign]
      -- the child matches its own copy at the same index
      have hkid : s.kids[done.length - 0]? = some pc := by
        rw [hs]; simp
      obtain ⟨r, hr, hri⟩ := hIH pc List.mem_cons_self cm pc.field pc.field (pp ++ [done.length])
        (sp ++ [done.length]) (by rw [T.setField_self]; exact metasMatch_same cm pc)
      rw [T.setField_self] at hr
      have hne : (fun j sj => deep cm pc.field (pp ++ [done.length]) pc (sp ++ [j]) sj) done.length pc ≠ [] := by
        intro h; simp only at h; rw [h] at hr; cases hr
      have hc := candsFrom_intro (f := fun j sj => deep cm pc.field (pp ++ [done.length]) pc (sp ++ [j]) sj)
        (ys := y) s.kids 0 done.length pc hkid (Nat.zero_le _) hy hne
      obtain ⟨hmi, hmc⟩ := identBinds_merged hxi hri
      obtain ⟨st', c0, crest, hcs, hmm, hin⟩ := mapMerge_intro hx hc hx2 hr hmc
      have hle := candsFrom_head_le s.kids 0 c0 crest hcs _ hc
      simp only [hmm]
      exact ih' st' (c0.1 + 1) ⟨_, hin, Nat.le_refl _, hmi⟩ (by simp only at hle; omega)

theorem deepPre_done_nonempty {cm : Bool} {pf : String} {pp sp : Path} {p s : T} {r : List AstMap}
    (hm : metasMatch cm pf s = true) (h : deepPre cm pf pp p sp s = .done r) : ∃ m ∈ r, m.binds = [] := by
  simp only [deepPre, hm] at h
  split at h
  · cases hc : nameClass (p.strAttr "id") <;> simp only [hc] at h
    · cases h
    · simp only [if_true] at h; cases h; exact ⟨_, List.mem_cons_self, rfl⟩
    · simp only [if_true] at h; cases h; exact ⟨_, List.mem_cons_self, rfl⟩
    · cases h
  · split at h
    · split at h <;> cases h
    · split at h
      · simp only [Bool.not_true, Bool.false_eq_true, if_false] at h
        cases hv : p.kids.head? with
        | none => simp only [hv] at h; cases h
        | some v =>
          simp only [hv] at h
          split at h
          · split at h
            · cases h; exact ⟨_, List.mem_cons_self, rfl⟩
            · split at h
              · cases h; exact ⟨_, List.mem_cons_self, rfl⟩
              · cases h
          · cases h
      · cases h

theorem binflexHelper_intro {base lm rm : AstMap} {L R : List AstMap} (hl : lm ∈ L) (hr : rm ∈ R)
    (hc : ((base.merged lm).merged rm).hasConflicts = false) :
    (base.merged lm).merged rm ∈ binflexHelper base L R := by
  simp only [binflexHelper, List.mem_flatMap, List.mem_filterMap]
  exact ⟨lm, hl, rm, hr, by simp [hc]⟩

theorem binOp3L_mem {ks : List T} (h : binOp3L ks = true) : ∀ c ∈ ks, binOp3 c = true := by
  induction ks with
  | nil => intro c hc; cases hc
  | cons t ts ih =>
    rw [binOp3L] at h
    simp only [Bool.and_eq_true] at h
    intro c hc
    cases hc with
    | head => exact h.1
    | tail _ hc' => exact ih h.2 c hc'

theorem binOp3_kids {k f : String} {fl : List Fld} {kids : List T} (h : binOp3 (.mk k f fl kids) = true) :
    (∀ c ∈ kids, binOp3 c = true) ∧ (k = "BinOp" → kids.length = 3) := by
  rw [binOp3] at h
  simp only [Bool.and_eq_true, Bool.or_eq_true, Bool.not_eq_true', decide_eq_false_iff_not,
    decide_eq_true_eq] at h
  refine ⟨binOp3L_mem h.2, fun hk => ?_⟩
  rcases h.1 with h1 | h1
  · exact absurd hk h1
  · exact h1

/-- **Core of C11 (self-match)**: matching a tree against a copy of itself succeeds. -/
theorem deep_self : ∀ (t : T), binOp3 t = true → SelfDeep t := by
  intro t
  induction t using T.induct' with
  | h k f fl kids ih =>
    intro hb cm pf f2 pp sp hm
    obtain ⟨hbk, hb3⟩ := binOp3_kids hb
    have hIH : ∀ c ∈ kids, SelfDeep c := fun c hc => ih c hc (hbk c hc)
    simp only [T.setField] at hm ⊢
    rw [deep.eq_def]
    simp only
    cases hpre : deepPre cm pf pp (T.mk k f fl kids) sp (T.mk k f2 fl kids) with
    | done r =>
      simp only
      obtain ⟨m, hmr, hmb⟩ := deepPre_done_nonempty hm hpre
      exact ⟨m, hmr, fun b hb => by rw [hmb] at hb; cases hb⟩
    | generic ig =>
      simp only
      obtain ⟨b, hsb, hbi⟩ := shallowMatch_self (pp := pp) (sp := sp) (f1 := f) (ks1 := kids) hm
      simp only [hsb]
      exact deepKids_self cm ig pp sp (T.mk k f2 fl kids) kids hIH [] (by simp) [(b, 0)] 0
        ⟨(b, 0), by simp, Nat.le_refl _, hbi⟩ (Nat.le_refl _)
    | binflex =>
      simp only
      obtain ⟨hkind, _⟩ := deepPre_binflex hpre
      have h3 := hb3 hkind
      match kids, hIH, h3 with
      | [l, op, r], hIH, _ =>
        simp only
        obtain ⟨b, hsb, hbi⟩ := shallowMatch_self (cm := false) (pf := pf) (pp := pp) (sp := sp) (f1 := f) (f2 := f2)
          (k := k) (fl := fl) (ks1 := [l, op, r]) (ks2 := [l, op, r]) (by simp [metasMatch])
        simp only [hsb, T.kids_mk]
        cases op with
        | mk ok of ofl oks =>
          obtain ⟨o, hso, hoi⟩ := shallowMatch_self (cm := true) (pf := of) (pp := pp ++ [1]) (sp := sp ++ [1])
            (k := ok) (f1 := of) (f2 := of) (fl := ofl) (ks1 := oks) (ks2 := oks)
            (metasMatch_same true (T.mk ok of ofl oks))
          simp only [T.field_mk, hso]
          obtain ⟨lm, hlm, hli⟩ := hIH l (by simp) false l.field l.field (pp ++ [0]) (sp ++ [0]) (by simp [metasMatch])
          obtain ⟨rm, hrm, hri⟩ := hIH r (by simp) false r.field r.field (pp ++ [2]) (sp ++ [2]) (by simp [metasMatch])
          rw [T.setField_self] at hlm hrm
          have hbase := (identBinds_merged hbi hoi).1
          have h1 := identBinds_merged hbase hli
          have h2 := identBinds_merged h1.1 hri
          exact ⟨_, List.mem_append_left _ (binflexHelper_intro hlm hrm h2.2), h2.1⟩
      | [], _, h3 => simp at h3
      | [_], _, h3 => simp at h3
      | [_, _], _, h3 => simp at h3
      | _ :: _ :: _ :: _ :: _, _, h3 => simp at h3

end Pedal.Cait

import PedalModel.StaticChecks
/-
Helper lemmas for C08 (traversal and list bookkeeping).  Property theorems are in PedalProofs/C08.lean.
-/
namespace Pedal.Static

mutual
theorem findAll_eq_filter (k : String) : ∀ t : Tree, findAll k t = (walk t).filter (isKind k)
  | .node kd f l c a cs => by
    have ih := findAllList_eq_filter k cs
    by_cases h : isKind k (.node kd f l c a cs) = true
    · simp [findAll, walk, h, ih]
    · simp [findAll, walk, h, ih]
theorem findAllList_eq_filter (k : String) : ∀ ts : List Tree, findAllList k ts = (walkList ts).filter (isKind k)
  | [] => by simp [findAllList, walkList]
  | t :: ts => by
    simp [findAllList, walkList, List.filter_append, findAll_eq_filter k t, findAllList_eq_filter k ts]
end

theorem mem_walk_self (t : Tree) : t ∈ walk t := by
  cases t with
  | node k f l c a cs => simp [walk]

theorem isKind_plain (k : String) (t : Tree) (h1 : k ≠ "Num") (h2 : k ≠ "Str") (h3 : k ≠ "Bool") :
    isKind k t = decide (t.kind = k) := by
  simp [isKind, h1, h2, h3]

theorem length_flatMap_replicate (f : Tree → Nat) (l : List Tree) :
    (l.flatMap (fun n => List.replicate (f n) n)).length = (l.map f).sum := by
  induction l with
  | nil => rfl
  | cons a l ih => simp [List.flatMap_cons, ih]

theorem mem_flatMap_replicate (f : Tree → Nat) (l : List Tree) (n : Tree) :
    n ∈ l.flatMap (fun m => List.replicate (f m) m) ↔ n ∈ l ∧ f n ≠ 0 := by
  simp only [List.mem_flatMap, List.mem_replicate]
  constructor
  · rintro ⟨m, hm, hne, rfl⟩
    exact ⟨hm, hne⟩
  · rintro ⟨hm, hne⟩
    exact ⟨n, hm, hne, rfl⟩

theorem getLast?_mem {α} (l : List α) (h : l ≠ []) : ∃ x ∈ l, l.getLast? = some x := by
  refine ⟨l.getLast h, List.getLast_mem h, ?_⟩
  exact List.getLast?_eq_some_getLast h

end Pedal.Static

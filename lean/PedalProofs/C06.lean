import PedalModel.SandboxEquiv
import PedalModel.Gen.SandboxEquivGen
import PedalProofs.SandboxEquivLemmas
/-
C06 — sandboxed execution is observationally equivalent to plain CPython execution.

What is proved here is about what the sandbox WRAPS AROUND CPython's execution of the student's code — the
execution itself (`exec(compile(code))` in the student namespace with a copied builtins table behaving like
running the file as `__main__`) is a parameter of the model and is tested differentially, not proved:

* `c06_io_equiv`: for every interaction tree and every queue that holds a reply for each input() made (and below
  MAXIMUM_INPUTS), the sandbox's input tracker and CPython's own input() give the same printed text apart from
  how the prompt is echoed, hand the program the same replies, leave the same queue and reach the same final
  state (globals + outcome are whatever the tree's leaf says).
* `c06_call_binding`: the function named in call() is applied to exactly the values the instructor passed
  (through the repr when it is a faithful literal, through a temporary otherwise).
* `c06_call_namespace`, `c06_call_inv`, `c06_calls_frame`: after call(), every key of the student namespace holds
  what it held before, except the target (the result) and the names every execution rewrites; temporaries are
  gone and shadowed globals are back; the invariant carries over any sequence of calls.
* `c06_student_globals_preserved`: an execution's set-up rewrites only `__builtins__`, `__name__` and the override names.

Full statements that are false on the code as it is, with the witness (open findings):
* `C06_io_Full` (no condition on the queue): an exhausted queue answers '0' where CPython raises EOFError.
* `C06_call_Full` (any function name): a student function named like an overridden builtin is replaced.
-/
namespace Pedal.SandboxEquiv
open Pedal.Gen.SandboxEquiv

/-! ## The generated configuration has the shape the theorems need (closed by evaluation on every run) -/

theorem gen_input_cfg : inputCfg.understood = true ∧ inputCfg.popFront = true ∧ inputCfg.records = true := by
  decide

theorem gen_call_cfg :
    callCfg.understood = true ∧ callCfg.checksLiteral = true ∧ callCfg.backsUp = true ∧ callCfg.purgeRestores = true ∧
    callCfg.purgeDeletes = true ∧ callCfg.purgeClears = true ∧ callCfg.assignsTarget = true ∧
    callCfg.purgesAfterCall = true := by
  decide

theorem gen_mock_cfg : mockCfg.understood = true ∧ mockCfg.setsMainName = true ∧ mockCfg.resetsBuiltins = true := by
  decide

/-! ## A. input / output -/

theorem sandboxRun_eq_plainRun (cfg : InputCfg) (hp : cfg.popFront = true) (hr : cfg.records = true) :
    ∀ (p : Prog) (q : List String) (n : Nat), sufficient cfg p q n = true → sandboxRun cfg p q n = plainRun p q := by
  intro p
  induction p with
  | done f => intro q n _; rfl
  | unexplored => intro q n _; rfl
  | out s k ih =>
    intro q n h
    simp only [sufficient] at h
    simp only [sandboxRun, plainRun, ih q n h]
  | inp pr k ih =>
    intro q n h
    cases q with
    | nil => simp [sufficient] at h
    | cons x q =>
      simp only [sufficient, Bool.and_eq_true, Bool.not_eq_true'] at h
      have ih' := ih (.value x) q (n + 1) h.2
      simp only [sandboxRun, plainRun, takeInput, hp, hr, if_true, h.1, Bool.false_eq_true, if_false, ih']

/-- The property's first sentence for the tree under test's input tracker: same printed text apart from the
prompt echo, same prompts in the same places, same replies consumed, same queue left, same final state. -/
theorem c06_io_equiv (p : Prog) (q : List String) (n : Nat) (h : sufficient inputCfg p q n = true) :
    let s := sandboxRun inputCfg p q n
    let r := plainRun p q
    printed s.chunks = printed r.chunks ∧ prompts s.chunks = prompts r.chunks ∧ s.consumed = r.consumed ∧
    s.rest = r.rest ∧ s.fin = r.fin := by
  have := sandboxRun_eq_plainRun inputCfg gen_input_cfg.2.1 gen_input_cfg.2.2 p q n h
  simp [this]

/-- The statement without the condition on the queue. -/
def C06_io_Full : Prop :=
  ∀ (p : Prog) (q : List String) (n : Nat), (sandboxRun inputCfg p q n).fin = (plainRun p q).fin

/-- `x = input()` with nothing queued: CPython raises EOFError inside the program (final state 1), the sandbox
answers its default reply and the program ends normally (final state 0). -/
def exhaustedWitness : Prog :=
  .inp "" fun r => match r with
    | .value _ => .done 0
    | .eof => .done 1
    | .tooMany => .done 2

theorem c06_io_exhausted_counterexample : ¬ C06_io_Full := by
  intro h
  have := h exhaustedWitness [] 0
  revert this
  decide

/-! ## C. what an execution rewrites -/

theorem c06_student_globals_preserved (mc : MockCfg) (ov : String → Nat) (data : NS) (k : Key)
    (h : reserved mc k = false) : NS.get? (startExecution mc ov data) k = NS.get? data k := by
  rw [startExecution_get?]
  have : mockedValue mc ov k = none := by
    cases k with
    | temp => rfl
    | name s =>
      simp only [reserved, Bool.or_eq_false_iff] at h
      obtain ⟨⟨h1, h2⟩, h3⟩ := h
      have h3' : s ∉ mc.overrideNames := by simpa using h3
      simp [mockedValue, h1, h2, h3']
  rw [this]

/-! ## B. call() -/

structure GoodCall (cc : CallCfg) : Prop where
  backsUp : cc.backsUp = true
  restores : cc.purgeRestores = true
  deletes : cc.purgeDeletes = true
  clears : cc.purgeClears = true
  assigns : cc.assignsTarget = true
  purges : cc.purgesAfterCall = true

theorem gen_good_call : GoodCall callCfg :=
  ⟨gen_call_cfg.2.2.1, gen_call_cfg.2.2.2.1, gen_call_cfg.2.2.2.2.1, gen_call_cfg.2.2.2.2.2.1,
   gen_call_cfg.2.2.2.2.2.2.1, gen_call_cfg.2.2.2.2.2.2.2⟩

theorem posKeys_mem (args : List Arg) : ∀ (i : Nat) (e : Key × Arg), e ∈ posKeys i args →
    ∃ j, i ≤ j ∧ e.1 = .temp false j "" := by
  induction args with
  | nil => intro i e he; cases he
  | cons a rest ih =>
    intro i e he
    simp only [posKeys, List.mem_cons] at he
    rcases he with rfl | he
    · exact ⟨i, Nat.le_refl _, rfl⟩
    · obtain ⟨j, hj, hk⟩ := ih (i + 1) e he
      exact ⟨j, by omega, hk⟩

theorem posKeys_mem_arg (args : List Arg) : ∀ (i : Nat) (e : Key × Arg), e ∈ posKeys i args → e.2 ∈ args := by
  induction args with
  | nil => intro i e he; cases he
  | cons a rest ih =>
    intro i e he
    simp only [posKeys, List.mem_cons] at he
    rcases he with rfl | he
    · simp
    · exact List.mem_cons_of_mem _ (ih (i + 1) e he)

theorem posKeys_nodup (args : List Arg) : ∀ i, ((posKeys i args).map (·.1)).Nodup := by
  induction args with
  | nil => intro i; simp [posKeys]
  | cons a rest ih =>
    intro i
    simp only [posKeys, List.map_cons, List.nodup_cons]
    refine ⟨?_, ih (i + 1)⟩
    intro hmem
    obtain ⟨e, he, hk⟩ := List.mem_map.mp hmem
    obtain ⟨j, hj, hk'⟩ := posKeys_mem rest (i + 1) e he
    rw [hk'] at hk
    cases hk
    omega

theorem kwKeys_nodup (kwargs : List (String × Arg)) (h : (kwargs.map (·.1)).Nodup) :
    ((kwKeys kwargs).map (·.1)).Nodup := by
  induction kwargs with
  | nil => simp [kwKeys]
  | cons e rest ih =>
    simp only [List.map_cons, List.nodup_cons] at h
    simp only [kwKeys, List.map_cons, List.nodup_cons, List.map_map]
    refine ⟨?_, by simpa [kwKeys, List.map_map] using ih h.2⟩
    intro hmem
    obtain ⟨e', he', hk⟩ := List.mem_map.mp hmem
    simp only [Function.comp] at hk
    have hk' : e'.1 = e.1 := by
      injection hk with _ _ h3
    exact h.1 (hk' ▸ List.mem_map_of_mem he')

theorem allKeys_nodup (args : List Arg) (kwargs : List (String × Arg)) (h : (kwargs.map (·.1)).Nodup) :
    ((posKeys 0 args ++ kwKeys kwargs).map (·.1)).Nodup := by
  rw [List.map_append, List.nodup_append]
  refine ⟨posKeys_nodup args 0, kwKeys_nodup kwargs h, ?_⟩
  intro a ha b hb hab
  obtain ⟨e, he, hk⟩ := List.mem_map.mp ha
  obtain ⟨j, _, hj⟩ := posKeys_mem args 0 e he
  obtain ⟨e', he', hk'⟩ := List.mem_map.mp hb
  simp only [kwKeys, List.mem_map] at he'
  obtain ⟨e'', _, rfl⟩ := he'
  rw [← hk, hj, ← hk'] at hab
  cases hab

theorem allKeys_temp (args : List Arg) (kwargs : List (String × Arg)) :
    ∀ e, e ∈ posKeys 0 args ++ kwKeys kwargs → e.1.isTemp = true := by
  intro e he
  rcases List.mem_append.mp he with he | he
  · obtain ⟨j, _, hj⟩ := posKeys_mem args 0 e he
    rw [hj]; rfl
  · simp only [kwKeys, List.mem_map] at he
    obtain ⟨e', _, rfl⟩ := he
    rfl

theorem map_val_posKeys (args : List Arg) : ∀ i, (posKeys i args).map (·.2.val) = args.map (·.val) := by
  induction args with
  | nil => intro i; rfl
  | cons a rest ih => intro i; simp [posKeys, ih (i + 1)]

theorem length_posKeys (args : List Arg) : ∀ i, (posKeys i args).length = args.length := by
  induction args with
  | nil => intro i; rfl
  | cons a rest ih => intro i; simp [posKeys, ih (i + 1)]

/-- The values each argument text of the generated call evaluates to, in the namespace the call runs in, are the
instructor's values: given that a faithful literal evaluates to its value in the student namespace (`hlit`, CPython)
and that a SandboxVariable names a global holding its value that no execution rewrites (`hvar`). -/
theorem c06_call_binding (cc : CallCfg) (mc : MockCfg) (ov : String → Nat) (E : Env) (st : St) (f : String)
    (args : List Arg) (kwargs : List (String × Arg)) (target : Option String)
    (hkw : (kwargs.map (·.1)).Nodup)
    (hsound : ∀ a, a ∈ args ++ kwargs.map (·.2) → ItemSound cc E (startExecution mc ov st.data) a) :
    (callStep cc mc ov E st f args kwargs target).passed = some (args.map (·.val) ++ kwargs.map (·.2.val)) := by
  show callPassed cc mc ov E st args kwargs = _
  unfold callPassed callData callPrepared
  have hnd := allKeys_nodup args kwargs hkw
  let items := posKeys 0 args ++ kwKeys kwargs
  let c := constructList cc st items
  have hframe : ∀ k, k.isTemp = false → NS.get? c.2.data k = NS.get? st.data k := by
    intro k hk
    apply constructList_data_frame
    intro hmem
    obtain ⟨e, he, hk'⟩ := List.mem_map.mp hmem
    have := allKeys_temp args kwargs e he
    rw [hk'] at this
    rw [this] at hk
    cases hk
  have hres := constructList_evalRefs cc E (startExecution mc ov c.2.data) items st hnd ?_ ?_
  · rw [hres]
    simp only [items, List.map_append, map_val_posKeys, kwKeys, List.map_map]
    rfl
  · intro e he
    have hmem : e.2 ∈ args ++ kwargs.map (·.2) := by
      rcases List.mem_append.mp he with he | he
      · exact List.mem_append_left _ (posKeys_mem_arg args 0 e he)
      · apply List.mem_append_right
        simp only [kwKeys, List.mem_map] at he
        obtain ⟨e', he', rfl⟩ := he
        exact List.mem_map_of_mem he'
    have hs := hsound e.2 hmem
    refine ⟨?_, hs.2⟩
    intro n hn
    have h1 := hs.1 n hn
    rw [startExecution_get?] at h1 ⊢
    rw [hframe (.name n) rfl]
    exact h1
  · intro e he
    rw [startExecution_get?, mockedValue_temp mc ov e.1 (allKeys_temp args kwargs e he)]


/-- What a key holds once an execution has been set up on a namespace in which it held `old`. -/
def afterSetup (mc : MockCfg) (ov : String → Nat) (k : Key) (old : Option Nat) : Option Nat :=
  match mockedValue mc ov k with
  | some v => some v
  | none => old

theorem purge_get? (cc : CallCfg) (hg : GoodCall cc) (st0 st1 : St) (hm : Mid st0 st1) (data2 : NS) (k : Key) :
    NS.get? (purge cc { st1 with data := data2 }).data k =
      if k ∈ st1.temps then NS.get? st0.data k else NS.get? data2 k := by
  unfold purge
  simp only
  rw [purge_fold_get? cc hg.restores hg.deletes]
  by_cases h : k ∈ st1.temps
  · simp only [h, if_true]; exact hm.backup_of k h
  · simp only [h, if_false]

theorem construct_mid (cc : CallCfg) (hg : GoodCall cc) (st : St) (hinv : Inv st) (args : List Arg)
    (kwargs : List (String × Arg)) (hkw : (kwargs.map (·.1)).Nodup) :
    Mid st (constructList cc st (posKeys 0 args ++ kwKeys kwargs)).2 := by
  apply constructList_mid cc st hinv hg.backsUp _ st (mid_refl st hinv) (allKeys_temp args kwargs)
    (allKeys_nodup args kwargs hkw)
  intro e _ hmem
  rw [hinv.temps_nil] at hmem
  cases hmem

/-- After call(): the target holds the result (when the call returned), every other key holds what it held
before the call, as far as the set-up of an execution leaves it alone — temporaries are gone, globals they
shadowed are back. -/
theorem c06_call_namespace (cc : CallCfg) (mc : MockCfg) (ov : String → Nat) (E : Env) (st : St) (f : String)
    (args : List Arg) (kwargs : List (String × Arg)) (target : Option String) (hg : GoodCall cc) (hinv : Inv st)
    (hkw : (kwargs.map (·.1)).Nodup) (k : Key) :
    NS.get? (callStep cc mc ov E st f args kwargs target).st.data k =
      match (callStep cc mc ov E st f args kwargs target).outcome, target with
      | .ret v, some t => if k = .name t then some v else afterSetup mc ov k (NS.get? st.data k)
      | _, _ => afterSetup mc ov k (NS.get? st.data k) := by
  have hm := construct_mid cc hg st hinv args kwargs hkw
  have hbase : ∀ k, k ∉ (constructList cc st (posKeys 0 args ++ kwKeys kwargs)).2.temps →
      NS.get? (startExecution mc ov (constructList cc st (posKeys 0 args ++ kwKeys kwargs)).2.data) k
        = afterSetup mc ov k (NS.get? st.data k) := by
    intro k hk
    rw [startExecution_get?, hm.data_frame k hk]
    rfl
  have htemp : ∀ k, k ∈ (constructList cc st (posKeys 0 args ++ kwKeys kwargs)).2.temps →
      NS.get? st.data k = afterSetup mc ov k (NS.get? st.data k) ∧ ∀ t, k ≠ .name t := by
    intro k hk
    have ht := hm.temps_temp k hk
    refine ⟨?_, ?_⟩
    · unfold afterSetup; rw [mockedValue_temp mc ov k ht]
    · intro t h; rw [h] at ht; cases ht
  unfold callStep
  simp only [hg.purges, hg.assigns, if_true]
  generalize callOutcome cc mc ov E st f args kwargs = outcome
  unfold callData callPrepared
  rw [purge_get? cc hg st _ hm]
  by_cases hk : k ∈ (constructList cc st (posKeys 0 args ++ kwKeys kwargs)).2.temps
  · simp only [hk, if_true]
    obtain ⟨h1, h2⟩ := htemp k hk
    cases outcome with
    | raise c => cases target <;> exact h1
    | ret v =>
      cases target with
      | none => exact h1
      | some t => simp only [h2 t, if_false]; exact h1
  · simp only [hk, if_false]
    cases outcome with
    | raise c => cases target <;> exact hbase k hk
    | ret v =>
      cases target with
      | none => exact hbase k hk
      | some t =>
        show NS.get? (NS.set _ (.name t) v) k = _
        rw [get?_set]
        by_cases hkt : k = .name t
        · simp [hkt]
        · simp only [hkt, if_false]; exact hbase k hk

/-- The invariant between executions survives a call. -/
theorem c06_call_inv (cc : CallCfg) (mc : MockCfg) (ov : String → Nat) (E : Env) (st : St) (f : String)
    (args : List Arg) (kwargs : List (String × Arg)) (target : Option String) (hg : GoodCall cc) (hinv : Inv st)
    (hkw : (kwargs.map (·.1)).Nodup) : Inv (callStep cc mc ov E st f args kwargs target).st := by
  have hm := construct_mid cc hg st hinv args kwargs hkw
  have hns := c06_call_namespace cc mc ov E st f args kwargs target hg hinv hkw
  have htempval : ∀ k, k.isTemp = true →
      NS.get? (callStep cc mc ov E st f args kwargs target).st.data k = NS.get? st.data k := by
    intro k hk
    rw [hns k]
    have h1 : afterSetup mc ov k (NS.get? st.data k) = NS.get? st.data k := by
      unfold afterSetup; rw [mockedValue_temp mc ov k hk]
    have h2 : ∀ t, k ≠ .name t := by intro t h; rw [h] at hk; cases hk
    cases (callStep cc mc ov E st f args kwargs target).outcome with
    | raise c => cases target <;> exact h1
    | ret v =>
      cases target with
      | none => exact h1
      | some t => simp only [h2 t, if_false]; exact h1
  have hbk : (callStep cc mc ov E st f args kwargs target).st.backups = (callPrepared cc st args kwargs).2.backups := by
    unfold callStep; simp only [hg.purges, if_true, purge]
  have htm : (callStep cc mc ov E st f args kwargs target).st.temps = [] := by
    unfold callStep; simp only [hg.purges, if_true, purge, hg.clears]
  refine ⟨htm, ?_⟩
  intro k v hkv
  rw [hbk] at hkv
  unfold callPrepared at hkv
  by_cases hk : k ∈ (constructList cc st (posKeys 0 args ++ kwKeys kwargs)).2.temps
  · have ht := hm.temps_temp k hk
    refine ⟨ht, ?_⟩
    rw [htempval k ht, ← hm.backup_of k hk]
    exact hkv
  · rw [hm.backup_frame k hk] at hkv
    obtain ⟨ht, hv⟩ := hinv.backups_ok k v hkv
    exact ⟨ht, by rw [htempval k ht]; exact hv⟩

theorem zip_fst_val (l : List (String × Arg)) :
    (l.map (·.1)).zip (l.map (·.2.val)) = l.map fun e => (e.1, e.2.val) := by
  induction l with
  | nil => rfl
  | cons e rest ih => simp [ih]

/-- The function the student defined is applied to the instructor's values — provided its name is not one the
set-up of an execution rewrites. -/
theorem c06_call_applies (cc : CallCfg) (mc : MockCfg) (ov : String → Nat) (E : Env) (st : St) (f : String)
    (args : List Arg) (kwargs : List (String × Arg)) (target : Option String) (fv : Nat)
    (hkw : (kwargs.map (·.1)).Nodup)
    (hsound : ∀ a, a ∈ args ++ kwargs.map (·.2) → ItemSound cc E (startExecution mc ov st.data) a)
    (hf : NS.get? st.data (.name f) = some fv) (hfree : mockedValue mc ov (.name f) = none) :
    (callStep cc mc ov E st f args kwargs target).outcome =
      E.apply fv (args.map (·.val)) (kwargs.map fun e => (e.1, e.2.val)) := by
  have hp := c06_call_binding cc mc ov E st f args kwargs target hkw hsound
  show callOutcome cc mc ov E st f args kwargs = _
  unfold callOutcome
  have hp' : callPassed cc mc ov E st args kwargs = some (args.map (·.val) ++ kwargs.map (·.2.val)) := hp
  have hfd : NS.get? (callData cc mc ov st args kwargs) (.name f) = some fv := by
    unfold callData callPrepared
    rw [startExecution_get?, hfree]
    simp only
    rw [constructList_data_frame]
    · exact hf
    · intro hmem
      obtain ⟨e, he, hk⟩ := List.mem_map.mp hmem
      have := allKeys_temp args kwargs e he
      rw [hk] at this
      cases this
  rw [hfd, hp']
  have hlen : args.length = (args.map (·.val)).length := by simp
  have h1 : (args.map (·.val) ++ kwargs.map (·.2.val)).take args.length = args.map (·.val) := by
    rw [hlen, List.take_left]
  have h2 : (args.map (·.val) ++ kwargs.map (·.2.val)).drop args.length = kwargs.map (·.2.val) := by
    rw [hlen, List.drop_left]
  show E.apply fv (List.take args.length _) (List.zip _ (List.drop args.length _)) = _
  rw [h1, h2, zip_fst_val]

/-- The statement for any function name. -/
def C06_call_Full : Prop :=
  ∀ (E : Env) (ov : String → Nat) (st : St) (f : String) (fv : Nat), Inv st →
    NS.get? st.data (.name f) = some fv →
    (callStep callCfg mockCfg ov E st f [] [] none).outcome = E.apply fv [] []

/-- A student function called `compile` (value 7): the call applies the sandbox's replacement (value 9) instead. -/
theorem c06_override_shadow_counterexample : ¬ C06_call_Full := by
  intro h
  have := h ⟨fun _ => none, fun fv _ _ => .ret fv⟩ (fun _ => 9) ⟨[(.name "compile", 7)], [], []⟩ "compile" 7
    ⟨rfl, by intro k v hk; cases hk⟩ (by decide)
  revert this
  decide

/-! ## Sequences of calls -/

structure Call where
  f : String
  args : List Arg
  kwargs : List (String × Arg)
  target : Option String

def runCalls (cc : CallCfg) (mc : MockCfg) (ov : String → Nat) (E : Env) : St → List Call → St
  | st, [] => st
  | st, c :: cs => runCalls cc mc ov E (callStep cc mc ov E st c.f c.args c.kwargs c.target).st cs

/-- Any number of calls: a global that is neither a target nor a name executions rewrite keeps its value (and a
temporary's name is free again), and the invariant holds at the end. -/
theorem c06_calls_frame (cc : CallCfg) (mc : MockCfg) (ov : String → Nat) (E : Env) (hg : GoodCall cc) :
    ∀ (calls : List Call) (st : St), Inv st → (∀ c, c ∈ calls → (c.kwargs.map (·.1)).Nodup) →
      Inv (runCalls cc mc ov E st calls) ∧
      ∀ k, mockedValue mc ov k = none → (∀ c, c ∈ calls → c.target ≠ some (match k with | .name s => s | .temp .. => "")
          ∨ k.isTemp = true) →
        NS.get? (runCalls cc mc ov E st calls).data k = NS.get? st.data k := by
  intro calls
  induction calls with
  | nil => intro st hinv _; exact ⟨hinv, fun _ _ _ => rfl⟩
  | cons c rest ih =>
    intro st hinv hkw
    have hkw0 := hkw c (by simp)
    have hinv' := c06_call_inv cc mc ov E st c.f c.args c.kwargs c.target hg hinv hkw0
    obtain ⟨hI, hF⟩ := ih _ hinv' (fun c' hc' => hkw c' (by simp [hc']))
    refine ⟨hI, ?_⟩
    intro k hmv htgt
    simp only [runCalls]
    rw [hF k hmv (fun c' hc' => htgt c' (by simp [hc']))]
    rw [c06_call_namespace cc mc ov E st c.f c.args c.kwargs c.target hg hinv hkw0 k]
    have hbase : afterSetup mc ov k (NS.get? st.data k) = NS.get? st.data k := by
      unfold afterSetup; rw [hmv]
    have hne : ∀ t, c.target = some t → k ≠ .name t := by
      intro t ht hk
      rcases htgt c (by simp) with h | h
      · rw [hk] at h; exact h ht
      · rw [hk] at h; cases h
    cases (callStep cc mc ov E st c.f c.args c.kwargs c.target).outcome with
    | raise e => cases c.target <;> exact hbase
    | ret v =>
      cases htg : c.target with
      | none => exact hbase
      | some t => simp only [hne t htg, if_false]; exact hbase

/-! ## Non-vacuity -/

-- three replies queued, two asked for: sufficient, and the observations coincide
example : sufficient inputCfg (.inp "a" fun _ => .out "x" (.inp "b" fun _ => .done 0)) ["1", "2", "3"] 0 = true := by
  decide
example : (sandboxRun inputCfg (.inp "a" fun _ => .out "x" (.inp "b" fun _ => .done 0)) ["1", "2", "3"] 0).rest = ["3"] := by
  decide
-- a long argument goes through a temporary that shadows a student global, which is back afterwards
example :
    let st : St := ⟨[(.temp false 0 "", 5), (.name "f", 6)], [], []⟩
    let a : Arg := ⟨8, "", 300, true, none⟩
    let r := callStep callCfg mockCfg (fun _ => 9) ⟨fun _ => none, fun _ vs _ => .ret (vs.headD 0)⟩ st "f" [a] [] (some "_")
    r.outcome = .ret 8 ∧ NS.get? r.st.data (.temp false 0 "") = some 5 ∧ NS.get? r.st.data (.name "_") = some 8 := by
  decide

end Pedal.SandboxEquiv

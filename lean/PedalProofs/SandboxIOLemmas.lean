import PedalModel.SandboxIO
/-
Helper lemmas for C15: what `runEvents` leaves in the StringIO / returns from `input()`,
and the declarative ("ghost") reading of a history that the property theorems refer to.
-/
namespace Pedal.SandboxIO
open Pedal.Gen.SandboxIO

/-- Everything an execution writes to standard output: the text of every write and, when
`input` is served by pedal's queue/default (not by an installed callable), every prompt
followed by a newline (`print(prompt)`). -/
def written (callable : Bool) : List Event → Str
  | [] => []
  | .write t :: es => t ++ written callable es
  | .read p :: es => if callable then written callable es else p ++ ['\n'] ++ written callable es
  | .readKept p :: es => if callable then written callable es else p ++ ['\n'] ++ written callable es

/-- calls of `input`, through whatever reference (the property counts them alike) -/
def nReads : List Event → Nat
  | [] => 0
  | .write _ :: es => nReads es
  | .read _ :: es => nReads es + 1
  | .readKept _ :: es => nReads es + 1

/-- OBLIGATION ON THE GENERATED FILE: the mocked `input` resolves the sandbox's queue each time it
is called (read from the source and measured with kept references + a rebound queue).  A tracker
that captures the queue object when it is created fails here. -/
theorem lookup_at_call : queueLookup = Lookup.atCall := rfl

theorem keptIsLive_true : keptIsLive = true := by
  simp [keptIsLive, lookup_at_call]

/-- A call of `input` through a reference kept from an earlier execution is served exactly like a
call through the current one: same queue, same record, same echo. -/
theorem runEvents_readKept (src : InputSrc) (p : Str) (es : List Event) :
    runEvents src (.readKept p :: es) = runEvents src (.read p :: es) := by
  cases src <;> simp [runEvents, keptIsLive_true]

@[simp] theorem out_buf (t : Str) (r : Res) : (r.out t).buf = t ++ r.buf := rfl
@[simp] theorem out_src (t : Str) (r : Res) : (r.out t).src = r.src := rfl
@[simp] theorem out_got (t : Str) (r : Res) : (r.out t).got = r.got := rfl
@[simp] theorem inp_buf (v : Str × Bool) (r : Res) : (r.inp v).buf = r.buf := rfl
@[simp] theorem inp_src (v : Str × Bool) (r : Res) : (r.inp v).src = r.src := rfl
@[simp] theorem inp_got (v : Str × Bool) (r : Res) : (r.inp v).got = v :: r.got := rfl

theorem popQueue_nil : popQueue [] = none := rfl
theorem popQueue_cons (x : Str) (q : List Str) : popQueue (x :: q) = some (x, q) := rfl

/-- The execution's StringIO holds exactly what was written (whatever the queue holds). -/
theorem runEvents_buf (src : InputSrc) (tr : List Event) :
    (runEvents src tr).buf = written src.isCallable tr := by
  induction tr generalizing src with
  | nil => cases src <;> rfl
  | cons e es ih =>
    cases e with
    | write t => simp [runEvents, written, ih]
    | read p =>
      cases src with
      | callable f => simp [runEvents, written, InputSrc.isCallable, ih]
      | queue q =>
        cases q with
        | nil => simp [runEvents, popQueue_nil, written, InputSrc.isCallable, ih]
        | cons x q => simp [runEvents, popQueue_cons, written, InputSrc.isCallable, ih]
    | readKept p =>
      rw [runEvents_readKept]
      cases src with
      | callable f => simp [runEvents, written, InputSrc.isCallable, ih]
      | queue q =>
        cases q with
        | nil => simp [runEvents, popQueue_nil, written, InputSrc.isCallable, ih]
        | cons x q => simp [runEvents, popQueue_cons, written, InputSrc.isCallable, ih]

/-- An execution never changes the kind of the input source. -/
theorem runEvents_callable (f : Callable) (tr : List Event) :
    (runEvents (.callable f) tr).src = .callable f := by
  induction tr with
  | nil => rfl
  | cons e es ih => cases e <;> simp [runEvents, keptIsLive_true, ih]

/-- FIFO / once / default, for one execution starting with queue `q`. -/
theorem runEvents_queue (q : List Str) (tr : List Event) :
    (runEvents (.queue q) tr).src = .queue (q.drop (nReads tr)) ∧
    (runEvents (.queue q) tr).got.map Prod.fst =
      q.take (nReads tr) ++ List.replicate (nReads tr - q.length) defaultStr := by
  induction tr generalizing q with
  | nil => simp [runEvents, nReads]
  | cons e es ih =>
    cases e with
    | write t => simpa [runEvents, nReads] using ih q
    | read p =>
      cases q with
      | nil =>
        have h := ih []
        simp [runEvents, popQueue_nil, nReads] at h ⊢
        refine ⟨h.1, ?_⟩
        rw [h.2, List.replicate_succ]
      | cons x q =>
        have h := ih q
        simp [runEvents, popQueue_cons, nReads] at h ⊢
        exact ⟨h.1, h.2⟩
    | readKept p =>
      rw [runEvents_readKept]
      cases q with
      | nil =>
        have h := ih []
        simp [runEvents, popQueue_nil, nReads] at h ⊢
        refine ⟨h.1, ?_⟩
        rw [h.2, List.replicate_succ]
      | cons x q =>
        have h := ih q
        simp [runEvents, popQueue_cons, nReads] at h ⊢
        exact ⟨h.1, h.2⟩

/-- the flags on returned values: popped values are exactly the first `min n |q|`. -/
theorem runEvents_popped (q : List Str) (tr : List Event) :
    ((runEvents (.queue q) tr).got.filter (·.2)).map Prod.fst = q.take (nReads tr) := by
  induction tr generalizing q with
  | nil => simp [runEvents, nReads]
  | cons e es ih =>
    cases e with
    | write t => simpa [runEvents, nReads] using ih q
    | read p =>
      cases q with
      | nil => simpa [runEvents, popQueue_nil, nReads] using ih []
      | cons x q => simpa [runEvents, popQueue_cons, nReads] using ih q
    | readKept p =>
      rw [runEvents_readKept]
      cases q with
      | nil => simpa [runEvents, popQueue_nil, nReads] using ih []
      | cons x q => simpa [runEvents, popQueue_cons, nReads] using ih q

/-! ### declarative reading of a history -/

/-- The shares of the executions of a history: `since` — those after the last
`clear_output`, `all` — every execution, both in order. -/
structure Ghost where
  since : List Str
  all : List Str

def Ghost.init : Ghost := ⟨[], []⟩

def gstep (s : St) (g : Ghost) : Op → Ghost
  | .exec pre tr =>
    match execSrc s.inputs pre with
    | none => g          -- `inputs=` made set_input raise: nothing was executed
    | some src =>
      let w := written src.isCallable tr
      ⟨g.since ++ [w], g.all ++ [w]⟩
  | .clearOutput => ⟨[], g.all⟩
  | _ => g

def grun : St → Ghost → List Op → St × Ghost
  | s, g, [] => (s, g)
  | s, g, op :: ops => grun (step s op) (gstep s g op) ops

theorem grun_fst (s : St) (g : Ghost) (ops : List Op) : (grun s g ops).1 = run s ops := by
  induction ops generalizing s g with
  | nil => rfl
  | cons op ops ih => simp [grun, run, List.foldl_cons, ih]

theorem run_snoc (s : St) (ops : List Op) (op : Op) : run s (ops ++ [op]) = step (run s ops) op := by
  simp [run, List.foldl_append]

theorem step_exec_some {s : St} {pre : Option InputArg} {tr : List Event} {src : InputSrc}
    (h : execSrc s.inputs pre = some src) :
    step s (.exec pre tr) =
      appendOutput { s with inputs := (runEvents src tr).src } (runEvents src tr).buf
        ((runEvents src tr).got.map Prod.fst) := by
  simp [step, stepE, h]

/-- the entries the line view should hold for a list of shares -/
def viewOf (shares : List Str) : List Str :=
  (shares.filter fun w => !w.isEmpty).flatMap linesOf

theorem viewOf_snoc (l : List Str) (w : Str) :
    viewOf (l ++ [w]) = viewOf l ++ (if w.isEmpty then [] else linesOf w) := by
  unfold viewOf
  cases h : w.isEmpty <;> simp [List.filter_append, h]

structure Inv (s : St) (g : Ghost) : Prop where
  raw : s.raw = g.since.flatten
  lines : s.lines = viewOf g.since
  ctxs : s.contexts.map Ctx.output = g.all

theorem inv_init : Inv init Ghost.init := ⟨rfl, rfl, rfl⟩

/-- OBLIGATION ON THE GENERATED FILE.  Whatever shape the translated guard of `append_output`
has, on every observation (raw output so far empty or not, own text empty or not) it is
defined (nothing in it is `unknown`) and its value is "the own text is non-empty".  A guard on
the accumulated output, no guard, or an expression the translator could not read fails here. -/
theorem guard_sem (p o : Bool) : evalGuard appendGuard p o = some o := by
  cases p <;> cases o <;> rfl

theorem guardHolds_own (prior own : Str) : guardHolds prior own = !own.isEmpty := by
  simp [guardHolds, guard_sem]

/-- OBLIGATION ON THE GENERATED FILE: the default input was established (read or measured). -/
theorem default_known : defaultKnown = true := rfl

/-- OBLIGATION ON THE GENERATED FILE: the mocked `input` takes the FRONT of the queue. -/
theorem pop_front : popEnd = PopEnd.front := rfl

theorem inv_step (s : St) (g : Ghost) (op : Op) (h : Inv s g) : Inv (step s op) (gstep s g op) := by
  cases op with
  | exec pre tr =>
    cases hsrc : execSrc s.inputs pre with
    | none =>
      have e1 : step s (.exec pre tr) = s := by simp [step, stepE, hsrc]
      have e2 : gstep s g (.exec pre tr) = g := by simp [gstep, hsrc]
      rw [e1, e2]; exact h
    | some src =>
      have e1 : step s (.exec pre tr) =
          appendOutput { s with inputs := (runEvents src tr).src } (runEvents src tr).buf
            ((runEvents src tr).got.map Prod.fst) := by simp [step, stepE, hsrc]
      have e2 : gstep s g (.exec pre tr) =
          ⟨g.since ++ [written src.isCallable tr], g.all ++ [written src.isCallable tr]⟩ := by
        simp [gstep, hsrc]
      rw [e1, e2]
      refine ⟨?_, ?_, ?_⟩
      · simp [appendOutput, h.raw, runEvents_buf]
      · simp only [appendOutput, guardHolds_own, runEvents_buf, viewOf_snoc, h.lines]
        cases (written src.isCallable tr).isEmpty <;> simp
      · simp [appendOutput, h.ctxs, runEvents_buf]
  | clearOutput => exact ⟨rfl, rfl, h.ctxs⟩
  | setInput a c =>
    simp only [step, stepE, gstep]
    cases setInput s.inputs a c <;> exact ⟨h.raw, h.lines, h.ctxs⟩
  | queueInput vs =>
    simp only [step, stepE, gstep]
    cases setInput s.inputs (.many vs) false <;> exact ⟨h.raw, h.lines, h.ctxs⟩
  | clearInput =>
    simp only [step, stepE, gstep]
    cases setInput s.inputs .none true <;> exact ⟨h.raw, h.lines, h.ctxs⟩

theorem inv_grun (s : St) (g : Ghost) (ops : List Op) (h : Inv s g) :
    Inv (grun s g ops).1 (grun s g ops).2 := by
  induction ops generalizing s g with
  | nil => exact h
  | cons op ops ih => exact ih _ _ (inv_step s g op h)

end Pedal.SandboxIO

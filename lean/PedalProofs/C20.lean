import PedalProofs.FeedbackCoreLemmas
/-
C20 — each feedback call is recorded once, truthfully, and rendered from its fields.

All statements are about `Pedal.FeedbackCore.construct / handle / render / dispatch / Store.*`, the
functions the driver `driver_c20` executes.  They hold for every oracle `O` (what formatter methods and
`str.__format__` return or raise), every world and every keyword combination.
-/
namespace Pedal.FeedbackCore
open Pedal.Gen.FeedbackCore

/-! ### bookkeeping -/

/-- ids in the two lists are older than the next id to be handed out -/
def WorldOk (w : World) : Prop := ∀ i, i ∈ w.feedback ∨ i ∈ w.ignored → i < w.nextId

/-- how many times an id is recorded, over both lists -/
def recorded (w : World) (i : Nat) : Nat := w.feedback.count i + w.ignored.count i

theorem failWith_id (o : FbObj) (e : Exc) : (failWith o e).id = o.id := rfl

theorem evalHandle_id (O : Oracle) (F : String) (avail : List String) (s : Store) (o : FbObj) : (evalHandle O F avail s o).id = o.id := by
  unfold evalHandle
  dsimp only
  repeat' split
  all_goals rfl

theorem evalHandle_parent (O : Oracle) (F : String) (avail : List String) (s : Store) (o : FbObj) :
    (evalHandle O F avail s o).parent = o.parent := by
  unfold evalHandle
  dsimp only
  repeat' split
  all_goals rfl

/-- What `_handle_condition` leaves behind is one of exactly three shapes. -/
theorem evalHandle_cases (O : Oracle) (F : String) (avail : List String) (s : Store) (o : FbObj) :
    let r := evalHandle O F avail s o
    (r.met = true ∧ r.status = .active ∧ r.exc = none ∧ evalCond o = .ok true) ∨
    (r.met = false ∧ r.status = .inactive ∧ r.exc = none ∧ evalCond o = .ok false) ∨
    (r.met = false ∧ r.status = .error ∧ ∃ e, r.exc = some e) := by
  have hc : ∀ o' : FbObj, evalCond { o' with exc := none } = evalCond o' := fun _ => rfl
  unfold evalHandle
  dsimp only
  rw [hc]
  cases hcond : evalCond o with
  | error e => simp [failWith]
  | ok met =>
    dsimp only
    split
    · simp [failWith]
    · cases met with
      | true =>
        simp only [if_true]
        split
        · simp [failWith]
        · simp
      | false =>
        simp only [Bool.false_eq_true, if_false]
        split
        · simp [failWith]
        · simp
theorem record_lists (w : World) (o : FbObj) :
    ((record w o).feedback = if o.met then w.feedback ++ [o.id] else w.feedback) ∧
    ((record w o).ignored = if o.met then w.ignored else w.ignored ++ [o.id]) ∧
    (record w o).nextId = w.nextId := by
  unfold record
  cases o.met <;> simp

theorem handle_recorded (O : Oracle) (w : World) (o : FbObj) (i : Nat) :
    recorded (handle O w o).1 i = recorded w i + (if i = o.id then 1 else 0) := by
  unfold handle recorded
  obtain ⟨hf, hi, _⟩ := record_lists w (evalHandle O w.fmtId w.avail w.store o)
  dsimp only
  rw [hf, hi, evalHandle_id]
  by_cases h : i = o.id
  · subst h
    cases (evalHandle O w.fmtId w.avail w.store o).met <;> simp [List.count_append] <;> omega
  · have h' : ¬ (o.id = i) := fun e => h e.symm
    cases (evalHandle O w.fmtId w.avail w.store o).met <;> simp [List.count_append, h, h']

theorem initObj_id (w : World) (sp : FbSpec) : (initObj w sp).id = w.nextId := rfl

theorem fresh_not_recorded (w : World) (h : WorldOk w) : recorded w w.nextId = 0 := by
  unfold recorded
  have h1 : w.nextId ∉ w.feedback := fun hm => Nat.lt_irrefl _ (h _ (Or.inl hm))
  have h2 : w.nextId ∉ w.ignored := fun hm => Nat.lt_irrefl _ (h _ (Or.inr hm))
  simp [List.count_eq_zero_of_not_mem h1, List.count_eq_zero_of_not_mem h2]

/-- **Recorded exactly once.**  A (non-delayed) construction adds the new object exactly once over the
    two lists and changes no other object's count. -/
theorem c20_recorded_exactly_once (O : Oracle) (w : World) (sp : FbSpec) (hw : WorldOk w)
    (hd : sp.delay = false) :
    let r := construct O w sp
    r.2.obj.id = w.nextId ∧ recorded r.1 r.2.obj.id = 1 ∧ (∀ j, j ≠ r.2.obj.id → recorded r.1 j = recorded w j) := by
  unfold construct
  simp only [hd, Bool.false_eq_true, if_false]
  have hid : (handle O { w with nextId := w.nextId + 1 } (initObj w sp)).2.obj.id = w.nextId := by
    unfold handle; exact evalHandle_id _ _ _ _ _
  refine ⟨hid, ?_, ?_⟩
  · rw [hid, handle_recorded]
    have := fresh_not_recorded w hw
    unfold recorded at this ⊢
    simp [initObj_id, this]
  · intro j hj
    rw [hid] at hj
    rw [handle_recorded]
    simp [initObj_id, hj, recorded]

/-- A delayed construction records nothing (the object is pending) … -/
theorem c20_delayed_not_recorded (O : Oracle) (w : World) (sp : FbSpec) (hd : sp.delay = true) :
    let r := construct O w sp
    r.1.feedback = w.feedback ∧ r.1.ignored = w.ignored ∧ r.2.obj.status = .delayed ∧ r.2.obj.met = false ∧
      r.2.raised = none := by
  unfold construct
  simp [hd, initObj]

/-- … and its later `_handle_condition()` records it exactly once. -/
theorem c20_delayed_recorded_on_handle (O : Oracle) (w : World) (o : FbObj) :
    recorded (handle O w o).1 o.id = recorded w o.id + 1 ∧
    ∀ j, j ≠ o.id → recorded (handle O w o).1 j = recorded w j := by
  refine ⟨by rw [handle_recorded]; simp, fun j hj => by rw [handle_recorded]; simp [hj]⟩

theorem construct_ok (O : Oracle) (w : World) (sp : FbSpec) (hw : WorldOk w) : WorldOk (construct O w sp).1 := by
  unfold construct
  split
  · intro i hi; exact Nat.lt_succ_of_lt (hw i hi)
  · intro i hi
    obtain ⟨hf, hg, hn⟩ := record_lists { w with nextId := w.nextId + 1 } (evalHandle O w.fmtId w.avail w.store (initObj w sp))
    unfold handle at hi ⊢
    dsimp only at hi ⊢
    rw [hn]
    rw [hf, hg, evalHandle_id] at hi
    show i < w.nextId + 1
    by_cases hm : (evalHandle O w.fmtId w.avail w.store (initObj w sp)).met = true
    · simp only [hm, if_true, List.mem_append, List.mem_singleton, initObj_id] at hi
      rcases hi with (hi | hi) | hi
      · exact Nat.lt_succ_of_lt (hw i (Or.inl hi))
      · omega
      · exact Nat.lt_succ_of_lt (hw i (Or.inr hi))
    · have hm' : (evalHandle O w.fmtId w.avail w.store (initObj w sp)).met = false := by simpa using hm
      simp only [hm', Bool.false_eq_true, if_false, List.mem_append, List.mem_singleton, initObj_id] at hi
      rcases hi with hi | hi | hi
      · exact Nat.lt_succ_of_lt (hw i (Or.inl hi))
      · exact Nat.lt_succ_of_lt (hw i (Or.inr hi))
      · omega

/-- running a whole script of (non-delayed) feedback calls -/
def constructAll (O : Oracle) (w : World) (sps : List FbSpec) : World :=
  sps.foldl (fun w sp => (construct O w sp).1) w

theorem construct_nextId (O : Oracle) (w : World) (sp : FbSpec) : (construct O w sp).1.nextId = w.nextId + 1 := by
  unfold construct
  split
  · rfl
  · exact (record_lists _ _).2.2

/-- **History form.**  After any sequence of non-delayed feedback calls on a fresh report, every object
    created so far is recorded exactly once (and nothing else is recorded). -/
theorem c20_recorded_exactly_once_history (O : Oracle) (sps : List FbSpec) (hd : ∀ sp ∈ sps, sp.delay = false) :
    ∀ (w : World), WorldOk w → (∀ i, i < w.nextId → recorded w i = 1) →
      let w' := constructAll O w sps
      WorldOk w' ∧ (∀ i, i < w'.nextId → recorded w' i = 1) ∧ (∀ i, w'.nextId ≤ i → recorded w' i = 0) := by
  induction sps with
  | nil =>
    intro w hw h1
    refine ⟨hw, h1, ?_⟩
    intro i hi
    unfold recorded
    have h1 : i ∉ w.feedback := fun hm => Nat.not_lt.mpr hi (hw _ (Or.inl hm))
    have h2 : i ∉ w.ignored := fun hm => Nat.not_lt.mpr hi (hw _ (Or.inr hm))
    simp [constructAll, List.count_eq_zero_of_not_mem h1, List.count_eq_zero_of_not_mem h2]
  | cons sp rest ih =>
    intro w hw h1
    have hdel := hd sp (List.mem_cons_self ..)
    obtain ⟨hid, hone, hoth⟩ := c20_recorded_exactly_once O w sp hw hdel
    apply ih (fun sp' h => hd sp' (List.mem_cons_of_mem _ h)) (construct O w sp).1 (construct_ok O w sp hw)
    intro i hi
    rw [construct_nextId] at hi
    by_cases h : i = w.nextId
    · rw [h, ← hid]; exact hone
    · rw [hoth i (by rw [hid]; exact h)]
      exact h1 i (by omega)

/-! ### the right list, the truth value, the error path -/

/-- **In the triggered list iff `bool(feedback)`; in the untriggered list iff not.** -/
theorem c20_right_list_iff_condition (O : Oracle) (w : World) (sp : FbSpec) (hw : WorldOk w)
    (hd : sp.delay = false) :
    let r := construct O w sp
    (r.2.obj.id ∈ r.1.feedback ↔ r.2.obj.met = true) ∧ (r.2.obj.id ∈ r.1.ignored ↔ r.2.obj.met = false) := by
  unfold construct
  simp only [hd, Bool.false_eq_true, if_false]
  unfold handle
  dsimp only
  obtain ⟨hf, hg, _⟩ := record_lists { w with nextId := w.nextId + 1 } (evalHandle O w.fmtId w.avail w.store (initObj w sp))
  rw [hf, hg, evalHandle_id, initObj_id]
  have h1 : w.nextId ∉ w.feedback := fun hm => Nat.lt_irrefl _ (hw _ (Or.inl hm))
  have h2 : w.nextId ∉ w.ignored := fun hm => Nat.lt_irrefl _ (hw _ (Or.inr hm))
  cases (evalHandle O w.fmtId w.avail w.store (initObj w sp)).met <;> simp [h1, h2]

/-- `evalCond` on the freshly initialised object is the condition outcome of the call. -/
theorem evalCond_init (w : World) (sp : FbSpec) :
    evalCond (initObj w sp) = match sp.cond with
      | .raises e => .error e
      | _ => .ok (condHeld sp) := by
  unfold evalCond condHeld initObj
  cases sp.cond <;> rfl

/-- **`bool(feedback)` is the outcome**: when nothing raised, the truth value is exactly whether the
    condition held; in general it is "held and nothing raised". -/
theorem c20_bool_is_outcome (O : Oracle) (w : World) (sp : FbSpec) (hd : sp.delay = false) :
    let r := construct O w sp
    (r.2.raised = none → r.2.obj.met = condHeld sp) ∧
    (r.2.obj.met = true ↔ condHeld sp = true ∧ r.2.raised = none) := by
  unfold construct
  simp only [hd, Bool.false_eq_true, if_false]
  unfold handle
  dsimp only
  have hc := evalCond_init w sp
  rcases evalHandle_cases O w.fmtId w.avail w.store (initObj w sp) with ⟨hm, _, he, hcond⟩ | ⟨hm, _, he, hcond⟩ | ⟨hm, _, e, he⟩
  · rw [hm, he]
    rw [hcond] at hc
    have : condHeld sp = true := by
      cases hs : sp.cond <;> rw [hs] at hc <;> first | (injection hc with hc; exact hc.symm) | cases hc
    simp [this]
  · rw [hm, he]
    rw [hcond] at hc
    have : condHeld sp = false := by
      cases hs : sp.cond <;> rw [hs] at hc <;> first | (injection hc with hc; exact hc.symm) | cases hc
    simp [this]
  · rw [hm, he]; simp

/-- **Error path.**  Whenever the constructor raises, the object sits in the untriggered list, not in the
    triggered one, with status `error`, truth value `False`, and the exception that reaches the caller
    is the one stored on the object; when it does not raise the status is active/inactive. -/
theorem c20_error_path (O : Oracle) (w : World) (sp : FbSpec) (hw : WorldOk w) (hd : sp.delay = false) :
    let r := construct O w sp
    (∀ e, r.2.raised = some e →
        r.2.obj.status = .error ∧ r.2.obj.met = false ∧ r.2.obj.exc = some e ∧
        r.2.obj.id ∈ r.1.ignored ∧ r.2.obj.id ∉ r.1.feedback) ∧
    (r.2.raised = none → (r.2.obj.status = .active ∧ r.2.obj.met = true) ∨
                          (r.2.obj.status = .inactive ∧ r.2.obj.met = false)) := by
  have hl := c20_right_list_iff_condition O w sp hw hd
  revert hl
  unfold construct
  simp only [hd, Bool.false_eq_true, if_false]
  unfold handle
  dsimp only
  intro hl
  rcases evalHandle_cases O w.fmtId w.avail w.store (initObj w sp) with ⟨hm, hs, he, _⟩ | ⟨hm, hs, he, _⟩ | ⟨hm, hs, e, he⟩
  · refine ⟨fun e h => (by rw [he] at h; cases h), fun _ => Or.inl ⟨hs, hm⟩⟩
  · refine ⟨fun e h => (by rw [he] at h; cases h), fun _ => Or.inr ⟨hs, hm⟩⟩
  · refine ⟨fun e' h => ⟨hs, hm, h, hl.2.mpr hm, fun hf => ?_⟩, fun h => (by rw [he] at h; cases h)⟩
    have := hl.1.mp hf
    rw [hm] at this; cases this

/-- A raising condition takes the error path with that very exception. -/
theorem c20_condition_raises (O : Oracle) (w : World) (sp : FbSpec) (hd : sp.delay = false) (e : Exc)
    (hc : sp.cond = .raises e) : (construct O w sp).2.raised = some e := by
  unfold construct
  simp only [hd, Bool.false_eq_true, if_false]
  unfold handle evalHandle
  have : evalCond { initObj w sp with exc := none } = .error e := by
    unfold evalCond initObj; simp [hc]
  dsimp only
  rw [this]
  rfl

/-- A raising `_get_message` on a triggered feedback (justification given or defaulted, so that step
    cannot raise) takes the error path with that exception. -/
theorem c20_message_raises (O : Oracle) (w : World) (sp : FbSpec) (hd : sp.delay = false) (e : Exc)
    (hheld : condHeld sp = true) (hm : sp.msg = .raises e)
    (hj : (initObj w sp).justificationTemplate w.store = none ∨
          ((initObj w sp).justification w.store).isSome = true) :
    (construct O w sp).2.raised = some e := by
  unfold construct
  simp only [hd, Bool.false_eq_true, if_false]
  unfold handle evalHandle
  dsimp only
  have hc : evalCond { initObj w sp with exc := none } = .ok true := by
    have := evalCond_init w sp
    rw [hheld] at this
    cases hs : sp.cond <;> rw [hs] at this
    · exact this
    · exact this
    · unfold condHeld at hheld; rw [hs] at hheld; cases hheld
  rw [hc]
  dsimp only
  have hjust : ∃ j, getJustification O w.fmtId w.avail w.store
      { initObj w sp with exc := none, met := true } true = .ok j := by
    unfold getJustification
    have h1 : FbObj.justification w.store { initObj w sp with exc := none, met := true }
        = (initObj w sp).justification w.store := rfl
    have h2 : FbObj.justificationTemplate w.store { initObj w sp with exc := none, met := true }
        = (initObj w sp).justificationTemplate w.store := rfl
    rw [h1, h2]
    cases hjj : (initObj w sp).justification w.store with
    | some j => exact ⟨_, rfl⟩
    | none =>
      rcases hj with hj | hj
      · rw [hj]; exact ⟨_, rfl⟩
      · rw [hjj] at hj; cases hj
  obtain ⟨j, hj'⟩ := hjust
  rw [hj']
  dsimp only
  have : getMessage O w.fmtId w.avail w.store
      { initObj w sp with exc := none, met := true, justificationI := some j } = .error e := by
    unfold getMessage
    show (match sp.msg with | .default => _ | .returns m => _ | .raises e => _) = _
    rw [hm]
  simp only [if_true]
  rw [this]
  rfl

/-! ### the message -/

theorem defaultFeedbackMessage_isSome : defaultFeedbackMessage.isSome = true := by decide

/-- `getMessage` only reads these attributes. -/
theorem getMessage_congr (O : Oracle) (F : String) (avail : List String) (s : Store) (o o' : FbObj)
    (h0 : o'.cls = o.cls) (h1 : o'.messageI = o.messageI) (h2 : o'.messageTemplateI = o.messageTemplateI)
    (h3 : o'.fields = o.fields) (h4 : o'.msg = o.msg) : getMessage O F avail s o' = getMessage O F avail s o := by
  unfold getMessage defaultMessage FbObj.message FbObj.messageTemplate
  rw [h0, h1, h2, h3, h4]

theorem getElseMessage_congr (O : Oracle) (F : String) (avail : List String) (s : Store) (o o' : FbObj)
    (h0 : o'.cls = o.cls) (h1 : o'.elseMessageI = o.elseMessageI)
    (h2 : o'.elseMessageTemplateI = o.elseMessageTemplateI) (h3 : o'.fields = o.fields) :
    getElseMessage O F avail s o' = getElseMessage O F avail s o := by
  unfold getElseMessage FbObj.elseMessage FbObj.elseMessageTemplate
  rw [h0, h1, h2, h3]

/-- What the message of a triggered feedback is, in terms of the object `__init__` set up. -/
theorem triggered_message (O : Oracle) (w : World) (sp : FbSpec) (hd : sp.delay = false)
    (hmet : (construct O w sp).2.obj.met = true) :
    getMessage O w.fmtId w.avail w.store (initObj w sp) = .ok ((construct O w sp).2.obj.message w.store) := by
  revert hmet
  unfold construct
  simp only [hd, Bool.false_eq_true, if_false]
  unfold handle evalHandle
  dsimp only
  split
  · intro h; cases h
  · rename_i met hcond
    split
    · intro h; cases h
    · rename_i j hj
      cases met with
      | false =>
        simp only [Bool.false_eq_true, if_false]
        split
        · intro h; cases h
        · intro h; cases h
      | true =>
        simp only [if_true]
        have hcg := getMessage_congr O w.fmtId w.avail w.store (initObj w sp)
          { initObj w sp with exc := none, met := true, justificationI := some j } rfl rfl rfl rfl rfl
        rw [hcg]
        split
        · intro h; cases h
        · rename_i m hm; intro _; exact hm

/-- **Triggered ⇒ there is a message** (the invariant `HasMessages` that C02 assumes), unless an
    instructor-written `_get_message` itself returns `None`. -/
theorem c20_triggered_has_message (O : Oracle) (w : World) (sp : FbSpec) (hd : sp.delay = false)
    (hcustom : sp.msg ≠ .returns none)
    (hmet : (construct O w sp).2.obj.met = true) :
    ((construct O w sp).2.obj.message w.store).isSome = true := by
  have h := triggered_message O w sp hd hmet
  revert h
  generalize (construct O w sp).2.obj.message w.store = m
  unfold getMessage defaultMessage
  have hmsg : (initObj w sp).msg = sp.msg := rfl
  rw [hmsg]
  cases hm : sp.msg with
  | raises e => intro h; cases h
  | returns x =>
    intro h; injection h with h; subst h
    cases x with
    | none => exact absurd hm hcustom
    | some _ => rfl
  | default =>
    dsimp only
    split
    · intro h; injection h with h; subst h; rfl
    · split
      · split
        · intro h; injection h with h; subst h; rfl
        · intro h; cases h
      · intro h; injection h with h; subst h; exact defaultFeedbackMessage_isSome

theorem init_message (w : World) (sp : FbSpec) :
    (initObj w sp).message w.store = (sp.message <|> classStr w.store sp.cls "message") := by
  unfold FbObj.message instOr initObj
  cases sp.message <;> rfl

theorem init_messageTemplate (w : World) (sp : FbSpec) :
    (initObj w sp).messageTemplate w.store = (sp.messageTemplate <|> classTmpl w.store sp.cls "message_template") := rfl

/-- **Message derivation**: explicit message (keyword, else class attribute) > template rendered over
    the fields through the formatter dispatch > the default constant. -/
theorem c20_message_derivation (O : Oracle) (w : World) (sp : FbSpec) (hd : sp.delay = false)
    (hdef : sp.msg = .default) (hmet : (construct O w sp).2.obj.met = true) :
    let explicit := sp.message <|> classStr w.store sp.cls "message"
    let template := sp.messageTemplate <|> classTmpl w.store sp.cls "message_template"
    let got := (construct O w sp).2.obj.message w.store
    (∀ m, explicit = some m → got = some m) ∧
    (explicit = none → ∀ t, template = some t →
        render O w.fmtId w.avail (initObj w sp).fields t = .ok (got.getD "") ∧ got.isSome = true) ∧
    (explicit = none → template = none → got = defaultFeedbackMessage) := by
  have h := triggered_message O w sp hd hmet
  revert h
  generalize (construct O w sp).2.obj.message w.store = got
  unfold getMessage defaultMessage
  have hmsg : (initObj w sp).msg = sp.msg := rfl
  rw [hmsg, hdef, init_message, init_messageTemplate]
  dsimp only
  intro h
  refine ⟨?_, ?_, ?_⟩
  · intro m he; rw [he] at h; injection h with h; exact h.symm
  · intro he t ht
    rw [he, ht] at h
    dsimp only at h
    split at h
    · rename_i r hr; injection h with h; subst h; exact ⟨hr, rfl⟩
    · cases h
  · intro he ht
    rw [he, ht] at h
    injection h with h; exact h.symm

/-- An untriggered feedback delivers its else-message (explicit > template > default `None`). -/
theorem c20_untriggered_message (O : Oracle) (w : World) (sp : FbSpec) (hd : sp.delay = false)
    (hraise : (construct O w sp).2.raised = none) (hmet : (construct O w sp).2.obj.met = false) :
    (construct O w sp).2.obj.message w.store = (construct O w sp).2.obj.elseMessage w.store ∧
    getElseMessage O w.fmtId w.avail w.store (initObj w sp) = .ok ((construct O w sp).2.obj.elseMessage w.store) := by
  revert hraise hmet
  unfold construct
  simp only [hd, Bool.false_eq_true, if_false]
  unfold handle evalHandle
  dsimp only
  split
  · intro h; cases h
  · rename_i met hcond
    split
    · intro h; cases h
    · rename_i j hj
      cases met with
      | true =>
        simp only [if_true]
        split
        · intro h; cases h
        · intro _ h; cases h
      | false =>
        simp only [Bool.false_eq_true, if_false]
        have hcg := getElseMessage_congr O w.fmtId w.avail w.store (initObj w sp)
          { initObj w sp with exc := none, met := false, justificationI := some j } rfl rfl rfl rfl
        rw [hcg]
        split
        · intro h; cases h
        · rename_i em hem
          intro _ _
          exact ⟨rfl, hem⟩

/-! ### format dispatch -/

/-- **Dispatch is exact on the generated table**: the spec `f` selects formatter `f` (no earlier entry
    of `Formatter.available` is a suffix of it) and nothing of the spec is left over. -/
theorem c20_format_dispatch_exact : ∀ f ∈ available, dispatch available f = some (f, "") := by decide

/-- every entry of `available` names a callable method of `Formatter` -/
theorem c20_available_callable : availableCallable = available := by decide

/-- no entry of the list is a suffix of a LATER entry -/
def noEarlierSuffix : List String → Bool
  | [] => true
  | a :: rest => rest.all (fun b => !(endsWith b a)) && noEarlierSuffix rest

theorem available_noEarlierSuffix : noEarlierSuffix available = true := by decide

theorem find_longest (spec : String) : ∀ (l : List String), noEarlierSuffix l = true → ∀ n,
    l.find? (fun n => endsWith spec n) = some n →
    ∀ f ∈ l, endsWith spec f = true → f.toList <:+ n.toList := by
  intro l
  induction l with
  | nil => intro _ n h; cases h
  | cons a rest ih =>
    intro hno n hfind f hf hsuf
    simp only [noEarlierSuffix, Bool.and_eq_true, List.all_eq_true] at hno
    rw [List.find?_cons] at hfind
    cases ha : endsWith spec a with
    | true =>
      rw [ha] at hfind
      injection hfind with hfind; subst hfind
      rcases List.mem_cons.mp hf with rfl | hf
      · exact List.suffix_refl _
      · have h1 : a.toList <:+ spec.toList := List.isSuffixOf_iff_suffix.mp ha
        have h2 : f.toList <:+ spec.toList := List.isSuffixOf_iff_suffix.mp hsuf
        rcases List.suffix_or_suffix_of_suffix h1 h2 with h | h
        · have := hno.1 f hf
          have hc : endsWith f a = true := List.isSuffixOf_iff_suffix.mpr h
          rw [hc] at this; cases this
        · exact h
    | false =>
      rw [ha] at hfind
      rcases List.mem_cons.mp hf with rfl | hf
      · rw [ha] at hsuf; cases hsuf
      · exact ih hno.2 n hfind f hf hsuf

/-- **For every spec** the dispatch picks a listed formatter the spec ends with, passes on exactly the
    chomped remainder, and the pick is the most specific one: every other listed name the spec ends
    with is a suffix of the chosen name (`"…filename"` selects `filename`, not `name`). -/
theorem c20_format_dispatch_longest (spec n rest : String) (h : dispatch available spec = some (n, rest)) :
    n ∈ available ∧ endsWith spec n = true ∧ rest = chomp spec n ∧
    ∀ f ∈ available, endsWith spec f = true → f.toList <:+ n.toList := by
  unfold dispatch at h
  cases hf : available.find? (fun n => endsWith spec n) with
  | none => rw [hf] at h; cases h
  | some m =>
    rw [hf] at h
    simp only [Option.map_some, Option.some.injEq, Prod.mk.injEq] at h
    obtain ⟨rfl, rfl⟩ := h
    exact ⟨List.mem_of_find?_eq_some hf, List.find?_some hf, rfl,
      find_longest spec available available_noEarlierSuffix m hf⟩

/-- no listed formatter matches ⇒ the value is formatted plainly with the whole spec -/
theorem c20_format_plain (O : Oracle) (F : String) (spec : String) (v : FVal) (acc : String)
    (h : ∀ f ∈ available, endsWith spec f = false) :
    renderField O F available v acc "" spec = O (.plain v acc spec) := by
  unfold renderField primOf dispatch
  have : available.find? (fun n => endsWith spec n) = none := by
    apply List.find?_eq_none.mpr
    intro f hf; simp [h f hf]
  simp [this]

/-- a matching spec calls exactly the selected formatter method on the field's value -/
theorem c20_format_applies (O : Oracle) (F : String) (avail : List String) (spec n rest : String) (v : FVal) (acc : String)
    (h : dispatch avail spec = some (n, rest)) :
    renderField O F avail v acc "" spec = O (.fmt F n v acc rest) := by
  unfold renderField primOf
  simp [h]

/-! ### override / restore -/

/-- **Every overridden class attribute is restored**, for every class hierarchy (`mro` arbitrary), every
    history of `override(...)` / `clear()` calls (including overrides that fail half-way with an
    AttributeError), and whatever order the final clear visits the registered classes in:
    every class dictionary — hence every attribute lookup — is what it was at the start. -/
theorem c20_override_restored (s0 : Store) (hp : s0.Pristine) (h : List Store.Op) (order : List String)
    (hcover : ∀ c ∈ (s0.runAll h).overridden, c ∈ order) :
    ((s0.runAll h).clearIn order).own = s0.own ∧
    (∀ c a, ((s0.runAll h).clearIn order).lookup c a = s0.lookup c a) ∧
    ((s0.runAll h).clearIn order).Pristine := by
  obtain ⟨ho, hm, hpr⟩ := Store.clearIn_restores s0 (s0.runAll h) (Store.runAll_inv s0 hp h) order hcover
  exact ⟨ho, fun c a => Store.lookup_congr _ _ ho hm c a, hpr⟩

/-- the report's own `clear()` (visiting `overridden_feedbacks` itself) is one such order -/
theorem c20_clear_restores (s0 : Store) (hp : s0.Pristine) (h : List Store.Op) (c a : String) :
    (s0.runAll (h ++ [.clear])).lookup c a = s0.lookup c a := by
  have := (c20_override_restored s0 hp h (s0.runAll h).overridden (fun _ hc => hc)).2.1 c a
  simpa [Store.runAll, Store.step, Store.clear] using this

/-! ### non-vacuity -/

def exStore : Store :=
  { mro := fun c => if c = "B" then ["B", "A"] else [c]
    own := fun c a => if c = "A" ∧ a = "title" then some (.str "T") else none
    backups := fun _ => none
    overridden := [] }

example : exStore.Pristine := ⟨fun _ => rfl, rfl⟩

/-- base then subclass overridden, then cleared: both lookups are back (the pinned tree leaked here) -/
example : let s := exStore.runAll [.override "A" [("title", .str "X")], .override "B" [("title", .str "Y")]]
    s.lookup "A" "title" = some (.str "X") ∧ s.lookup "B" "title" = some (.str "Y") ∧
    s.clear.lookup "A" "title" = some (.str "T") ∧ s.clear.lookup "B" "title" = some (.str "T") := by decide

def exWorld : World :=
  { store := exStore, fmtId := "default", avail := available, feedback := [], ignored := [], groups := [], childLog := [], nextId := 0 }

def exOracle : Oracle := fun _ => .ok "v"
def keyError : Exc := ⟨"KeyError"⟩

example : (construct exOracle exWorld { cls := "A" }).1.feedback = [0] := by decide
example : (construct exOracle exWorld { cls := "A", activate := false }).1.ignored = [0] := by decide
example : (construct exOracle exWorld { cls := "A", cond := .raises keyError }).2.raised = some keyError := by decide
def exSpec : FbSpec :=
  { cls := "A", messageTemplate := some [.lit "a", .field "x" "" "" "name"], kwargs := [("x", "t0")] }
example : (construct exOracle exWorld exSpec).2.obj.message exStore = some "av" := by decide
example : (construct exOracle exWorld { cls := "A", messageTemplate := some [.field "nope" "" "" ""] }).2.raised
    = some keyError := by decide
example : dispatch available "filename" = some ("filename", "") := by decide
example : dispatch available ">8:name" = some ("name", ">8") := by decide

end Pedal.FeedbackCore

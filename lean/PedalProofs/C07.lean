import PedalProofs.AssertionsLemmas
/-
C07 — runtime assertions pass only when the asserted relation really holds.

For every assertion `a` whose `condition` the translator understands, `c07_<a>` states
`Correct a cond_a`: for ALL operands (values, identities, raw or proxied), parameters and
abstract `re.search`/`str`/output functions,

    outcome wrapperGuard cond_a c = specOutcome c (rel_a c)

i.e. failing feedback if an operand is an error, silent exactly when the hand-written relation
`rel_a` (PedalModel/AssertionsSpec.lean — it never mentions proxies) evaluates to True, failing
feedback when it is False or cannot be evaluated.  `cond_a` and `wrapperGuard` are regenerated
from the tree under test on every run.

The proofs are independent of the SHAPE of `cond_a`: each one unfolds the evaluator on whatever was
generated, splits on the observations the relation depends on (is an operand a proxy; the answer
of the underlying Python relation) and computes.  A condition that means the same - however it is
written - is accepted; one that means something else leaves a goal that cannot be closed.
-/
set_option linter.unusedSimpArgs false

namespace Pedal.Assertions
open Pedal.Gen.Assertions

/-- unfold `eval` on the generated condition, whatever its shape -/
macro "c07_unfold" "[" ls:Lean.Parser.Tactic.simpLemma,* "]" : tactic =>
  `(tactic| simp only [eval, evalCmp, Ctx.side, Bool.or_false, Bool.false_or, Bool.or_true, Bool.true_or,
      V.unwrapped_v, V.unwrapped_px, V.fresh_v, V.fresh_px, V.ofBool_v, V.ofBool_px, truthy_bool,
      beq_exact_exact, beq_delta_exact, beq_delta_delta, ↓reduceIte, Bool.false_eq_true, Bool.not_true,
      Bool.not_false, vIn_unwrapped, vIn_fresh, vIn_raw, pyIs_raw, pyIs_unwrapped_unwrapped, pyIs_unwrapped_raw, pyIs_raw_unwrapped, sameObject_unwrapped_left,
      sameObject_unwrapped_right, $ls,*])

macro "c07_crunch" : tactic =>
  `(tactic| (simp [Except.map, ord4Test, V.ofBool, V.fresh, truthy, evalOutcome, relOutcome, notR, sameObject, pyIs,
      V.unwrapped] <;> try rfl))

/-- Unfold the condition and run `t`; when that does not go through, first split on whether each
    operand is a proxy (needed exactly by the conditions that look at `is_sandboxed`). -/
macro "c07_by" c:ident "[" ls:Lean.Parser.Tactic.simpLemma,* "]" " => " t:tacticSeq : tactic =>
  `(tactic| first
      | ((c07_unfold [$ls,*] <;> ($t)); done)
      | (cases hpl : ($c).left.px <;> cases hpr : ($c).right.px <;> c07_unfold [hpl, hpr, $ls,*] <;> ($t)))

theorem c07_assert_less : Correct "assert_less" cond_assert_less := by
  refine correct_of_noErr _ _ _ rfl fun c hl hr => ?_
  c07_by c [cond_assert_less, hl, hr, cmpRel] =>
  cases h : pyCmp c.left.v c.right.v with
  | error e => cases e <;> c07_crunch
  | ok o => cases o <;> c07_crunch

theorem c07_assert_less_equal : Correct "assert_less_equal" cond_assert_less_equal := by
  refine correct_of_noErr _ _ _ rfl fun c hl hr => ?_
  c07_by c [cond_assert_less_equal, hl, hr, cmpRel] =>
  cases h : pyCmp c.left.v c.right.v with
  | error e => cases e <;> c07_crunch
  | ok o => cases o <;> c07_crunch

theorem c07_assert_greater : Correct "assert_greater" cond_assert_greater := by
  refine correct_of_noErr _ _ _ rfl fun c hl hr => ?_
  c07_by c [cond_assert_greater, hl, hr, cmpRel] =>
  cases h : pyCmp c.left.v c.right.v with
  | error e => cases e <;> c07_crunch
  | ok o => cases o <;> c07_crunch

theorem c07_assert_greater_equal : Correct "assert_greater_equal" cond_assert_greater_equal := by
  refine correct_of_noErr _ _ _ rfl fun c hl hr => ?_
  c07_by c [cond_assert_greater_equal, hl, hr, cmpRel] =>
  cases h : pyCmp c.left.v c.right.v with
  | error e => cases e <;> c07_crunch
  | ok o => cases o <;> c07_crunch

theorem c07_assert_in : Correct "assert_in" cond_assert_in := by
  refine correct_of_noErr _ _ _ rfl fun c hl hr => ?_
  c07_by c [cond_assert_in, hl, hr] =>
  cases h : pyIn c.left.v c.right.v with
  | error e => cases e <;> c07_crunch
  | ok o => cases o <;> c07_crunch

theorem c07_assert_not_in : Correct "assert_not_in" cond_assert_not_in := by
  refine correct_of_noErr _ _ _ rfl fun c hl hr => ?_
  c07_by c [cond_assert_not_in, hl, hr] =>
  cases h : pyIn c.left.v c.right.v with
  | error e => cases e <;> c07_crunch
  | ok o => cases o <;> c07_crunch

theorem c07_assert_contains_subset : Correct "assert_contains_subset" cond_assert_contains_subset := by
  refine correct_of_noErr _ _ _ rfl fun c hl hr => ?_
  c07_by c [cond_assert_contains_subset, hl, hr] =>
  cases h : pyAllIn c.left.v c.right.v with
  | error e => cases e <;> c07_crunch
  | ok o => cases o <;> c07_crunch

theorem c07_assert_not_contains_subset : Correct "assert_not_contains_subset" cond_assert_not_contains_subset := by
  refine correct_of_noErr _ _ _ rfl fun c hl hr => ?_
  c07_by c [cond_assert_not_contains_subset, hl, hr] =>
  cases h : pyAllIn c.left.v c.right.v with
  | error e => cases e <;> c07_crunch
  | ok o => cases o <;> c07_crunch

theorem c07_assert_is : Correct "assert_is" cond_assert_is := by
  refine correct_of_noErr _ _ _ rfl fun c hl hr => ?_
  c07_by c [cond_assert_is, hl, hr] =>
  cases h : sameObject c.left c.right <;> c07_crunch

theorem c07_assert_is_not : Correct "assert_is_not" cond_assert_is_not := by
  refine correct_of_noErr _ _ _ rfl fun c hl hr => ?_
  c07_by c [cond_assert_is_not, hl, hr] =>
  cases h : sameObject c.left c.right <;> c07_crunch

theorem c07_assert_is_none : Correct "assert_is_none" cond_assert_is_none := by
  refine correct_of_noErr _ _ _ rfl fun c hl hr => ?_
  c07_by c [cond_assert_is_none, hl, hr, pyIs_none_right, pyIs_none_left, pyIs_none_right_unwrapped, pyIs_none_left_unwrapped] =>
  cases h : isNoneVal c.left.v <;> c07_crunch

theorem c07_assert_is_not_none : Correct "assert_is_not_none" cond_assert_is_not_none := by
  refine correct_of_noErr _ _ _ rfl fun c hl hr => ?_
  c07_by c [cond_assert_is_not_none, hl, hr, pyIs_none_right, pyIs_none_left, pyIs_none_right_unwrapped, pyIs_none_left_unwrapped] =>
  cases h : isNoneVal c.left.v <;> c07_crunch

theorem c07_assert_true : Correct "assert_true" cond_assert_true := by
  refine correct_of_noErr _ _ _ rfl fun c hl hr => ?_
  c07_by c [cond_assert_true, hl, hr] =>
  cases h : truthy c.left.v <;> c07_crunch

theorem c07_assert_false : Correct "assert_false" cond_assert_false := by
  refine correct_of_noErr _ _ _ rfl fun c hl hr => ?_
  c07_by c [cond_assert_false, hl, hr] =>
  cases h : truthy c.left.v <;> c07_crunch

theorem c07_assert_length_equal : Correct "assert_length_equal" cond_assert_length_equal := by
  refine correct_of_noErr _ _ _ rfl fun c hl hr => ?_
  c07_by c [cond_assert_length_equal, hl, hr] =>
  cases h : pyLen c.left.v with
  | error e => cases e <;> c07_crunch
  | ok n =>
    c07_unfold [Except.map, pyEq_comm_int]
    cases h2 : pyEq (.int n) c.right.v <;> c07_crunch

theorem c07_assert_length_not_equal : Correct "assert_length_not_equal" cond_assert_length_not_equal := by
  refine correct_of_noErr _ _ _ rfl fun c hl hr => ?_
  c07_by c [cond_assert_length_not_equal, hl, hr] =>
  cases h : pyLen c.left.v with
  | error e => cases e <;> c07_crunch
  | ok n =>
    c07_unfold [Except.map, pyEq_comm_int]
    cases h2 : pyEq (.int n) c.right.v <;> c07_crunch

theorem c07_assert_length_less : Correct "assert_length_less" cond_assert_length_less := by
  refine correct_of_noErr _ _ _ rfl fun c hl hr => ?_
  c07_by c [cond_assert_length_less, hl, hr, lenRel, cmpRel] =>
  cases h : pyLen c.left.v with
  | error e => cases e <;> c07_crunch
  | ok n =>
    c07_unfold [Except.map]
    cases h2 : pyCmp (.int n) c.right.v with
    | error e => cases e <;> c07_crunch
    | ok o =>
      have hu := pyCmp_int_left n c.right.v o h2
      cases o <;> first | (exact absurd rfl hu) | c07_crunch

theorem c07_assert_length_less_equal : Correct "assert_length_less_equal" cond_assert_length_less_equal := by
  refine correct_of_noErr _ _ _ rfl fun c hl hr => ?_
  c07_by c [cond_assert_length_less_equal, hl, hr, lenRel, cmpRel] =>
  cases h : pyLen c.left.v with
  | error e => cases e <;> c07_crunch
  | ok n =>
    c07_unfold [Except.map]
    cases h2 : pyCmp (.int n) c.right.v with
    | error e => cases e <;> c07_crunch
    | ok o =>
      have hu := pyCmp_int_left n c.right.v o h2
      cases o <;> first | (exact absurd rfl hu) | c07_crunch

theorem c07_assert_length_greater : Correct "assert_length_greater" cond_assert_length_greater := by
  refine correct_of_noErr _ _ _ rfl fun c hl hr => ?_
  c07_by c [cond_assert_length_greater, hl, hr, lenRel, cmpRel] =>
  cases h : pyLen c.left.v with
  | error e => cases e <;> c07_crunch
  | ok n =>
    c07_unfold [Except.map]
    cases h2 : pyCmp (.int n) c.right.v with
    | error e => cases e <;> c07_crunch
    | ok o =>
      have hu := pyCmp_int_left n c.right.v o h2
      cases o <;> first | (exact absurd rfl hu) | c07_crunch

theorem c07_assert_length_greater_equal : Correct "assert_length_greater_equal" cond_assert_length_greater_equal := by
  refine correct_of_noErr _ _ _ rfl fun c hl hr => ?_
  c07_by c [cond_assert_length_greater_equal, hl, hr, lenRel, cmpRel] =>
  cases h : pyLen c.left.v with
  | error e => cases e <;> c07_crunch
  | ok n =>
    c07_unfold [Except.map]
    cases h2 : pyCmp (.int n) c.right.v with
    | error e => cases e <;> c07_crunch
    | ok o =>
      have hu := pyCmp_int_left n c.right.v o h2
      cases o <;> first | (exact absurd rfl hu) | c07_crunch

theorem c07_assert_is_instance : Correct "assert_is_instance" cond_assert_is_instance := by
  refine correct_of_noErr _ _ _ rfl fun c hl hr => ?_
  c07_by c [cond_assert_is_instance, hl, hr, widenCls_eq] =>
  cases h1 : pyEq c.right.v (.typ .int) <;> cases h2 : pyEq c.right.v (.typ .float) <;>
  c07_unfold [h1, h2] <;>
  (first
    | cases h : pyIsInstance c.left.v c.right.v with
      | error e => cases e <;> c07_crunch
      | ok o => cases o <;> c07_crunch
    | cases h : pyIsInstance c.left.v (.tuple [.typ .int, .typ .float]) with
      | error e => cases e <;> c07_crunch
      | ok o => cases o <;> c07_crunch)

theorem c07_assert_not_is_instance : Correct "assert_not_is_instance" cond_assert_not_is_instance := by
  refine correct_of_noErr _ _ _ rfl fun c hl hr => ?_
  c07_by c [cond_assert_not_is_instance, hl, hr, widenCls_eq] =>
  cases h1 : pyEq c.right.v (.typ .int) <;> cases h2 : pyEq c.right.v (.typ .float) <;>
  c07_unfold [h1, h2] <;>
  (first
    | cases h : pyIsInstance c.left.v c.right.v with
      | error e => cases e <;> c07_crunch
      | ok o => cases o <;> c07_crunch
    | cases h : pyIsInstance c.left.v (.tuple [.typ .int, .typ .float]) with
      | error e => cases e <;> c07_crunch
      | ok o => cases o <;> c07_crunch)

theorem c07_assert_equal : Correct "assert_equal" cond_assert_equal := by
  refine correct_of_noErr _ _ _ rfl fun c hl hr => ?_
  c07_by c [cond_assert_equal, hl, hr, equalRel] =>
  cases hd : deltaOf c.delta with
  | error e => cases e <;> c07_crunch
  | ok d =>
    dsimp only
    cases h : eqTest (truthy c.exact) d c.left.v c.right.v with
    | error e => cases e <;> c07_crunch
    | ok o => cases o <;> c07_crunch

theorem c07_assert_almost_equal : Correct "assert_almost_equal" cond_assert_almost_equal := by
  refine correct_of_noErr _ _ _ rfl fun c hl hr => ?_
  c07_by c [cond_assert_almost_equal, hl, hr, equalRel] =>
  cases hd : deltaOf c.delta with
  | error e => cases e <;> c07_crunch
  | ok d =>
    dsimp only
    cases h : eqTest (truthy c.exact) d c.left.v c.right.v with
    | error e => cases e <;> c07_crunch
    | ok o => cases o <;> c07_crunch

theorem c07_assert_not_equal : Correct "assert_not_equal" cond_assert_not_equal := by
  refine correct_of_noErr _ _ _ rfl fun c hl hr => ?_
  c07_by c [cond_assert_not_equal, hl, hr, equalRel] =>
  cases hd : deltaOf c.delta with
  | error e => cases e <;> c07_crunch
  | ok d =>
    dsimp only
    cases h : eqTest (truthy c.exact) d c.left.v c.right.v with
    | error e => cases e <;> c07_crunch
    | ok o => cases o <;> c07_crunch

theorem c07_assert_not_almost_equal : Correct "assert_not_almost_equal" cond_assert_not_almost_equal := by
  refine correct_of_noErr _ _ _ rfl fun c hl hr => ?_
  c07_by c [cond_assert_not_almost_equal, hl, hr, equalRel] =>
  cases hd : deltaOf c.delta with
  | error e => cases e <;> c07_crunch
  | ok d =>
    dsimp only
    cases h : eqTest (truthy c.exact) d c.left.v c.right.v with
    | error e => cases e <;> c07_crunch
    | ok o => cases o <;> c07_crunch

theorem c07_assert_regex : Correct "assert_regex" cond_assert_regex := by
  refine correct_of_noErr _ _ _ rfl fun c hl hr => ?_
  c07_by c [cond_assert_regex, hl, hr, regexRel] =>
  cases hv : c.left.v <;> try c07_crunch
  all_goals
    rename_i ps
    cases hs : c.search ps (strOfV c c.right) with
    | error e => cases e <;> simp [pyIs, V.fresh, V.ofBool, Except.map, truthy, evalOutcome, relOutcome, notR]
    | ok m => cases m <;> simp [pyIs, V.fresh, V.ofBool, Except.map, truthy, evalOutcome, relOutcome, notR]

theorem c07_assert_not_regex : Correct "assert_not_regex" cond_assert_not_regex := by
  refine correct_of_noErr _ _ _ rfl fun c hl hr => ?_
  c07_by c [cond_assert_not_regex, hl, hr, regexRel] =>
  cases hv : c.left.v <;> try c07_crunch
  all_goals
    rename_i ps
    cases hs : c.search ps (strOfV c c.right) with
    | error e => cases e <;> simp [pyIs, V.fresh, V.ofBool, Except.map, truthy, evalOutcome, relOutcome, notR]
    | ok m => cases m <;> simp [pyIs, V.fresh, V.ofBool, Except.map, truthy, evalOutcome, relOutcome, notR]

theorem c07_assert_output : Correct "assert_output" cond_assert_output := by
  refine correct_of_noErr _ _ _ rfl fun c hl hr => ?_
  c07_by c [cond_assert_output, hl, hr, outputRel, deltaOf] =>
  cases ho : c.output .left with
  | error e => cases e <;> c07_crunch
  | ok o =>
    dsimp only [Except.map]
    c07_unfold [deltaOf]
    cases h : eqTest (truthy c.exact) none (.str o) (.str (strOfV c c.right)) with
    | error e => cases e <;> c07_crunch
    | ok b => cases b <;> c07_crunch

theorem c07_assert_prints : Correct "assert_prints" cond_assert_prints := by
  refine correct_of_noErr _ _ _ rfl fun c hl hr => ?_
  c07_by c [cond_assert_prints, hl, hr, outputRel, deltaOf] =>
  cases ho : c.output .left with
  | error e => cases e <;> c07_crunch
  | ok o =>
    dsimp only [Except.map]
    c07_unfold [deltaOf]
    cases h : eqTest (truthy c.exact) none (.str o) (.str (strOfV c c.right)) with
    | error e => cases e <;> c07_crunch
    | ok b => cases b <;> c07_crunch

theorem c07_assert_not_output : Correct "assert_not_output" cond_assert_not_output := by
  refine correct_of_noErr _ _ _ rfl fun c hl hr => ?_
  c07_by c [cond_assert_not_output, hl, hr, outputRel, deltaOf] =>
  cases ho : c.output .left with
  | error e => cases e <;> c07_crunch
  | ok o =>
    dsimp only [Except.map]
    c07_unfold [deltaOf]
    cases h : eqTest (truthy c.exact) none (.str o) (.str (strOfV c c.right)) with
    | error e => cases e <;> c07_crunch
    | ok b => cases b <;> c07_crunch

theorem c07_assert_output_contains : Correct "assert_output_contains" cond_assert_output_contains := by
  refine correct_of_noErr _ _ _ rfl fun c hl hr => ?_
  c07_by c [cond_assert_output_contains, hl, hr, outputContainsRel] =>
  cases hex : truthy c.exact <;> cases ha : isAscii (strOfV c c.right) <;> (try c07_unfold [ha]) <;>
  cases ho : c.output .left with
  | error e => cases e <;> c07_crunch
  | ok o =>
    cases hao : isAscii o <;>
      simp [Except.map, evalCmp, vIn, pyIn, notR, V.ofBool, V.fresh, truthy, evalOutcome, relOutcome, ha, hao] <;>
      (try (cases isSubstr _ _ <;> simp))

theorem c07_assert_not_output_contains : Correct "assert_not_output_contains" cond_assert_not_output_contains := by
  refine correct_of_noErr _ _ _ rfl fun c hl hr => ?_
  c07_by c [cond_assert_not_output_contains, hl, hr, outputContainsRel] =>
  cases hex : truthy c.exact <;> cases ha : isAscii (strOfV c c.right) <;> (try c07_unfold [ha]) <;>
  cases ho : c.output .left with
  | error e => cases e <;> c07_crunch
  | ok o =>
    cases hao : isAscii o <;>
      simp [Except.map, evalCmp, vIn, pyIn, notR, V.ofBool, V.fresh, truthy, evalOutcome, relOutcome, ha, hao] <;>
      (try (cases isSubstr _ _ <;> simp))

theorem c07_assert_output_regex : Correct "assert_output_regex" cond_assert_output_regex := by
  refine correct_of_noErr _ _ _ rfl fun c hl hr => ?_
  c07_by c [cond_assert_output_regex, hl, hr, outputRegexRel] =>
  cases ho : c.output .left with
  | error e => cases e <;> c07_crunch
  | ok o =>
    dsimp only [Except.map]
    c07_unfold []
    cases hs : c.search (strOfV c c.right) o with
    | error e => cases e <;> simp [pyIs, V.fresh, V.ofBool, Except.map, truthy, evalOutcome, relOutcome, notR]
    | ok m => cases m <;> simp [pyIs, V.fresh, V.ofBool, Except.map, truthy, evalOutcome, relOutcome, notR]

theorem c07_assert_not_output_regex : Correct "assert_not_output_regex" cond_assert_not_output_regex := by
  refine correct_of_noErr _ _ _ rfl fun c hl hr => ?_
  c07_by c [cond_assert_not_output_regex, hl, hr, outputRegexRel] =>
  cases ho : c.output .left with
  | error e => cases e <;> c07_crunch
  | ok o =>
    dsimp only [Except.map]
    c07_unfold []
    cases hs : c.search (strOfV c c.right) o with
    | error e => cases e <;> simp [pyIs, V.fresh, V.ofBool, Except.map, truthy, evalOutcome, relOutcome, notR]
    | ok m => cases m <;> simp [pyIs, V.fresh, V.ofBool, Except.map, truthy, evalOutcome, relOutcome, notR]

/-! ## The property, over the whole generated table -/

/-- The assertions whose conditions are proved correct (all of the property's list except
    assert_type / assert_not_type, which go through pedal's type system and are only sampled). -/
def provedNames : List String :=
  ["assert_less", "assert_less_equal", "assert_greater", "assert_greater_equal", "assert_in", "assert_not_in", "assert_contains_subset", "assert_not_contains_subset", "assert_is", "assert_is_not", "assert_is_none", "assert_is_not_none", "assert_true", "assert_false", "assert_length_equal", "assert_length_not_equal", "assert_length_less", "assert_length_less_equal", "assert_length_greater", "assert_length_greater_equal", "assert_is_instance", "assert_not_is_instance", "assert_equal", "assert_not_equal", "assert_almost_equal", "assert_not_almost_equal", "assert_regex", "assert_not_regex", "assert_output", "assert_prints", "assert_not_output", "assert_output_contains", "assert_not_output_contains", "assert_output_regex", "assert_not_output_regex"]

/-- the condition the driver (and the correspondence) evaluates for `name` -/
def condOf (name : String) : Option CondExpr := (table.find? (·.1 == name)).map (·.2)

/-- Every proved name is in the generated table, with a condition that is `Correct`. -/
theorem c07_table_correct : ∀ name ∈ provedNames, ∃ cond, condOf name = some cond ∧ Correct name cond := by
  intro name h
  simp only [provedNames, List.mem_cons, List.mem_nil_iff, or_false] at h
  rcases h with rfl | rfl | rfl | rfl | rfl | rfl | rfl | rfl | rfl | rfl | rfl | rfl | rfl | rfl | rfl | rfl | rfl | rfl | rfl | rfl | rfl | rfl | rfl | rfl | rfl | rfl | rfl | rfl | rfl | rfl | rfl | rfl | rfl | rfl | rfl
  · exact ⟨cond_assert_less, rfl, c07_assert_less⟩
  · exact ⟨cond_assert_less_equal, rfl, c07_assert_less_equal⟩
  · exact ⟨cond_assert_greater, rfl, c07_assert_greater⟩
  · exact ⟨cond_assert_greater_equal, rfl, c07_assert_greater_equal⟩
  · exact ⟨cond_assert_in, rfl, c07_assert_in⟩
  · exact ⟨cond_assert_not_in, rfl, c07_assert_not_in⟩
  · exact ⟨cond_assert_contains_subset, rfl, c07_assert_contains_subset⟩
  · exact ⟨cond_assert_not_contains_subset, rfl, c07_assert_not_contains_subset⟩
  · exact ⟨cond_assert_is, rfl, c07_assert_is⟩
  · exact ⟨cond_assert_is_not, rfl, c07_assert_is_not⟩
  · exact ⟨cond_assert_is_none, rfl, c07_assert_is_none⟩
  · exact ⟨cond_assert_is_not_none, rfl, c07_assert_is_not_none⟩
  · exact ⟨cond_assert_true, rfl, c07_assert_true⟩
  · exact ⟨cond_assert_false, rfl, c07_assert_false⟩
  · exact ⟨cond_assert_length_equal, rfl, c07_assert_length_equal⟩
  · exact ⟨cond_assert_length_not_equal, rfl, c07_assert_length_not_equal⟩
  · exact ⟨cond_assert_length_less, rfl, c07_assert_length_less⟩
  · exact ⟨cond_assert_length_less_equal, rfl, c07_assert_length_less_equal⟩
  · exact ⟨cond_assert_length_greater, rfl, c07_assert_length_greater⟩
  · exact ⟨cond_assert_length_greater_equal, rfl, c07_assert_length_greater_equal⟩
  · exact ⟨cond_assert_is_instance, rfl, c07_assert_is_instance⟩
  · exact ⟨cond_assert_not_is_instance, rfl, c07_assert_not_is_instance⟩
  · exact ⟨cond_assert_equal, rfl, c07_assert_equal⟩
  · exact ⟨cond_assert_not_equal, rfl, c07_assert_not_equal⟩
  · exact ⟨cond_assert_almost_equal, rfl, c07_assert_almost_equal⟩
  · exact ⟨cond_assert_not_almost_equal, rfl, c07_assert_not_almost_equal⟩
  · exact ⟨cond_assert_regex, rfl, c07_assert_regex⟩
  · exact ⟨cond_assert_not_regex, rfl, c07_assert_not_regex⟩
  · exact ⟨cond_assert_output, rfl, c07_assert_output⟩
  · exact ⟨cond_assert_prints, rfl, c07_assert_prints⟩
  · exact ⟨cond_assert_not_output, rfl, c07_assert_not_output⟩
  · exact ⟨cond_assert_output_contains, rfl, c07_assert_output_contains⟩
  · exact ⟨cond_assert_not_output_contains, rfl, c07_assert_not_output_contains⟩
  · exact ⟨cond_assert_output_regex, rfl, c07_assert_output_regex⟩
  · exact ⟨cond_assert_not_output_regex, rfl, c07_assert_not_output_regex⟩

/-- **Silent iff the relation holds.**  For every proved assertion, all operands, raw or proxied:
    the assertion is silent exactly when no operand is an error and the asserted Python relation
    evaluates to True; it produces failing feedback exactly when an operand is an error, the relation
    is False, or the relation cannot be evaluated. -/
theorem c07_silent_iff_holds (name : String) (h : name ∈ provedNames) :
    ∃ cond rel, condOf name = some cond ∧ relOf name = some rel ∧ ∀ c : Ctx,
      (outcome wrapperGuard cond c = .silent ↔ (anyErr c = false ∧ rel c = .ok true)) ∧
      (outcome wrapperGuard cond c = .fires ↔
        (anyErr c = true ∨ rel c = .ok false ∨ rel c = .error .raised)) := by
  obtain ⟨cond, hcond, rel, hrel, hc⟩ := c07_table_correct name h
  refine ⟨cond, rel, hcond, hrel, fun c => ?_⟩
  rw [hc c, specOutcome]
  cases he : anyErr c
  · cases hr : rel c with
    | error e => cases e <;> simp [relOutcome]
    | ok b => cases b <;> simp [relOutcome]
  · simp

/-- **Error operands.**  Whatever the condition (even one the translator does not understand): an
    operand that is an error makes the assertion fail. -/
theorem c07_error_operand_fails (cond : CondExpr) (c : Ctx) (h : anyErr c = true) :
    outcome wrapperGuard cond c = .fires := by
  rw [outcome_guard, h]; rfl

/-- **Plain value or proxied result.**  For every proved assertion the outcome is the same whether
    an operand is passed raw or wrapped in a `SandboxResult` proxy (any of the four combinations). -/
theorem c07_wrapping_invariant (name : String) (h : name ∈ provedNames) :
    ∃ cond, condOf name = some cond ∧ ∀ c : Ctx,
      outcome wrapperGuard cond c = outcome wrapperGuard cond c.unwrapAll := by
  obtain ⟨cond, hcond, rel, hrel, hc⟩ := c07_table_correct name h
  refine ⟨cond, hcond, fun c => ?_⟩
  rw [hc c, hc c.unwrapAll, rel_unwrapAll name rel hrel c]
  rfl

/-- **An assertion and its negated counterpart** never both pass and never both fail on operands
    for which the relation can be evaluated (and neither is an error). -/
theorem negation_exclusive_of (a a' : String) (ca ca' : CondExpr) (rel : Ctx → Res Bool)
    (ha : relOf a = some rel) (ha' : relOf a' = some fun c => notR (rel c))
    (hc : Correct a ca) (hc' : Correct a' ca') (c : Ctx) (hne : anyErr c = false) (b : Bool)
    (hev : rel c = .ok b) :
    (outcome wrapperGuard ca c = .silent ∧ outcome wrapperGuard ca' c = .fires) ∨
    (outcome wrapperGuard ca c = .fires ∧ outcome wrapperGuard ca' c = .silent) := by
  obtain ⟨r1, h1, e1⟩ := hc
  obtain ⟨r2, h2, e2⟩ := hc'
  rw [ha] at h1; cases h1
  rw [ha'] at h2; cases h2
  rw [e1 c, e2 c]
  simp only [specOutcome, hne, hev]
  cases b <;> simp [relOutcome, notR, Except.map]

def negationPairs : List (String × String) :=
  [("assert_equal", "assert_not_equal"), ("assert_almost_equal", "assert_not_almost_equal"), ("assert_in", "assert_not_in"), ("assert_contains_subset", "assert_not_contains_subset"), ("assert_is", "assert_is_not"), ("assert_is_none", "assert_is_not_none"), ("assert_true", "assert_false"), ("assert_length_equal", "assert_length_not_equal"), ("assert_is_instance", "assert_not_is_instance"), ("assert_regex", "assert_not_regex"), ("assert_output", "assert_not_output"), ("assert_prints", "assert_not_output"), ("assert_output_contains", "assert_not_output_contains"), ("assert_output_regex", "assert_not_output_regex")]

theorem c07_negation_exclusive : ∀ p ∈ negationPairs, ∃ ca ca' rel,
    condOf p.1 = some ca ∧ condOf p.2 = some ca' ∧ relOf p.1 = some rel ∧
    ∀ (c : Ctx) (b : Bool), anyErr c = false → rel c = .ok b →
      (outcome wrapperGuard ca c = .silent ∧ outcome wrapperGuard ca' c = .fires) ∨
      (outcome wrapperGuard ca c = .fires ∧ outcome wrapperGuard ca' c = .silent) := by
  intro p h
  simp only [negationPairs, List.mem_cons, List.mem_nil_iff, or_false] at h
  rcases h with rfl | rfl | rfl | rfl | rfl | rfl | rfl | rfl | rfl | rfl | rfl | rfl | rfl | rfl
  · exact ⟨cond_assert_equal, cond_assert_not_equal, _, rfl, rfl, rfl, fun c b hne hev =>
      negation_exclusive_of _ _ _ _ _ rfl rfl c07_assert_equal c07_assert_not_equal c hne b hev⟩
  · exact ⟨cond_assert_almost_equal, cond_assert_not_almost_equal, _, rfl, rfl, rfl, fun c b hne hev =>
      negation_exclusive_of _ _ _ _ _ rfl rfl c07_assert_almost_equal c07_assert_not_almost_equal c hne b hev⟩
  · exact ⟨cond_assert_in, cond_assert_not_in, _, rfl, rfl, rfl, fun c b hne hev =>
      negation_exclusive_of _ _ _ _ _ rfl rfl c07_assert_in c07_assert_not_in c hne b hev⟩
  · exact ⟨cond_assert_contains_subset, cond_assert_not_contains_subset, _, rfl, rfl, rfl, fun c b hne hev =>
      negation_exclusive_of _ _ _ _ _ rfl rfl c07_assert_contains_subset c07_assert_not_contains_subset c hne b hev⟩
  · exact ⟨cond_assert_is, cond_assert_is_not, _, rfl, rfl, rfl, fun c b hne hev =>
      negation_exclusive_of _ _ _ _ _ rfl rfl c07_assert_is c07_assert_is_not c hne b hev⟩
  · exact ⟨cond_assert_is_none, cond_assert_is_not_none, _, rfl, rfl, rfl, fun c b hne hev =>
      negation_exclusive_of _ _ _ _ _ rfl rfl c07_assert_is_none c07_assert_is_not_none c hne b hev⟩
  · exact ⟨cond_assert_true, cond_assert_false, _, rfl, rfl, rfl, fun c b hne hev =>
      negation_exclusive_of _ _ _ _ _ rfl rfl c07_assert_true c07_assert_false c hne b hev⟩
  · exact ⟨cond_assert_length_equal, cond_assert_length_not_equal, _, rfl, rfl, rfl, fun c b hne hev =>
      negation_exclusive_of _ _ _ _ _ rfl rfl c07_assert_length_equal c07_assert_length_not_equal c hne b hev⟩
  · exact ⟨cond_assert_is_instance, cond_assert_not_is_instance, _, rfl, rfl, rfl, fun c b hne hev =>
      negation_exclusive_of _ _ _ _ _ rfl rfl c07_assert_is_instance c07_assert_not_is_instance c hne b hev⟩
  · exact ⟨cond_assert_regex, cond_assert_not_regex, _, rfl, rfl, rfl, fun c b hne hev =>
      negation_exclusive_of _ _ _ _ _ rfl rfl c07_assert_regex c07_assert_not_regex c hne b hev⟩
  · exact ⟨cond_assert_output, cond_assert_not_output, _, rfl, rfl, rfl, fun c b hne hev =>
      negation_exclusive_of _ _ _ _ _ rfl rfl c07_assert_output c07_assert_not_output c hne b hev⟩
  · exact ⟨cond_assert_prints, cond_assert_not_output, _, rfl, rfl, rfl, fun c b hne hev =>
      negation_exclusive_of _ _ _ _ _ rfl rfl c07_assert_prints c07_assert_not_output c hne b hev⟩
  · exact ⟨cond_assert_output_contains, cond_assert_not_output_contains, _, rfl, rfl, rfl, fun c b hne hev =>
      negation_exclusive_of _ _ _ _ _ rfl rfl c07_assert_output_contains c07_assert_not_output_contains c hne b hev⟩
  · exact ⟨cond_assert_output_regex, cond_assert_not_output_regex, _, rfl, rfl, rfl, fun c b hne hev =>
      negation_exclusive_of _ _ _ _ _ rfl rfl c07_assert_output_regex c07_assert_not_output_regex c hne b hev⟩

/-! ## complementary ordering / length assertions -/

/-- `<` / `>=` and `<=` / `>` are complementary exactly on operands that are comparable and totally
    ordered (everything but two sets neither of which contains the other). -/
theorem c07_order_negation_exclusive (c : Ctx) (hne : anyErr c = false) (o : Ord4)
    (hcmp : pyCmp c.left.v c.right.v = .ok o) (hu : o ≠ .un) :
    ((outcome wrapperGuard cond_assert_less c = .silent ∧
        outcome wrapperGuard cond_assert_greater_equal c = .fires) ∨
      (outcome wrapperGuard cond_assert_less c = .fires ∧
        outcome wrapperGuard cond_assert_greater_equal c = .silent)) ∧
    ((outcome wrapperGuard cond_assert_less_equal c = .silent ∧
        outcome wrapperGuard cond_assert_greater c = .fires) ∨
      (outcome wrapperGuard cond_assert_less_equal c = .fires ∧
        outcome wrapperGuard cond_assert_greater c = .silent)) := by
  obtain ⟨r1, h1, e1⟩ := c07_assert_less
  obtain ⟨r2, h2, e2⟩ := c07_assert_greater_equal
  obtain ⟨r3, h3, e3⟩ := c07_assert_less_equal
  obtain ⟨r4, h4, e4⟩ := c07_assert_greater
  cases h1; cases h2; cases h3; cases h4
  rw [e1 c, e2 c, e3 c, e4 c]
  simp only [specOutcome, hne, cmpRel, hcmp, Except.map]
  cases o <;> first | (exact absurd rfl hu) | (simp [relOutcome] <;> decide)

theorem lenRel_complement (c : Ctx) (t t' : Ord4 → Bool) (hc : ∀ o, o ≠ .un → t' o = !t o) (b : Bool)
    (hev : lenRel c t = .ok b) : lenRel c t' = .ok (!b) := by
  unfold lenRel at hev ⊢
  cases hl : pyLen c.left.v with
  | error e => rw [hl] at hev; cases hev
  | ok n =>
    rw [hl] at hev
    simp only [cmpRel] at hev ⊢
    cases hp : pyCmp (.int n) c.right.v with
    | error e => rw [hp] at hev; cases hev
    | ok o =>
      rw [hp] at hev
      have hu := pyCmp_int_left n c.right.v o hp
      simp only [Except.map] at hev ⊢
      cases hev
      rw [hc o hu]

/-- the two complementary pairs of length assertions -/
theorem c07_length_negation_exclusive (c : Ctx) (hne : anyErr c = false) :
    (∀ b, lenRel c (· == .lt) = .ok b →
      (outcome wrapperGuard cond_assert_length_less c = .silent ∧
        outcome wrapperGuard cond_assert_length_greater_equal c = .fires) ∨
      (outcome wrapperGuard cond_assert_length_less c = .fires ∧
        outcome wrapperGuard cond_assert_length_greater_equal c = .silent)) ∧
    (∀ b, lenRel c (fun o => o == .lt || o == .eq) = .ok b →
      (outcome wrapperGuard cond_assert_length_less_equal c = .silent ∧
        outcome wrapperGuard cond_assert_length_greater c = .fires) ∨
      (outcome wrapperGuard cond_assert_length_less_equal c = .fires ∧
        outcome wrapperGuard cond_assert_length_greater c = .silent)) := by
  constructor
  · intro b hev
    have h2 := lenRel_complement c (· == .lt) (fun o => o == .gt || o == .eq)
      (by intro o ho; cases o <;> simp_all) b hev
    obtain ⟨r1, h1, e1⟩ := c07_assert_length_less
    obtain ⟨r2, h2', e2⟩ := c07_assert_length_greater_equal
    cases h1; cases h2'
    rw [e1 c, e2 c]
    simp only [specOutcome, hne, hev, h2]
    cases b <;> simp [relOutcome]
  · intro b hev
    have h2 := lenRel_complement c (fun o => o == .lt || o == .eq) (· == .gt)
      (by intro o ho; cases o <;> simp_all) b hev
    obtain ⟨r1, h1, e1⟩ := c07_assert_length_less_equal
    obtain ⟨r2, h2', e2⟩ := c07_assert_length_greater
    cases h1; cases h2'
    rw [e1 c, e2 c]
    simp only [specOutcome, hne, hev, h2]
    cases b <;> simp [relOutcome]

/-! ## equality: tolerance and normalisation do not depend on the argument order -/

/-- **Float tolerance.**  For two numbers (bool/int/float) `equality_test` is `abs(a - e) < delta`,
    computed exactly, as soon as either is a float — whichever side the float is on — and `==`
    otherwise; swapping the arguments never changes the answer. -/
theorem c07_tolerance_symmetric (ex : Bool) (d : Int × Nat) (a e : PyVal) (x y : Int × Nat)
    (ha : num? a = some x) (he : num? e = some y) :
    eqTest ex (some d) a e = .ok (if isFloat a || isFloat e then numClose x y d else numEq x y) ∧
    eqTest ex (some d) a e = eqTest ex (some d) e a := by
  rw [eqTest_num ex d a e x y ha he, eqTest_num ex d e a y x he ha]
  rw [numClose_comm y x d, numEq_comm y x, Bool.or_comm (isFloat e) (isFloat a)]
  exact ⟨rfl, rfl⟩

/-- **String normalisation.**  Two strings are compared exactly (`exact_strings`) or through
    `_normalize_string`; in both modes swapping the arguments never changes the answer. -/
theorem c07_string_normalisation_symmetric (ex : Bool) (d : Option (Int × Nat)) (sa se : List Nat) :
    eqTest ex d (.str sa) (.str se) = eqTest ex d (.str se) (.str sa) := by
  rw [eqTest_str, eqTest_str, Bool.and_comm (isAscii sa) (isAscii se)]
  have h1 : (sa == se) = (se == sa) := BEq.comm
  have h2 : (normStr se == normStr sa) = (normStr sa == normStr se) := BEq.comm
  rw [h1, h2]

/-- The normal form ignores letter case. -/
theorem c07_normalisation_ignores_case (s : List Nat) : normStr (s.map lowerC) = normStr s := by
  unfold normStr
  have : (s.map lowerC).map lowerC = s.map lowerC := by
    rw [List.map_map]
    congr 1
    funext c
    exact lowerC_idem c
  rw [this]

example : normStr [72, 105, 33] = normStr [104, 105] := by decide   -- "Hi!" ~ "hi"

/-- **Equality does not depend on the argument order**, for all values built from None, bools, ints,
    floats, (ASCII) strings, classes, objects, lists and tuples, nested to any depth (induction on the
    size of the two values).  Sets and dicts are compared by mutual approximate containment / exact
    keys in the code; their symmetry is sampled by the correspondence, not proved. -/
theorem c07_equality_symmetric (ex : Bool) (d : Int × Nat) (a e : PyVal)
    (ha : seqOnly a = true) (he : seqOnly e = true) :
    eqTest ex (some d) a e = eqTest ex (some d) e a :=
  eqTest_symm_aux ex d _ a e (Nat.le_refl _) ha he

example : seqOnly (.list [.int 1, .tuple [.flt 3 1, .str [97]], .none]) = true := by decide

/-- On values built from None, bools, ints, floats, ASCII strings, classes, objects, lists and tuples
    `equality_test` (with a delta) always produces an answer: it never raises. -/
theorem c07_equality_evaluable (ex : Bool) (d : Int × Nat) (a e : PyVal)
    (ha : seqOnly a = true) (he : seqOnly e = true) : ∃ b, eqTest ex (some d) a e = .ok b :=
  eqTest_ok_aux ex d _ a e (Nat.le_refl _) ha he

/-! ## the open finding: two dicts whose key sets are equal only approximately -/

/-- `{'A': 1}` -/
def dictUpperA : PyVal := .dict [.str [65]] [.int 1]
/-- `{'a': 1}` -/
def dictLowerA : PyVal := .dict [.str [97]] [.int 1]

/-- `equality_test({'A': 1}, {'a': 1}, False, delta)` raises: the key sets match after normalisation,
    then `actual['a']` is a KeyError. -/
theorem eqTest_dict_keys_raises (d : Int × Nat) :
    eqTest false (some d) dictUpperA dictLowerA = .error .raised := by
  have hn : normStr [65] = normStr [97] := by decide
  unfold dictUpperA dictLowerA
  rw [eqTest.eq_def]
  simp [isFloat, isIntOrFloat, num?, pyEq, dictSub, dictHas, eqAllContained, eqContains, eqTest_str,
    isAscii, hn, eqDictVals, eqDictLookup, dictMerge]

/-- The property's sentence "an assertion and its negated counterpart never both pass or both fail
    on evaluable operands" for the equality pair, in full: `==` can be evaluated for any two values
    that are not errors, so for every such pair inside the modelled universe exactly one of
    assert_equal / assert_not_equal is silent. -/
def C07_equal_negation_exclusive_Full : Prop :=
  ∀ c : Ctx, anyErr c = false → equalRel c ≠ .error .unmodelled →
    (outcome wrapperGuard cond_assert_equal c = .silent ∧ outcome wrapperGuard cond_assert_not_equal c = .fires) ∨
    (outcome wrapperGuard cond_assert_equal c = .fires ∧ outcome wrapperGuard cond_assert_not_equal c = .silent)

/-- the operands of the counterexample: `assert_equal({'A': 1}, {'a': 1})`, default delta -/
def dictKeysCtx : Ctx :=
  { left := V.fresh dictUpperA, right := V.fresh dictLowerA, delta := .flt defaultDelta.1 defaultDelta.2 }

/-- **Refuted in full** (open finding): on `{'A': 1}` vs `{'a': 1}` both assertions fail. -/
theorem c07_equal_negation_exclusive_counterexample : ¬ C07_equal_negation_exclusive_Full := by
  intro h
  have hrel : equalRel dictKeysCtx = .error .raised := by
    simp only [equalRel, dictKeysCtx, deltaOf, V.fresh, truthy]
    exact eqTest_dict_keys_raises _
  have hne : anyErr dictKeysCtx = false := rfl
  obtain ⟨r1, h1, e1⟩ := c07_assert_equal
  obtain ⟨r2, h2, e2⟩ := c07_assert_not_equal
  cases h1; cases h2
  have hq := h dictKeysCtx hne (by rw [hrel]; intro hh; cases hh)
  rw [e1 dictKeysCtx, e2 dictKeysCtx] at hq
  simp [specOutcome, hne, hrel, relOutcome, notR, Except.map] at hq

/-- **The part that holds**: whenever `equality_test` produces an answer for the operands (always,
    outside sets and dicts: `c07_equality_evaluable`), exactly one of the two is silent. -/
theorem c07_equal_negation_exclusive_partial (c : Ctx) (hne : anyErr c = false) (b : Bool)
    (hev : equalRel c = .ok b) :
    (outcome wrapperGuard cond_assert_equal c = .silent ∧ outcome wrapperGuard cond_assert_not_equal c = .fires) ∨
    (outcome wrapperGuard cond_assert_equal c = .fires ∧ outcome wrapperGuard cond_assert_not_equal c = .silent) :=
  negation_exclusive_of _ _ _ _ _ rfl rfl c07_assert_equal c07_assert_not_equal c hne b hev

/-- ... in particular for all scalar / list / tuple operands with a numeric delta, with no further
    hypothesis. -/
theorem c07_equal_negation_exclusive_seq (c : Ctx) (hne : anyErr c = false) (d : Int × Nat)
    (hd : deltaOf c.delta = .ok (some d)) (hl : seqOnly c.left.v = true) (hr : seqOnly c.right.v = true) :
    (outcome wrapperGuard cond_assert_equal c = .silent ∧ outcome wrapperGuard cond_assert_not_equal c = .fires) ∨
    (outcome wrapperGuard cond_assert_equal c = .fires ∧ outcome wrapperGuard cond_assert_not_equal c = .silent) := by
  obtain ⟨b, hb⟩ := c07_equality_evaluable (truthy c.exact) d c.left.v c.right.v hl hr
  exact c07_equal_negation_exclusive_partial c hne b (by simp only [equalRel, hd, hb])
/-! ## unit_test / assert_group -/

theorem Group.foldl_add (outs : List Outcome) (g : Group) :
    (outs.foldl Group.add g).successes = g.successes + (outs.filter (· == .silent)).length ∧
    (outs.foldl Group.add g).failures = g.failures + (outs.filter (· != .silent)).length ∧
    (outs.foldl Group.add g).total = g.total + outs.length := by
  induction outs generalizing g with
  | nil => simp
  | cons o os ih =>
    simp only [List.foldl_cons]
    obtain ⟨h1, h2, h3⟩ := ih (g.add o)
    rw [h1, h2, h3]
    cases o <;> simp [Group.add, List.filter_cons] <;> omega

/-- **unit_test.**  For any list of cases: it succeeds exactly when every case's assertion is
    silent, `success_count` is the number of silent cases and `total_count` the number of cases. -/
theorem c07_unit_test_all_and_count (g : Guard) (cond : CondExpr) (cases : List Ctx) :
    ((unitTest g cond cases).1 = true ↔ ∀ c ∈ cases, outcome g cond c = .silent) ∧
    (unitTest g cond cases).2.1 = (cases.filter fun c => outcome g cond c == .silent).length ∧
    (unitTest g cond cases).2.2 = cases.length := by
  obtain ⟨h1, h2, h3⟩ := Group.foldl_add (cases.map (outcome g cond)) {}
  simp only [unitTest, Group.run, Group.passed]
  refine ⟨?_, ?_, ?_⟩
  · rw [h2]
    simp only [Nat.zero_add, beq_iff_eq, List.length_eq_zero_iff, List.filter_eq_nil_iff, List.mem_map,
      forall_exists_index, and_imp, forall_apply_eq_imp_iff₂]
    constructor
    · intro h c hc
      have := h c hc
      simpa using this
    · intro h c hc
      simp [h c hc]
  · rw [h1]
    simp [List.filter_map, Function.comp_def]
  · rw [h3]
    simp

example : unitTest wrapperGuard cond_assert_equal [] = (true, 0, 0) := by decide

end Pedal.Assertions

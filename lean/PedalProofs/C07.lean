import PedalProofs.AssertionsLemmas
/-
C07 — runtime assertions pass only when the asserted relation really holds.

For every assertion `a` whose `condition` the translator understands, `c07_<a>` states
`Correct a cond_a`: for ALL operands (values, identities, raw or proxied), parameters and
abstract `re.search`/`str`/output functions,

    outcome wrapperGuard cond_a c = specOutcome c (rel_a c)

i.e. failing feedback if an operand is an error, silent exactly when the hand-written relation
`rel_a` (PedalModel/AssertionsSpec.lean — it never mentions proxies) evaluates to True, failing
feedback when it is False or cannot be evaluated.  `cond_a` and `wrapperGuard` are regenerated
from the tree under test on every run.
-/
namespace Pedal.Assertions
open Pedal.Gen.Assertions

macro "c07_crunch" : tactic =>
  `(tactic| (simp [Except.map, ord4Test, V.ofBool, V.fresh, truthy, evalOutcome, relOutcome, notR] <;> try rfl))

/-! ## ordering -/

theorem c07_assert_less : Correct "assert_less" cond_assert_less := by
  refine correct_of _ _ _ rfl fun c _ => ?_
  simp only [cond_assert_less, eval, evalCmp, cmpRel, Ctx.side]
  cases h : pyCmp c.left.v c.right.v with
  | error e => cases e <;> c07_crunch
  | ok o => cases o <;> c07_crunch

theorem c07_assert_less_equal : Correct "assert_less_equal" cond_assert_less_equal := by
  refine correct_of _ _ _ rfl fun c _ => ?_
  simp only [cond_assert_less_equal, eval, evalCmp, cmpRel, Ctx.side]
  cases h : pyCmp c.left.v c.right.v with
  | error e => cases e <;> c07_crunch
  | ok o => cases o <;> c07_crunch

theorem c07_assert_greater : Correct "assert_greater" cond_assert_greater := by
  refine correct_of _ _ _ rfl fun c _ => ?_
  simp only [cond_assert_greater, eval, evalCmp, cmpRel, Ctx.side]
  cases h : pyCmp c.left.v c.right.v with
  | error e => cases e <;> c07_crunch
  | ok o => cases o <;> c07_crunch

theorem c07_assert_greater_equal : Correct "assert_greater_equal" cond_assert_greater_equal := by
  refine correct_of _ _ _ rfl fun c _ => ?_
  simp only [cond_assert_greater_equal, eval, evalCmp, cmpRel, Ctx.side]
  cases h : pyCmp c.left.v c.right.v with
  | error e => cases e <;> c07_crunch
  | ok o => cases o <;> c07_crunch

/-! ## membership -/

theorem c07_assert_in : Correct "assert_in" cond_assert_in := by
  refine correct_of _ _ _ rfl fun c _ => ?_
  simp only [cond_assert_in, eval, evalCmp, Ctx.side, vIn_unwrapped]
  cases h : pyIn c.left.v c.right.v with
  | error e => cases e <;> c07_crunch
  | ok o => cases o <;> c07_crunch

theorem c07_assert_not_in : Correct "assert_not_in" cond_assert_not_in := by
  refine correct_of _ _ _ rfl fun c _ => ?_
  simp only [cond_assert_not_in, eval, evalCmp, Ctx.side, vIn_unwrapped]
  cases h : pyIn c.left.v c.right.v with
  | error e => cases e <;> c07_crunch
  | ok o => cases o <;> c07_crunch

theorem c07_assert_contains_subset : Correct "assert_contains_subset" cond_assert_contains_subset := by
  refine correct_of _ _ _ rfl fun c _ => ?_
  simp only [cond_assert_contains_subset, eval, Ctx.side]
  cases h : pyAllIn c.left.v c.right.v with
  | error e => cases e <;> c07_crunch
  | ok o => cases o <;> c07_crunch

theorem c07_assert_not_contains_subset : Correct "assert_not_contains_subset" cond_assert_not_contains_subset := by
  refine correct_of _ _ _ rfl fun c _ => ?_
  simp only [cond_assert_not_contains_subset, eval, Ctx.side]
  cases h : pyAllIn c.left.v c.right.v with
  | error e => cases e <;> c07_crunch
  | ok o => cases o <;> c07_crunch

/-! ## identity, None-ness, truthiness -/

theorem c07_assert_is : Correct "assert_is" cond_assert_is := by
  refine correct_of _ _ _ rfl fun c _ => ?_
  unfold cond_assert_is
  rw [eval, eval_actual_left, eval_actual_right]
  simp only [evalCmp, pyIs_cond]
  cases h : sameObject c.left c.right <;> c07_crunch

theorem c07_assert_is_not : Correct "assert_is_not" cond_assert_is_not := by
  refine correct_of _ _ _ rfl fun c _ => ?_
  unfold cond_assert_is_not
  rw [eval, eval_actual_left, eval_actual_right]
  simp only [evalCmp, pyIs_cond]
  cases h : sameObject c.left c.right <;> c07_crunch

theorem c07_assert_is_none : Correct "assert_is_none" cond_assert_is_none := by
  refine correct_of _ _ _ rfl fun c _ => ?_
  simp only [cond_assert_is_none, eval, evalCmp, Ctx.side, V.ofBool, V.fresh, truthy]
  cases hl : c.left.px <;> cases hv : c.left.v <;>
    simp [hl, hv, evalOutcome, relOutcome, V.ofBool, V.fresh, truthy, pyIs, V.unwrapped, isNoneVal]

theorem c07_assert_is_not_none : Correct "assert_is_not_none" cond_assert_is_not_none := by
  refine correct_of _ _ _ rfl fun c _ => ?_
  simp only [cond_assert_is_not_none, eval, evalCmp, Ctx.side, V.ofBool, V.fresh, truthy]
  cases hl : c.left.px <;> cases hv : c.left.v <;>
    simp [hl, hv, evalOutcome, relOutcome, V.ofBool, V.fresh, truthy, pyIs, V.unwrapped, isNoneVal]

theorem c07_assert_true : Correct "assert_true" cond_assert_true := by
  refine correct_of _ _ _ rfl fun c _ => ?_
  simp only [cond_assert_true, eval, Ctx.side]
  cases h : truthy c.left.v <;> c07_crunch

theorem c07_assert_false : Correct "assert_false" cond_assert_false := by
  refine correct_of _ _ _ rfl fun c _ => ?_
  simp only [cond_assert_false, eval, Ctx.side]
  cases h : truthy c.left.v <;> c07_crunch

/-! ## length -/

theorem c07_assert_length_equal : Correct "assert_length_equal" cond_assert_length_equal := by
  refine correct_of _ _ _ rfl fun c _ => ?_
  unfold cond_assert_length_equal
  rw [eval, eval_len_left]
  cases h : pyLen c.left.v with
  | error e => cases e <;> c07_crunch
  | ok n =>
    simp only [eval, evalCmp, Ctx.side]
    cases h2 : pyEq (.int n) c.right.v <;> simp [Except.map, V.ofBool, V.fresh, truthy, evalOutcome, relOutcome, h2]

theorem c07_assert_length_not_equal : Correct "assert_length_not_equal" cond_assert_length_not_equal := by
  refine correct_of _ _ _ rfl fun c _ => ?_
  unfold cond_assert_length_not_equal
  rw [eval, eval_len_left]
  cases h : pyLen c.left.v with
  | error e => cases e <;> c07_crunch
  | ok n =>
    simp only [eval, evalCmp, Ctx.side]
    cases h2 : pyEq (.int n) c.right.v <;> simp [Except.map, V.ofBool, V.fresh, truthy, evalOutcome, relOutcome, h2]

theorem c07_assert_length_less : Correct "assert_length_less" cond_assert_length_less := by
  refine correct_of _ _ _ rfl fun c _ => ?_
  unfold cond_assert_length_less
  rw [eval, eval_len_left]
  simp only [lenRel]
  cases h : pyLen c.left.v with
  | error e => cases e <;> c07_crunch
  | ok n =>
    simp only [eval, evalCmp, Ctx.side, cmpRel, V.fresh]
    cases h2 : pyCmp (.int n) c.right.v with
    | error e => cases e <;> c07_crunch
    | ok o =>
      have hu := pyCmp_int_left n c.right.v o h2
      cases o <;> first | (exact absurd rfl hu) | c07_crunch

theorem c07_assert_length_less_equal : Correct "assert_length_less_equal" cond_assert_length_less_equal := by
  refine correct_of _ _ _ rfl fun c _ => ?_
  unfold cond_assert_length_less_equal
  rw [eval, eval_len_left]
  simp only [lenRel]
  cases h : pyLen c.left.v with
  | error e => cases e <;> c07_crunch
  | ok n =>
    simp only [eval, evalCmp, Ctx.side, cmpRel, V.fresh]
    cases h2 : pyCmp (.int n) c.right.v with
    | error e => cases e <;> c07_crunch
    | ok o =>
      have hu := pyCmp_int_left n c.right.v o h2
      cases o <;> first | (exact absurd rfl hu) | c07_crunch

theorem c07_assert_length_greater : Correct "assert_length_greater" cond_assert_length_greater := by
  refine correct_of _ _ _ rfl fun c _ => ?_
  unfold cond_assert_length_greater
  rw [eval, eval_len_left]
  simp only [lenRel]
  cases h : pyLen c.left.v with
  | error e => cases e <;> c07_crunch
  | ok n =>
    simp only [eval, evalCmp, Ctx.side, cmpRel, V.fresh]
    cases h2 : pyCmp (.int n) c.right.v with
    | error e => cases e <;> c07_crunch
    | ok o =>
      have hu := pyCmp_int_left n c.right.v o h2
      cases o <;> first | (exact absurd rfl hu) | c07_crunch

theorem c07_assert_length_greater_equal : Correct "assert_length_greater_equal" cond_assert_length_greater_equal := by
  refine correct_of _ _ _ rfl fun c _ => ?_
  unfold cond_assert_length_greater_equal
  rw [eval, eval_len_left]
  simp only [lenRel]
  cases h : pyLen c.left.v with
  | error e => cases e <;> c07_crunch
  | ok n =>
    simp only [eval, evalCmp, Ctx.side, cmpRel, V.fresh]
    cases h2 : pyCmp (.int n) c.right.v with
    | error e => cases e <;> c07_crunch
    | ok o =>
      have hu := pyCmp_int_left n c.right.v o h2
      cases o <;> first | (exact absurd rfl hu) | c07_crunch

/-! ## isinstance -/

theorem c07_assert_is_instance : Correct "assert_is_instance" cond_assert_is_instance := by
  refine correct_of _ _ _ rfl fun c _ => ?_
  have hcond : cond_assert_is_instance = .not_ (.isinstance (.value .left) widenExpr) := rfl
  rw [hcond]
  obtain ⟨w, hw, hv⟩ := eval_widen c
  simp only [eval, hw, Ctx.side, hv]
  cases h : pyIsInstance c.left.v (widenCls c.right.v) with
  | error e => cases e <;> c07_crunch
  | ok o => cases o <;> c07_crunch

theorem c07_assert_not_is_instance : Correct "assert_not_is_instance" cond_assert_not_is_instance := by
  refine correct_of _ _ _ rfl fun c _ => ?_
  have hcond : cond_assert_not_is_instance = .isinstance (.value .left) widenExpr := rfl
  rw [hcond]
  obtain ⟨w, hw, hv⟩ := eval_widen c
  simp only [eval, hw, Ctx.side, hv]
  cases h : pyIsInstance c.left.v (widenCls c.right.v) with
  | error e => cases e <;> c07_crunch
  | ok o => cases o <;> c07_crunch

/-! ## equality -/

theorem c07_assert_equal : Correct "assert_equal" cond_assert_equal := by
  refine correct_of _ _ _ rfl fun c hc => ?_
  unfold cond_assert_equal
  rw [eval_or_errors2 c _ hc]
  exact evalOutcome_not c _ _ (eval_equalityTest_params c)

theorem c07_assert_almost_equal : Correct "assert_almost_equal" cond_assert_almost_equal := by
  refine correct_of _ _ _ rfl fun c hc => ?_
  unfold cond_assert_almost_equal
  rw [eval_or_errors2 c _ hc]
  exact evalOutcome_not c _ _ (eval_equalityTest_params c)

theorem c07_assert_not_equal : Correct "assert_not_equal" cond_assert_not_equal := by
  refine correct_of _ _ _ rfl fun c _ => ?_
  exact evalOutcome_pos c _ _ (eval_equalityTest_params c)

theorem c07_assert_not_almost_equal : Correct "assert_not_almost_equal" cond_assert_not_almost_equal := by
  refine correct_of _ _ _ rfl fun c _ => ?_
  exact evalOutcome_pos c _ _ (eval_equalityTest_params c)

/-! ## regular expressions (for every `re.search`) -/

theorem c07_assert_regex : Correct "assert_regex" cond_assert_regex := by
  refine correct_of _ _ _ rfl fun c _ => ?_
  have h := evalOutcome_pos c _ _ (eval_regex c).1
  rwa [notR_notR] at h

theorem c07_assert_not_regex : Correct "assert_not_regex" cond_assert_not_regex := by
  refine correct_of _ _ _ rfl fun c _ => ?_
  exact evalOutcome_pos c _ _ (eval_regex c).2

/-! ## printed output (for every captured output) -/

theorem c07_assert_output : Correct "assert_output" cond_assert_output := by
  refine correct_of _ _ _ rfl fun c hc => ?_
  unfold cond_assert_output
  rw [eval_or_errors1 c _ hc]
  exact evalOutcome_not c _ _ (eval_output_equality c)

theorem c07_assert_prints : Correct "assert_prints" cond_assert_prints := by
  refine correct_of _ _ _ rfl fun c hc => ?_
  unfold cond_assert_prints
  rw [eval_or_errors1 c _ hc]
  exact evalOutcome_not c _ _ (eval_output_equality c)

theorem c07_assert_not_output : Correct "assert_not_output" cond_assert_not_output := by
  refine correct_of _ _ _ rfl fun c _ => ?_
  exact evalOutcome_pos c _ _ (eval_output_equality c)

theorem c07_assert_output_contains : Correct "assert_output_contains" cond_assert_output_contains := by
  refine correct_of _ _ _ rfl fun c _ => ?_
  have h := evalOutcome_pos c _ _ (eval_output_contains c).2
  rwa [notR_notR] at h

theorem c07_assert_not_output_contains : Correct "assert_not_output_contains" cond_assert_not_output_contains := by
  refine correct_of _ _ _ rfl fun c _ => ?_
  exact evalOutcome_pos c _ _ (eval_output_contains c).1

theorem c07_assert_output_regex : Correct "assert_output_regex" cond_assert_output_regex := by
  refine correct_of _ _ _ rfl fun c hc => ?_
  unfold cond_assert_output_regex
  rw [eval_or_errors1 c _ hc]
  have h := evalOutcome_pos c _ _ (eval_output_regex c).1
  rwa [notR_notR] at h

theorem c07_assert_not_output_regex : Correct "assert_not_output_regex" cond_assert_not_output_regex := by
  refine correct_of _ _ _ rfl fun c _ => ?_
  exact evalOutcome_pos c _ _ (eval_output_regex c).2

end Pedal.Assertions

import PedalModel.SectionsG
/-
Tie between the hand-written sections model (`Pedal.Sections.step` / `run`, which the C17 theorems are stated
about) and the arithmetic regenerated from pedal/source/sections.py on every run (`Pedal.Gen.Sections.program`).

* `nextG_of_agrees`    : code-independent - a program whose extracted expressions have the closed forms of
                         `Agrees` IS the hand model's `.next` step, for every state;
* `sections_ir_agrees` : the program generated from the current tree satisfies `Agrees` - one `simp` + `omega`
                         per expression, for ALL indices / lengths / newline counts (so `(1 + i) // 2`, a bound
                         spelled through a local, `found >= section_number` ... still pass, while an off-by-one, a
                         changed increment, `<` for `<=` or swapped arguments do not);
* `runG_eq_run`        : hence the function the driver executes equals the hand model on every operation sequence.
-/
namespace Pedal.Sections
open Pedal.SectionsIR

theorem nextG_of_agrees (p : Program) (h : Agrees p) (s : St) : nextG p s = some (step s .next) := by
  unfold nextG step
  simp only [h.shape.1, h.shape.2, Bool.and_self, Bool.not_true, Bool.false_eq_true, if_false]
  cases hsub : s.subs.getLast? with
  | none => rfl
  | some old =>
    have hn := h.number { idx := (s.idx : Int) + 2, len := s.sections.length, nl := 0, number := 0, found := 0, param := 0 }
      (by show (0 : Int) ≤ (s.idx : Int) + 2; omega)
    have hf := h.found { idx := (s.idx : Int) + 2, len := s.sections.length, nl := 0, number := 0, found := 0, param := 0 }
      (by show (0 : Int) ≤ (s.sections.length : Int); omega)
    simp only [h.inc, Option.bind_some, hn, hf, h.guard, h.indepIndex, h.indepOldStop,
      h.indepOffset, h.cumulStop, h.notEnoughFirst, h.notEnoughSecond, sectionNumber]
    have e1 : ((s.idx : Int) + 2 + 1) / 2 = (((s.idx + 2 + 1) / 2 : Nat) : Int) := by omega
    have e2 : (s.sections.length : Int) / 2 = (((s.sections.length - 1 + 1) / 2 : Nat) : Int) := by omega
    have t1 : ((s.idx : Int) + 2).toNat = s.idx + 2 := by omega
    have t2 : ((s.idx : Int) + 2 + 1).toNat = s.idx + 2 + 1 := by omega
    simp only [e1, e2, t1, t2, Int.toNat_natCast, Int.ofNat_le]
    by_cases hg : (s.idx + 2 + 1) / 2 ≤ (s.sections.length - 1 + 1) / 2
    · by_cases hi : s.independent = true <;> simp [hg, hi]
    · simp [hg]

/-- The program generated from the current tree has the closed forms the model uses. -/
theorem sections_ir_agrees : Agrees Gen.Sections.program where
  shape := by decide
  inc := by intro env; simp [Gen.Sections.program, AExp.eval]
  number := by
    intro env h
    simp [numberVia, Gen.Sections.program, AExp.eval]
    try omega
  found := by
    intro env h
    simp [numberVia, Gen.Sections.program, AExp.eval]
    try omega
  guard := by
    intro env
    simp [guardVia, Gen.Sections.program, AExp.eval, Cmp.eval]
    try omega
  indepIndex := by intro env; simp [Gen.Sections.program, AExp.eval] <;> try omega
  indepOldStop := by intro env; simp [Gen.Sections.program, AExp.eval] <;> try omega
  indepOffset := by intro env; simp [Gen.Sections.program, AExp.eval] <;> try omega
  cumulStop := by intro env; simp [Gen.Sections.program, AExp.eval] <;> try omega
  notEnoughFirst := by intro env; simp [Gen.Sections.program, AExp.eval] <;> try omega
  notEnoughSecond := by intro env; simp [Gen.Sections.program, AExp.eval] <;> try omega

theorem stepG_eq_step (s : St) (op : Op) : stepG s op = some (step s op) := by
  cases op <;> simp [stepG, nextG_of_agrees _ sections_ir_agrees]

/-- What the driver executes is the hand model, for the program generated from the current tree. -/
theorem runG_eq_run (s : St) (ops : List Op) : runG s ops = some (run s ops) := by
  induction ops generalizing s with
  | nil => rfl
  | cons op ops ih =>
    simp only [runG, run, stepG_eq_step]
    cases h : step s op with
    | none => rfl
    | some s' => simpa using ih s'

end Pedal.Sections

import PedalProofs.TimeoutLemmas
namespace Pedal.Timeout


set_option maxHeartbeats 1000000 in
theorem inv_stepG (s : St) (h : Inv s) : Inv (stepG fixed s) := by
  obtain ⟨hl, hstk, hpend, htimed, hexit, hcap, hfb, hexc, hnext, hid1, hid2, hctx, hraw, hout1, hout2, hret, hdepth, hbefore, hesc, hesc1⟩ := h
  rcases s with ⟨gpc, tpc, claim, pending, tExit, timedOut, patches, stdouts, sysStdout, buf1, buf2, real, raw, out1, out2, ctxs, id1, id2, nextId, exc, feedback, excAtReturn, depthAtReturn, excBeforeNext, e2Escaped, e1Escaped⟩
  simp only at hl hstk hpend htimed hexit hcap hfb hexc hnext hid1 hid2 hctx hraw hout1 hout2 hret hdepth hbefore hesc hesc1
  cases gpc <;> rcases claim with _ | (_ | _) <;> cases tpc <;>
    simp [legal, GPc.rank, TPc.rank] at hl <;>
    (simp only [expStacks, Prod.mk.injEq] at hstk
     obtain ⟨rfl, rfl, rfl⟩ := hstk
     constructor <;>
       simp_all [stepG, fixed, legal, expStacks, expFb, expExc, expNext, e1Appended, e1Exc, GPc.rank, TPc.rank,
         St.stopPatches, St.write, St.appendOutput, St.capture, St.lastCtx, St.content, excOfExit] <;> try decide)
end Pedal.Timeout

import PedalModel.Source
/-
C12 — verify() reports a syntax error exactly when Python's parser rejects the source.
The parser is a parameter: theorems quantify over every parser outcome of the modelled shape
(tree, or an exception class with an optional line), every line offset and both pre-check flags.
-/
namespace Pedal.Source
open Pedal.Gen.Source

/-- Exception classes CPython's `ast.parse` raises for some text (3.12): rejections of the source. -/
def rejectingClasses : List String :=
  ["SyntaxError", "IndentationError", "TabError", "MemoryError", "RecursionError", "ValueError",
   "UnicodeError", "UnicodeEncodeError", "UnicodeDecodeError"]

/-- The parser outcome is a tree or one of the rejecting classes. -/
def Modelled (i : Input) : Prop := ∀ cls ln, i.parse = some (cls, ln) → cls ∈ rejectingClasses

def handlerOk (cls : String) : Bool :=
  match findHandler cls handlers with
  | some (fb, _) => isSyntaxErrorFeedback fb && fb != "opaque"
  | none => false

def handlerPassesLine (cls : String) : Bool :=
  match findHandler cls handlers with
  | some (_, kind) => kind == "lineno"
  | none => false

theorem ladder_table : rejectingClasses.all handlerOk = true ∧
    ["SyntaxError", "IndentationError", "TabError"].all handlerPassesLine = true := by decide

/-- Every rejecting class is caught by the generated ladder, by a handler that reports a
    syntax/indentation error. -/
theorem ladder_covers (cls : String) (h : cls ∈ rejectingClasses) :
    ∃ fb kind, findHandler cls handlers = some (fb, kind) ∧ isSyntaxErrorFeedback fb = true ∧ fb ≠ "opaque" := by
  have := List.all_eq_true.mp ladder_table.1 cls h
  unfold handlerOk at this
  split at this
  · rename_i fb kind hf
    simp only [Bool.and_eq_true, bne_iff_ne, ne_eq] at this
    exact ⟨fb, kind, hf, this.1, this.2⟩
  · cases this

/-- Classes whose exceptions carry CPython's line: the handler passes `e.lineno`. -/
theorem ladder_passes_line (cls : String) (h : cls ∈ ["SyntaxError", "IndentationError", "TabError"]) :
    ∃ fb, findHandler cls handlers = some (fb, "lineno") := by
  have := List.all_eq_true.mp ladder_table.2 cls h
  unfold handlerPassesLine at this
  split at this
  · rename_i fb kind hf
    simp only [beq_iff_eq] at this
    exact ⟨fb, by rw [hf, this]⟩
  · cases this

theorem tables_sane :
    loadErrorFeedback ≠ "opaque" ∧ loadErrorReturns = true ∧ blankFeedback ≠ "opaque" ∧ blankReturns = false ∧
    elseSetsSuccess = true ∧ isSyntaxErrorFeedback loadErrorFeedback = false ∧
    isSyntaxErrorFeedback blankFeedback = false ∧
    feedbackCategory.lookup "syntax_error" = some "syntax" ∧
    feedbackCategory.lookup "indentation_error" = some "syntax" ∧
    feedbackCategory.lookup blankFeedback = some "syntax" := by decide

/-- verify() never raises, whatever the (modelled) parser outcome, offset and pre-check flags. -/
theorem c12_never_raises (i : Input) (hm : Modelled i) : (verify i).raised = none := by
  obtain ⟨h1, h2, h3, h4, -⟩ := tables_sane
  unfold verify
  cases hl : i.loadError
  · cases hp : i.parse with
    | none => cases hb : i.blank <;> simp [h3, h4]
    | some p =>
      obtain ⟨cls, ln⟩ := p
      obtain ⟨fb, kind, hf, -, hne⟩ := ladder_covers cls (hm cls ln hp)
      cases hb : i.blank <;> simp [h3, h4, hf, hne]
  · simp [h1, h2]

/-- A syntax/indentation error feedback is attached iff the parser rejected the text. -/
theorem c12_feedback_iff_rejected (i : Input) (hm : Modelled i) (hl : i.loadError = false) :
    (∃ fb ∈ (verify i).feedback, isSyntaxErrorFeedback fb.1 = true) ↔ i.parse.isSome = true := by
  obtain ⟨h1, h2, h3, h4, h5, h6, h7, -⟩ := tables_sane
  unfold verify
  cases hp : i.parse with
  | none => cases hb : i.blank <;> simp [hl, h3, h4, h7]
  | some p =>
    obtain ⟨cls, ln⟩ := p
    obtain ⟨fb, kind, hf, hs, hne⟩ := ladder_covers cls (hm cls ln hp)
    cases hb : i.blank <;> simp [hl, h3, h4, hf, hne, hs]

/-- Exactly one such feedback, and its line is CPython's line shifted by the section offset. -/
theorem c12_line_is_cpython_line_plus_offset (i : Input) (hl : i.loadError = false)
    (cls : String) (ln : Nat) (hp : i.parse = some (cls, some ln))
    (hc : cls ∈ ["SyntaxError", "IndentationError", "TabError"]) :
    ∃ fb, (verify i).feedback.filter (fun f => isSyntaxErrorFeedback f.1) = [(fb, some (ln + i.offset))] := by
  obtain ⟨h1, h2, h3, h4, h5, h6, h7, -⟩ := tables_sane
  obtain ⟨fb, hf⟩ := ladder_passes_line cls hc
  have hcov : cls ∈ rejectingClasses := by
    simp only [List.mem_cons, List.not_mem_nil, or_false] at hc
    rcases hc with h | h | h <;> subst h <;> decide
  obtain ⟨fb', kind', hf', hs, hne⟩ := ladder_covers cls hcov
  rw [hf] at hf'
  simp only [Option.some.injEq, Prod.mk.injEq] at hf'
  obtain ⟨rfl, rfl⟩ := hf'
  refine ⟨fb, ?_⟩
  unfold verify
  cases hb : i.blank <;> simp [hl, hp, h3, h4, hf, hne, hs, h7, lineFor, List.filter]

/-- Blank source is reported as blank (and a load error as file-not-found), without raising. -/
theorem c12_blank_reported (i : Input) (hl : i.loadError = false) (hb : i.blank = true) (hm : Modelled i) :
    (blankFeedback, none) ∈ (verify i).feedback := by
  obtain ⟨h1, h2, h3, h4, -⟩ := tables_sane
  unfold verify
  cases hp : i.parse with
  | none => simp [hl, hb, h3, h4]
  | some p =>
    obtain ⟨cls, ln⟩ := p
    obtain ⟨fb, kind, hf, -, hne⟩ := ladder_covers cls (hm cls ln hp)
    simp [hl, hb, h3, h4, hf, hne]

/-- When the text parses, the stored tree is the parser's and no syntax-error feedback is attached. -/
theorem c12_tree_stored (i : Input) (hl : i.loadError = false) (hp : i.parse = none) :
    (verify i).parsedTreeStored = true ∧ (verify i).success = true ∧
    ∀ fb ∈ (verify i).feedback, isSyntaxErrorFeedback fb.1 = false := by
  obtain ⟨h1, h2, h3, h4, h5, h6, h7, -⟩ := tables_sane
  unfold verify
  cases hb : i.blank <;> simp [hl, hp, h3, h4, h5, h7]

/-- …and when it does not parse, the parser's tree is not stored and verify answers False. -/
theorem c12_rejected_not_stored (i : Input) (hm : Modelled i) (hl : i.loadError = false)
    (hp : i.parse.isSome = true) : (verify i).parsedTreeStored = false ∧ (verify i).success = false := by
  obtain ⟨h1, h2, h3, h4, -⟩ := tables_sane
  unfold verify
  cases hp' : i.parse with
  | none => simp [hp'] at hp
  | some p =>
    obtain ⟨cls, ln⟩ := p
    obtain ⟨fb, kind, hf, -, hne⟩ := ladder_covers cls (hm cls ln hp')
    cases hb : i.blank <;> simp [hl, h3, h4, hf, hne]

/- Non-vacuity (evaluated tests): a TabError at CPython line 3 inside a section starting at line 2,
   a NUL byte (no line), a parser give-up. -/
#guard verify { loadError := false, blank := false, parse := some ("TabError", some 3), offset := 2 }
        == { feedback := [("indentation_error", some 5)], success := false }
#guard verify { loadError := false, blank := false, parse := some ("SyntaxError", none), offset := 0 }
        == { feedback := [("syntax_error", none)], success := false }
#guard verify { loadError := false, blank := true, parse := some ("MemoryError", none), offset := 7 }
        == { feedback := [("blank_source", none), ("syntax_error", none)], success := false }

end Pedal.Source

import PedalModel.Proxy
/-
Lemmas for C16 about the protocol model and plan interpreter in PedalModel/Proxy.lean, for an arbitrary
type table and an arbitrary proxy class.  The property theorems (PedalProofs/C16.lean) instantiate them with the
generated plans.
-/
namespace Pedal.Proxy

/-- `v'` is what a transparent proxy operation may hand back for a raw result `v`: the value or a proxy of it. -/
def Faithful (v v' : Val) : Prop := v' = v ∨ v' = .proxy v

/-- Transparency of one operation: `real` on the raw operands, `prox` with proxies placed.
If the raw operation yields a value, the proxied one yields that value (possibly wrapped again), prints nothing
and — for an ordinary value — is neither NotImplemented nor a wrapped NotImplemented; if the raw operation
raises, so does the proxied one. -/
def Transparent (real prox : Out) : Prop :=
  (∀ v, real.res = .ret v →
    ∃ v', prox.res = .ret v' ∧ Faithful v v' ∧ prox.printed = false ∧
      (∀ i, v = .raw i → v' ≠ .notImpl ∧ v' ≠ .proxy .notImpl)) ∧
  (∀ e, real.res = .raise e → ∃ e', prox.res = .raise e')

theorem faithful_raw {i : Nat} {v' : Val} (h : Faithful (.raw i) v') : v' ≠ .notImpl ∧ v' ≠ .proxy .notImpl := by
  rcases h with h | h <;> subst h <;> constructor <;> intro h' <;> cases h'

theorem transparent_refl (o : Out) (h : o.printed = false) : Transparent o o :=
  ⟨fun v hv => ⟨v, hv, Or.inl rfl, h, fun _ hi => by subst hi; exact faithful_raw (Or.inl rfl)⟩, fun e he => ⟨e, he⟩⟩

theorem transparent_wrap (o : Out) (h : o.printed = false) : Transparent o (wrapOut true o) := by
  constructor
  · intro v hv
    refine ⟨.proxy v, ?_, Or.inr rfl, ?_, fun _ hi => by subst hi; exact faithful_raw (Or.inr rfl)⟩
    · simp [wrapOut, hv]
    · simp [wrapOut, hv, h]
  · intro e he
    exact ⟨e, by simp [wrapOut, he]⟩

theorem transparent_wrapOut (w : Bool) (o : Out) (h : o.printed = false) : Transparent o (wrapOut w o) := by
  cases w
  · have : wrapOut false o = o := by
      unfold wrapOut; cases hr : o.res <;> simp
    rw [this]; exact transparent_refl o h
  · exact transparent_wrap o h

/-! ### `orElse` / `dispatchCore` -/

theorem orElse_of_ne (a : Out) (b : Unit → Out) (h : a.res ≠ .ret .notImpl) : a.orElse b = a := by
  unfold Out.orElse
  split
  · next h' => exact absurd h' h
  · rfl

theorem orElse_declined (b : Unit → Out) : declined.orElse b = b () := by
  simp [Out.orElse, declined]

theorem orElse_quiet_NI (b : Unit → Out) : (quiet (.ret .notImpl)).orElse b = b () := by
  simp [Out.orElse, quiet]

theorem orElse_printed (a : Out) (b : Unit → Out) (ha : a.printed = false) (hb : (b ()).printed = false) :
    (a.orElse b).printed = false := by
  unfold Out.orElse
  split <;> simp [ha, hb]

theorem orElse_res_NI (a : Out) (b : Unit → Out) (h : (a.orElse b).res = .ret .notImpl) :
    (b ()).res = .ret .notImpl := by
  unfold Out.orElse at h
  split at h
  · simpa using h
  · next h' => exact absurd h h'

theorem tryOpt_printed (f : Option (Unit → Out)) (h : ∀ g, f = some g → (g ()).printed = false) :
    (tryOpt f).printed = false := by
  cases f with
  | none => rfl
  | some g => exact h g rfl

theorem dispatchCore_printed (ra rf : Bool) (fwd refl : Option (Unit → Out)) (fb : Unit → Out)
    (hf : ∀ g, fwd = some g → (g ()).printed = false) (hr : ∀ g, refl = some g → (g ()).printed = false)
    (hb : (fb ()).printed = false) : (dispatchCore ra rf fwd refl fb).printed = false := by
  unfold dispatchCore
  split
  · exact orElse_printed _ _ (tryOpt_printed _ hr) (orElse_printed _ _ (tryOpt_printed _ hf) hb)
  · refine orElse_printed _ _ (tryOpt_printed _ hf) (orElse_printed _ _ ?_ hb)
    split
    · exact tryOpt_printed _ hr
    · rfl

theorem dispatchCore_ne_NI (ra rf : Bool) (fwd refl : Option (Unit → Out)) (fb : Unit → Out)
    (hb : (fb ()).res ≠ .ret .notImpl) : (dispatchCore ra rf fwd refl fb).res ≠ .ret .notImpl := by
  intro h
  unfold dispatchCore at h
  split at h
  · exact hb (orElse_res_NI _ _ (orElse_res_NI _ _ h))
  · exact hb (orElse_res_NI _ _ (orElse_res_NI _ _ h))

theorem binaryOp_printed (T : TypeTable) (op : BinOp) (l r : Nat) : (binaryOp T op l r).printed = false := by
  unfold binaryOp
  apply dispatchCore_printed
  · intro g hg
    cases h : nbSlot T (T.cls l) op.dunder <;> simp [h] at hg
    subst hg; rfl
  · intro g hg
    cases h : nbSlot T (T.cls r) op.rdunder <;> simp [h] at hg
    subst hg; rfl
  · rfl

/-- A comparison never evaluates to the NotImplemented singleton (its fallback is identity or TypeError). -/
theorem binaryOp_cmp_ne_NI (T : TypeTable) (op : BinOp) (l r : Nat) (h : op.isCmp = true) :
    (binaryOp T op l r).res ≠ .ret .notImpl := by
  unfold binaryOp
  apply dispatchCore_ne_NI
  cases op <;> simp [BinOp.isCmp] at h <;> simp [fallback, quiet]

theorem wrapOut_true_ne_NI (o : Out) : (wrapOut true o).res ≠ .ret .notImpl := by
  unfold wrapOut
  cases h : o.res <;> simp [h]

theorem withPrint_false (o : Out) : withPrint false o = o := by
  unfold withPrint
  cases o with
  | mk res printed => cases res <;> simp

/-! ### The proxy on the left -/

/-- A forward method of the canonical shape evaluates the operator itself on the unwrapped operands. -/
theorem runPlan_infix (T : TypeTable) (op : BinOp) (a b : Arg) (w : Bool) (self : Nat) (other : Operand) :
    runPlan T (.plan ⟨.infix op a b, none, false, w, true⟩) self other
      = wrapOut w (binaryOp T op (pick self other.id a) (pick self other.id b)) := by
  cases other <;> simp [runPlan, evalBin, withPrint_false]

/-- With the proxy as left operand its forward method answers first, and it never declines. -/
theorem outerBinary_left (T : TypeTable) (P : ProxyClass) (op : BinOp) (w : Bool) (l : Nat) (ro : Operand)
    (hentry : P.entry op.dunder = some (.plan ⟨.infix op .self .other, none, false, w, true⟩))
    (hw : w = true ∨ op.isCmp = true) :
    outerBinary T P op (.proxy l) ro = wrapOut w (binaryOp T op l ro.id) := by
  have hne : (wrapOut w (binaryOp T op l ro.id)).res ≠ .ret .notImpl := by
    rcases hw with hw | hw
    · subst hw; exact wrapOut_true_ne_NI _
    · cases w
      · have : wrapOut false (binaryOp T op l ro.id) = binaryOp T op l ro.id := by
          unfold wrapOut; cases hr : (binaryOp T op l ro.id).res <;> simp
        rw [this]; exact binaryOp_cmp_ne_NI T op l ro.id hw
      · exact wrapOut_true_ne_NI _
  cases ro <;>
    simp only [outerBinary, hentry, Option.map_some, dispatchCore, tryOpt, Bool.false_eq_true, if_false,
      runPlan_infix, pick, Operand.id] <;>
    exact orElse_of_ne _ _ hne

/-! ### The proxy on the right -/

theorem outerBinary_right (T : TypeTable) (P : ProxyClass) (op : BinOp) (l r : Nat) (R : Out)
    (hrefl : (P.entry op.rdunder).map (fun pl (_ : Unit) => runPlan T pl r (.raw l)) = some (fun _ => R))
    (hR : R.res ≠ .ret .notImpl) (hRT : Transparent (binaryOp T op l r) R)
    (hok : RightOK T op l r = true) :
    Transparent (binaryOp T op l r) (outerBinary T P op (.raw l) (.proxy r)) := by
  have hfb : ∀ fb : Unit → Out, R.orElse fb = R := fun fb => orElse_of_ne _ _ hR
  have hgoR : ∀ fb : Unit → Out, (declined.orElse fun _ => R.orElse fb) = R := by
    intro fb; rw [orElse_declined, hfb]
  unfold RightOK at hok
  simp only [outerBinary, hrefl, dispatchCore, Bool.false_eq_true, if_false, Operand.isProxy, Bool.false_and,
    Bool.not_false, Bool.or_true, if_true, tryOpt]
  cases hs : nbSlot T (T.cls l) op.dunder with
  | none => simp only [Option.map_none]; rw [hgoR]; exact hRT
  | some s =>
    simp only [hs] at hok
    simp only [Option.map_some, callReal]
    cases hf : T.foreign s with
    | sees => simp [hf] at hok
    | declines =>
      simp only []
      rw [orElse_quiet_NI, hfb]; exact hRT
    | blind =>
      simp only [hf, Bool.not_eq_true'] at hok
      simp only []
      by_cases hni : T.call s l r = .ret .notImpl
      · rw [hni, orElse_quiet_NI, hfb]; exact hRT
      · have hne : (quiet (T.call s l r)).res ≠ .ret .notImpl := hni
        rw [orElse_of_ne _ _ hne]
        have hreal : binaryOp T op l r = quiet (T.call s l r) := by
          unfold binaryOp
          simp only [hok, dispatchCore, Bool.false_eq_true, if_false, hs, Option.map_some, tryOpt]
          exact orElse_of_ne _ _ hne
        rw [hreal]; exact transparent_refl _ rfl

/-! ### Conversions -/

theorem finishStep_printed (T : TypeTable) (st : Step) (o : Out) (h : o.printed = false) :
    (finishStep T st o).printed = false := by
  unfold finishStep
  cases hr : o.res with
  | raise e => simp [h]
  | unmodelled => simp [h]
  | ret v =>
    simp only []
    have hap : ∀ p, (applyPost T p v o.printed).printed = false := by
      intro p; unfold applyPost
      cases p with
      | none => simp [h]
      | some p => cases v <;> simp [h]
    cases st.check with
    | none => exact hap _
    | some k =>
      simp only []
      cases kindOK T k v with
      | none => simp [h]
      | some b =>
        cases b
        · simp [h]
        · exact hap _

theorem runChain_printed (T : TypeTable) (slot : Dunder → Option (Unit → Out)) (fb : Unit → Out)
    (hs : ∀ d g, slot d = some g → (g ()).printed = false) (hb : (fb ()).printed = false) :
    ∀ chain, (runChain T slot fb chain).printed = false := by
  intro chain
  induction chain with
  | nil => exact hb
  | cons st rest ih =>
    unfold runChain
    cases h : slot st.d with
    | none => simpa using ih
    | some g => exact finishStep_printed T st _ (hs _ _ h)

theorem convOp_printed (T : TypeTable) (c : Conv) (v : Nat) : (convOp T c v).printed = false := by
  unfold convOp
  apply runChain_printed
  · intro d g hg
    cases h : T.lookup (T.cls v) d <;> simp [h] at hg
    subst hg; rfl
  · rfl

def Stable (T : TypeTable) (st : Step) (o : Out) : Prop := stableB T st o = true

theorem finishStep_transparent (T : TypeTable) (st : Step) (o : Out) (hq : o.printed = false)
    (hst : Stable T st o) : Transparent o (finishStep T st o) := by
  cases o with
  | mk res printed =>
    simp only at hq; subst hq
    cases res with
    | ret r =>
      have : finishStep T st ⟨.ret r, false⟩ = ⟨.ret r, false⟩ := by simpa [Stable, stableB] using hst
      rw [this]; exact transparent_refl _ rfl
    | raise e => exact transparent_refl _ rfl
    | unmodelled => exact transparent_refl _ rfl

theorem finishStep_unchecked (T : TypeTable) (d : Dunder) (o : Out) : finishStep T ⟨d, none, none⟩ o = o := by
  unfold finishStep
  cases o with
  | mk res printed => cases res <;> simp [applyPost]

/-- A conversion method of the shape `return <builtin>(self.value)` (wrapped only where CPython does not
type-check the result). -/
theorem outerConv_builtin (T : TypeTable) (P : ProxyClass) (c : Conv) (v : Nat) (st : Step) (rest : List Step)
    (w u : Bool) (hchain : c.chain = st :: rest)
    (hentry : P.entry st.d = some (.plan ⟨.builtin c, none, false, w, u⟩))
    (hw : w = true → st.check = none ∧ st.post = none)
    (hst : w = false → Stable T st (convOp T c v)) :
    Transparent (convOp T c v) (outerConv T P c (.proxy v)) := by
  simp only [outerConv, hchain, runChain, hentry, Option.map_some, runPlan1, evalUn, withPrint_false]
  cases w with
  | false =>
    have : wrapOut false (convOp T c v) = convOp T c v := by
      unfold wrapOut; cases hr : (convOp T c v).res <;> simp
    rw [this]
    exact finishStep_transparent T st _ (convOp_printed T c v) (hst rfl)
  | true =>
    obtain ⟨h1, h2⟩ := hw rfl
    have hst' : st = ⟨st.d, none, none⟩ := by cases st; simp_all
    rw [hst', finishStep_unchecked]
    exact transparent_wrap _ (convOp_printed T c v)

/-- A conversion method of the shape `return [wrap] self.value.__d__()` for a builtin that consults only `__d__`. -/
theorem outerConv_method1 (T : TypeTable) (P : ProxyClass) (c : Conv) (v : Nat) (st : Step) (w u : Bool)
    (hchain : c.chain = [st])
    (hentry : P.entry st.d = some (.plan ⟨.method1 st.d, none, false, w, u⟩))
    (hw : w = true → st.check = none ∧ st.post = none)
    (hfb : T.lookup (T.cls v) st.d = none → ∀ r, T.convFallback c v ≠ .ret r) :
    Transparent (convOp T c v) (outerConv T P c (.proxy v)) := by
  simp only [outerConv, convOp, hchain, runChain, hentry, Option.map_some, runPlan1, evalUn, withPrint_false]
  cases hl : T.lookup (T.cls v) st.d with
  | none =>
    simp only [Option.map_none]
    refine ⟨fun r hr => absurd hr (hfb hl r), fun e _ => ?_⟩
    have : (finishStep T st (wrapOut w (quiet (.raise T.attrErr)))).res = .raise T.attrErr := by
      simp [wrapOut, quiet, finishStep]
    exact ⟨_, this⟩
  | some s =>
    simp only [Option.map_some]
    cases w with
    | false =>
      have : wrapOut false (quiet (T.call1 s v)) = quiet (T.call1 s v) := by
        unfold wrapOut; cases hr : (quiet (T.call1 s v)).res <;> simp
      rw [this]
      exact transparent_refl _ (finishStep_printed T st _ rfl)
    | true =>
      obtain ⟨h1, h2⟩ := hw rfl
      have hst' : st = ⟨st.d, none, none⟩ := by cases st; simp_all
      rw [hst', finishStep_unchecked, finishStep_unchecked]
      exact transparent_wrap _ rfl

/-! ### Containers -/

theorem getitemOp_printed (T : TypeTable) (c k : Nat) : (getitemOp T c k).printed = false := by
  unfold getitemOp; split <;> rfl

theorem containsOp_printed (T : TypeTable) (c k : Nat) : (containsOp T c k).printed = false := by
  unfold containsOp
  split
  · rfl
  · exact finishStep_printed T _ _ rfl

theorem outerGetitem_subscript (T : TypeTable) (P : ProxyClass) (c k : Nat) (w u : Bool)
    (hentry : P.entry .getitem = some (.plan ⟨.subscript, none, false, w, u⟩)) :
    Transparent (getitemOp T c k) (outerGetitem T P (.proxy c) k) := by
  simp only [outerGetitem, hentry, runPlan, evalBin, withPrint_false, Operand.id]
  exact transparent_wrapOut w _ (getitemOp_printed T c k)

theorem outerContains_isIn (T : TypeTable) (P : ProxyClass) (c k : Nat) (u : Bool)
    (hentry : P.entry .contains = some (.plan ⟨.isIn, none, false, false, u⟩))
    (hst : Stable T ⟨.contains, none, some .truth⟩ (containsOp T c k)) :
    Transparent (containsOp T c k) (outerContains T P (.proxy c) k) := by
  simp only [outerContains, hentry, runPlan, evalBin, withPrint_false, Operand.id]
  have : wrapOut false (containsOp T c k) = containsOp T c k := by
    unfold wrapOut; cases hr : (containsOp T c k).res <;> simp
  rw [this]
  exact finishStep_transparent T _ _ (containsOp_printed T c k) hst

/-! ### isinstance -/

theorem outerIsinstance_spoof (T : TypeTable) (P : ProxyClass) (v C : Nat) (hs : P.spoofsClass = true)
    (hC : T.isSub T.proxyCls C = false) :
    outerIsinstance T P (.proxy v) C = isinstanceOp T v C := by
  simp only [outerIsinstance, isinstanceOp, isinstanceCore, hs, if_true, hC, Bool.false_or, bne_self_eq_false,
    Bool.false_and, Bool.or_false]
  by_cases h : T.cls v = T.proxyCls
  · simp [h, hC]
  · have : (T.cls v != T.proxyCls) = true := by simpa using h
    simp [this]

end Pedal.Proxy

import PedalModel.ResolverIR
import PedalProofs.MergeSpecLemmas
/-
Tie between the hand-written resolver model (`Pedal.Resolver.merge` / `finalize` / `resolve`, which the
C01-C03 theorems are stated about) and the program regenerated from pedal/core/final_feedback.py on
every run (`Pedal.Gen.Merge.mergeTail`, `finalizeProgram`).

* `merge_ir_agrees`   : for EVERY observation the generated tail of `merge` produces exactly the effects of
                        the hand-written reading (`decide` over all 2^11 * 3 observations) -- this is the
                        obligation that breaks when the code of `merge` changes its behaviour;
* `finalize_ir_agrees`: the same for `finalize`'s two conditions, its suppression keys and its shape;
* `merge_eq_spec`     : the hand model's `merge` is that reading (proved once, independent of the code);
* `resolveIR_eq_resolve` : hence the function the driver executes equals the hand model.
-/
namespace Pedal.Resolver
open Pedal.Gen.Resolver Pedal.MergeIR

instance decForallKindTag (p : KindTag → Prop) [DecidablePred p] : Decidable (∀ k, p k) :=
  if h1 : p .compliment then
    if h2 : p .instructional then
      if h3 : p .other then isTrue (fun k => by cases k <;> assumption)
      else isFalse (fun h => h3 (h _))
    else isFalse (fun h => h2 (h _))
  else isFalse (fun h => h1 (h _))

/-- The generated `merge` tail agrees with the hand-written reading on every observation. -/
theorem merge_ir_agrees_bools :
    ∀ (a b c d e f g h i j k : Bool) (kd : KindTag),
      run Gen.Merge.mergeTail
        { triggered := a, muted := b, unscored := c, scoreNotNone := d, valenceNeNeg := e, elseMsg := f,
          fbCorrect := g, msgNotNone := h, catSystem := i, kind := kd, selfMsgNone := j, selfCorrect := k }
      = some (mergeTailSpec
        { triggered := a, muted := b, unscored := c, scoreNotNone := d, valenceNeNeg := e, elseMsg := f,
          fbCorrect := g, msgNotNone := h, catSystem := i, kind := kd, selfMsgNone := j, selfCorrect := k }) := by
  decide +kernel

theorem merge_ir_agrees (o : Obs) : run Gen.Merge.mergeTail o = some (mergeTailSpec o) := by
  cases o
  exact merge_ir_agrees_bools _ _ _ _ _ _ _ _ _ _ _ _

/-- `finalize` as generated: both conditions, the suppression keys and the statement shape. -/
theorem finalize_ir_agrees :
    Gen.Merge.finalizeProgram.shapeOk = true ∧
    Gen.Merge.finalizeProgram.hideKeys = ["correct", "success"] ∧
    ∀ (a b c d e : Bool),
      Gen.Merge.finalizeProgram.defaultMsgCond.eval
          { msgNone := a, hide := b, usedEmpty := c, labelDefault := d, catComplete := e } = some a ∧
      Gen.Merge.finalizeProgram.completeCond.eval
          { msgNone := a, hide := b, usedEmpty := c, labelDefault := d, catComplete := e }
        = some (!b && d && e && c) := by
  decide +kernel

theorem mergeIR_eq_merge (sups : List Sup) (st : Final) (f : Fb) :
    mergeIR sups st f = some (merge sups st f) := by
  rw [merge_eq_spec]
  unfold mergeIR
  by_cases hs : suppressed sups f = true
  · simp [hs]
  · simp [hs, merge_ir_agrees]

theorem foldMergeIR_eq (sups : List Sup) (fs : List Fb) (st : Final) :
    foldMergeIR sups fs st = some (fs.foldl (merge sups) st) := by
  induction fs generalizing st with
  | nil => rfl
  | cons f fs ih => simp [foldMergeIR, mergeIR_eq_merge, ih]

theorem hideCorrectnessKeys_eq (sups : List Sup) :
    hideCorrectnessKeys Gen.Merge.finalizeProgram.hideKeys sups = hideCorrectness sups := by
  rw [finalize_ir_agrees.2.1]
  simp [hideCorrectnessKeys, hideCorrectness]

theorem finalize_ir_conds (o : FinObs) :
    Gen.Merge.finalizeProgram.defaultMsgCond.eval o = some o.msgNone ∧
    Gen.Merge.finalizeProgram.completeCond.eval o
      = some (!o.hide && o.labelDefault && o.catComplete && o.usedEmpty) := by
  cases o
  exact finalize_ir_agrees.2.2 _ _ _ _ _

theorem finalizeIR_eq_finalize (sups : List Sup) (st : Final) :
    finalizeIR sups st = some (finalize sups st) := by
  have hshape := finalize_ir_agrees.1
  have h := finalize_ir_conds (finObs sups st)
  unfold finalizeIR finalize
  simp only [hshape, Bool.not_true, Bool.false_eq_true, if_false, h.1, h.2]
  simp only [finObs, hideCorrectnessKeys_eq]
  cases hm : st.message <;> simp <;> split <;> rfl

/-- The function the driver executes is the hand model, for the program generated from the current tree. -/
theorem resolveIR_eq_resolve (fs : List Fb) (raw : List Sup) : resolveIR fs raw = resolve fs raw := by
  unfold resolveIR resolve
  simp only [foldMergeIR_eq, Option.bind_some, finalizeIR_eq_finalize]

end Pedal.Resolver

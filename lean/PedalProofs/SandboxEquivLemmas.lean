import PedalModel.SandboxEquiv
/-
Lemmas for C06 about the namespace operations, `_make_temporary`/`_construct_call`, `_purge_temporaries` and
`_start_mocking` as modelled in PedalModel/SandboxEquiv.lean.
-/
namespace Pedal.SandboxEquiv

/-! ## association-list namespace -/

theorem lookup_filter_ne (l : NS) (k k' : Key) :
    List.lookup k' (l.filter fun e => e.1 != k) = if k' = k then none else List.lookup k' l := by
  induction l with
  | nil => simp
  | cons e rest ih =>
    obtain ⟨a, b⟩ := e
    by_cases ha : a = k
    · subst ha
      simp only [List.filter, bne_self_eq_false]
      rw [ih]
      by_cases hk : k' = a
      · simp [hk]
      · have : (k' == a) = false := by simp [hk]
        simp [hk, List.lookup, this]
    · have hne : (a != k) = true := by simp [ha]
      simp only [List.filter, hne]
      by_cases hk : k' = a
      · subst hk
        simp [List.lookup, ha]
      · have : (k' == a) = false := by simp [hk]
        simp only [List.lookup, this]
        exact ih

theorem get?_erase (ns : NS) (k k' : Key) :
    NS.get? (NS.erase ns k) k' = if k' = k then none else NS.get? ns k' := by
  unfold NS.get? NS.erase
  exact lookup_filter_ne ns k k'

theorem get?_erase_self (ns : NS) (k : Key) : NS.get? (NS.erase ns k) k = none := by
  simp [get?_erase]

theorem get?_erase_ne (ns : NS) (k k' : Key) (h : k' ≠ k) : NS.get? (NS.erase ns k) k' = NS.get? ns k' := by
  simp [get?_erase, h]

theorem get?_set_self (ns : NS) (k : Key) (v : Nat) : NS.get? (NS.set ns k v) k = some v := by
  simp [NS.set, NS.get?, List.lookup]

theorem get?_set_ne (ns : NS) (k k' : Key) (v : Nat) (h : k' ≠ k) : NS.get? (NS.set ns k v) k' = NS.get? ns k' := by
  have hk : (k' == k) = false := by simp [h]
  have : NS.get? (NS.set ns k v) k' = NS.get? (NS.erase ns k) k' := by
    simp [NS.set, NS.get?, List.lookup, hk]
  rw [this, get?_erase_ne ns k k' h]

theorem get?_set (ns : NS) (k k' : Key) (v : Nat) :
    NS.get? (NS.set ns k v) k' = if k' = k then some v else NS.get? ns k' := by
  by_cases h : k' = k
  · subst h; simp [get?_set_self]
  · simp [h, get?_set_ne ns k k' v h]


/-! ## temporaries -/

def Key.isTemp : Key → Bool
  | .temp .. => true
  | .name _ => false

/-- Between two executions: no temporaries pending; what is remembered as shadowed is what the namespace holds. -/
structure Inv (st : St) : Prop where
  temps_nil : st.temps = []
  backups_ok : ∀ k v, NS.get? st.backups k = some v → k.isTemp = true ∧ NS.get? st.data k = some v

/-- While `_construct_call` runs (from `st0`). -/
structure Mid (st0 st : St) : Prop where
  temps_temp : ∀ k, k ∈ st.temps → k.isTemp = true
  data_frame : ∀ k, k ∉ st.temps → NS.get? st.data k = NS.get? st0.data k
  backup_of : ∀ k, k ∈ st.temps → NS.get? st.backups k = NS.get? st0.data k
  backup_frame : ∀ k, k ∉ st.temps → NS.get? st.backups k = NS.get? st0.backups k

theorem mid_refl (st0 : St) (h : Inv st0) : Mid st0 st0 := by
  refine ⟨?_, fun _ _ => rfl, ?_, fun _ _ => rfl⟩ <;> intro k hk <;> rw [h.temps_nil] at hk <;> cases hk

theorem makeTemporary_var (cfg : CallCfg) (st : St) (key : Key) (a : Arg) (n : String) (hv : a.varName = some n) :
    makeTemporary cfg st key a = (.var n, st) := by
  simp [makeTemporary, hv]

theorem makeTemporary_lit (cfg : CallCfg) (st : St) (key : Key) (a : Arg) (hv : a.varName = none)
    (hl : usesLiteral cfg a = true) : makeTemporary cfg st key a = (.lit a.reprText, st) := by
  simp [makeTemporary, hv, hl]

theorem makeTemporary_tmp (cfg : CallCfg) (st : St) (key : Key) (a : Arg) (hv : a.varName = none)
    (hl : usesLiteral cfg a = false) :
    makeTemporary cfg st key a =
      (.tmp key, { data := NS.set st.data key a.val,
                   temps := if st.temps.contains key then st.temps else key :: st.temps,
                   backups := tmpBackups cfg st key }) := by
  simp [makeTemporary, hv, hl]

theorem makeTemporary_cases (cfg : CallCfg) (st : St) (key : Key) (a : Arg) :
    (∃ n, a.varName = some n ∧ makeTemporary cfg st key a = (.var n, st)) ∨
    (a.varName = none ∧ usesLiteral cfg a = true ∧ makeTemporary cfg st key a = (.lit a.reprText, st)) ∨
    (a.varName = none ∧ usesLiteral cfg a = false ∧ makeTemporary cfg st key a =
      (.tmp key, { data := NS.set st.data key a.val,
                   temps := if st.temps.contains key then st.temps else key :: st.temps,
                   backups := tmpBackups cfg st key })) := by
  cases hv : a.varName with
  | some n => exact Or.inl ⟨n, rfl, makeTemporary_var cfg st key a n hv⟩
  | none =>
    cases hl : usesLiteral cfg a with
    | true => exact Or.inr (Or.inl ⟨rfl, rfl, makeTemporary_lit cfg st key a hv hl⟩)
    | false => exact Or.inr (Or.inr ⟨rfl, rfl, makeTemporary_tmp cfg st key a hv hl⟩)

theorem makeTemporary_temps (cfg : CallCfg) (st : St) (key : Key) (a : Arg) :
    ∀ k, k ∈ (makeTemporary cfg st key a).2.temps → k = key ∨ k ∈ st.temps := by
  intro k hk
  rcases makeTemporary_cases cfg st key a with ⟨n, _, h⟩ | ⟨_, _, h⟩ | ⟨_, _, h⟩ <;> rw [h] at hk
  · exact Or.inr hk
  · exact Or.inr hk
  · simp only at hk
    by_cases hc : st.temps.contains key = true
    · rw [if_pos hc] at hk; exact Or.inr hk
    · rw [if_neg hc] at hk
      rcases List.mem_cons.mp hk with hk | hk
      · exact Or.inl hk
      · exact Or.inr hk

theorem makeTemporary_data_frame (cfg : CallCfg) (st : St) (key : Key) (a : Arg) (k : Key) (h : k ≠ key) :
    NS.get? (makeTemporary cfg st key a).2.data k = NS.get? st.data k := by
  rcases makeTemporary_cases cfg st key a with ⟨n, _, h'⟩ | ⟨_, _, h'⟩ | ⟨_, _, h'⟩ <;> rw [h']
  exact get?_set_ne _ _ _ _ h

theorem tmpBackups_get? (cfg : CallCfg) (hb : cfg.backsUp = true) (st : St) (key k : Key) :
    NS.get? (tmpBackups cfg st key) k =
      if k = key then (match NS.get? st.data key with
        | some old => some old
        | none => NS.get? st.backups key)
      else NS.get? st.backups k := by
  unfold tmpBackups
  cases hold : NS.get? st.data key with
  | some old =>
    simp only [hb, if_true]
    rw [get?_set]
  | none =>
    by_cases h : k = key
    · subst h; simp
    · simp [h]

theorem makeTemporary_mid (cfg : CallCfg) (st0 st : St) (key : Key) (a : Arg) (hinv : Inv st0)
    (hb : cfg.backsUp = true) (hm : Mid st0 st) (hk : key.isTemp = true) (hfresh : key ∉ st.temps) :
    Mid st0 (makeTemporary cfg st key a).2 := by
  rcases makeTemporary_cases cfg st key a with ⟨n, _, h⟩ | ⟨_, _, h⟩ | ⟨_, _, h⟩ <;> rw [h]
  · exact hm
  · exact hm
  · have hc : st.temps.contains key = false := by simpa using hfresh
    simp only [hc]
    have hdk : NS.get? st.data key = NS.get? st0.data key := hm.data_frame key hfresh
    have hmem : ∀ k, k ∈ (key :: st.temps) ↔ (k = key ∨ k ∈ st.temps) := fun k => List.mem_cons
    refine ⟨?_, ?_, ?_, ?_⟩
    · intro k hk'
      have hk'' : k ∈ key :: st.temps := by simpa using hk'
      rcases (hmem k).mp hk'' with rfl | hk''
      · exact hk
      · exact hm.temps_temp k hk''
    · intro k hk'
      have hk'' : k ∉ key :: st.temps := by simpa using hk'
      have hne : k ≠ key := fun h => hk'' ((hmem k).mpr (Or.inl h))
      have hnt : k ∉ st.temps := fun h => hk'' ((hmem k).mpr (Or.inr h))
      show NS.get? (NS.set st.data key a.val) k = _
      rw [get?_set_ne _ _ _ _ hne]
      exact hm.data_frame k hnt
    · intro k hk'
      have hk'' : k ∈ key :: st.temps := by simpa using hk'
      show NS.get? (tmpBackups cfg st key) k = _
      rw [tmpBackups_get? cfg hb]
      by_cases hkk : k = key
      · subst hkk
        simp only [if_true]
        cases hold : NS.get? st.data k with
        | some old => simp only; rw [← hdk, hold]
        | none =>
          simp only
          rw [hm.backup_frame k hfresh, ← hdk, hold]
          cases hb0 : NS.get? st0.backups k with
          | none => rfl
          | some v =>
            have := (hinv.backups_ok k v hb0).2
            rw [← hdk, hold] at this
            cases this
      · simp only [hkk, if_false]
        rcases (hmem k).mp hk'' with h' | h'
        · exact absurd h' hkk
        · exact hm.backup_of k h'
    · intro k hk'
      have hk'' : k ∉ key :: st.temps := by simpa using hk'
      have hne : k ≠ key := fun h => hk'' ((hmem k).mpr (Or.inl h))
      have hnt : k ∉ st.temps := fun h => hk'' ((hmem k).mpr (Or.inr h))
      show NS.get? (tmpBackups cfg st key) k = _
      rw [tmpBackups_get? cfg hb]
      simp only [hne, if_false]
      exact hm.backup_frame k hnt

theorem constructList_mid (cfg : CallCfg) (st0 : St) (hinv : Inv st0) (hb : cfg.backsUp = true) :
    ∀ (items : List (Key × Arg)) (st : St), Mid st0 st → (∀ e, e ∈ items → e.1.isTemp = true) →
      (items.map (·.1)).Nodup → (∀ e, e ∈ items → e.1 ∉ st.temps) → Mid st0 (constructList cfg st items).2 := by
  intro items
  induction items with
  | nil => intro st hm _ _ _; exact hm
  | cons e rest ih =>
    intro st hm htemp hnd hfresh
    obtain ⟨key, a⟩ := e
    simp only [constructList]
    have hnd' : key ∉ rest.map (·.1) ∧ (rest.map (·.1)).Nodup := by simpa using hnd
    apply ih
    · exact makeTemporary_mid cfg st0 st key a hinv hb hm (htemp (key, a) (by simp)) (hfresh (key, a) (by simp))
    · intro e he; exact htemp e (by simp [he])
    · exact hnd'.2
    · intro e he hmem
      rcases makeTemporary_temps cfg st key a e.1 hmem with h | h
      · exact hnd'.1 (by rw [← h]; exact List.mem_map_of_mem he)
      · exact hfresh e (by simp [he]) h

theorem constructList_data_frame (cfg : CallCfg) :
    ∀ (items : List (Key × Arg)) (st : St) (k : Key), k ∉ items.map (·.1) →
      NS.get? (constructList cfg st items).2.data k = NS.get? st.data k := by
  intro items
  induction items with
  | nil => intro st k _; rfl
  | cons e rest ih =>
    intro st k hk
    obtain ⟨key, a⟩ := e
    simp only [constructList]
    have : k ≠ key ∧ k ∉ rest.map (·.1) := by simpa using hk
    rw [ih _ k this.2, makeTemporary_data_frame cfg st key a k this.1]

theorem constructList_temps_temp (cfg : CallCfg) :
    ∀ (items : List (Key × Arg)) (st : St) (k : Key), k ∈ (constructList cfg st items).2.temps →
      k ∈ items.map (·.1) ∨ k ∈ st.temps := by
  intro items
  induction items with
  | nil => intro st k hk; exact Or.inr hk
  | cons e rest ih =>
    intro st k hk
    obtain ⟨key, a⟩ := e
    simp only [constructList] at hk
    rcases ih _ k hk with h | h
    · exact Or.inl (by simp [h])
    · rcases makeTemporary_temps cfg st key a k h with h | h
      · exact Or.inl (by simp [h])
      · exact Or.inr h

/-- What each generated argument must evaluate to. -/
def ItemSound (cfg : CallCfg) (E : Env) (data1 : NS) (a : Arg) : Prop :=
  (∀ n, a.varName = some n → NS.get? data1 (.name n) = some a.val) ∧
  (a.varName = none → usesLiteral cfg a = true → E.evalLit a.reprText = some a.val)

theorem makeTemporary_ref (cfg : CallCfg) (st : St) (key : Key) (a : Arg) :
    (∃ n, a.varName = some n ∧ (makeTemporary cfg st key a).1 = .var n) ∨
    (a.varName = none ∧ usesLiteral cfg a = true ∧ (makeTemporary cfg st key a).1 = .lit a.reprText) ∨
    ((makeTemporary cfg st key a).1 = .tmp key ∧ NS.get? (makeTemporary cfg st key a).2.data key = some a.val) := by
  rcases makeTemporary_cases cfg st key a with ⟨n, hv, h⟩ | ⟨hv, hl, h⟩ | ⟨_, _, h⟩
  · exact Or.inl ⟨n, hv, by rw [h]⟩
  · exact Or.inr (Or.inl ⟨hv, hl, by rw [h]⟩)
  · refine Or.inr (Or.inr ⟨by rw [h], ?_⟩)
    rw [h]
    exact get?_set_self _ _ _

theorem constructList_evalRefs (cfg : CallCfg) (E : Env) (data1 : NS) :
    ∀ (items : List (Key × Arg)) (st : St), (items.map (·.1)).Nodup →
      (∀ e, e ∈ items → ItemSound cfg E data1 e.2) →
      (∀ e, e ∈ items → NS.get? data1 e.1 = NS.get? (constructList cfg st items).2.data e.1) →
      evalRefs E data1 (constructList cfg st items).1 = some (items.map (·.2.val)) := by
  intro items
  induction items with
  | nil => intro st _ _ _; rfl
  | cons e rest ih =>
    intro st hnd hsound hagree
    obtain ⟨key, a⟩ := e
    have hnd' : key ∉ rest.map (·.1) ∧ (rest.map (·.1)).Nodup := by simpa using hnd
    simp only [constructList, evalRefs, List.map]
    have htail := ih (makeTemporary cfg st key a).2 hnd'.2 (fun e he => hsound e (by simp [he]))
      (fun e he => by
        have := hagree e (by simp [he])
        simpa [constructList] using this)
    rw [htail]
    have hs := hsound (key, a) (by simp)
    have hhead : evalRef E data1 (makeTemporary cfg st key a).1 = some a.val := by
      rcases makeTemporary_ref cfg st key a with ⟨n, hv, href⟩ | ⟨hv, hl, href⟩ | ⟨href, hval⟩
      · rw [href]; exact hs.1 n hv
      · rw [href]; exact hs.2 hv hl
      · rw [href]
        show NS.get? data1 key = some a.val
        have := hagree (key, a) (by simp)
        simp only [constructList] at this
        rw [this, constructList_data_frame cfg rest _ key hnd'.1, hval]
    rw [hhead]

/-! ## `_purge_temporaries` -/

theorem purgeOne_get? (cfg : CallCfg) (hr : cfg.purgeRestores = true) (hd : cfg.purgeDeletes = true)
    (backups data : NS) (key k : Key) :
    NS.get? (purgeOne cfg backups data key) k = if k = key then NS.get? backups key else NS.get? data k := by
  unfold purgeOne
  cases hb : NS.get? backups key with
  | some old => simp only [hr, if_true]; rw [get?_set]
  | none => simp only [hd, if_true]; rw [get?_erase]

theorem purge_fold_get? (cfg : CallCfg) (hr : cfg.purgeRestores = true) (hd : cfg.purgeDeletes = true)
    (backups : NS) (k : Key) :
    ∀ (temps : List Key) (data : NS),
      NS.get? (temps.foldl (purgeOne cfg backups) data) k = if k ∈ temps then NS.get? backups k else NS.get? data k := by
  intro temps
  induction temps with
  | nil => intro data; simp
  | cons key rest ih =>
    intro data
    simp only [List.foldl]
    rw [ih, purgeOne_get? cfg hr hd]
    by_cases h1 : k ∈ rest
    · simp [h1]
    · by_cases h2 : k = key
      · subst h2; simp
      · simp [h1, h2]

/-! ## `_start_mocking` on the namespace -/

/-- The value an execution forces on a key before the student's code runs (none: the key is left alone). -/
def mockedValue (mc : MockCfg) (ov : String → Nat) : Key → Option Nat
  | .temp .. => none
  | .name s =>
    if mc.setsMainName && s == "__name__" then some mainNameId
    else if mc.writesNamespace && mc.overrideNames.contains s then some (ov s)
    else if mc.resetsBuiltins && s == "__builtins__" then some builtinsId
    else none

theorem foldl_overrides_get? (ov : String → Nat) (k : Key) :
    ∀ (names : List String) (d : NS),
      NS.get? (names.foldl (fun d n => NS.set d (.name n) (ov n)) d) k =
        match k with
        | .name s => if s ∈ names then some (ov s) else NS.get? d k
        | .temp .. => NS.get? d k := by
  intro names
  induction names with
  | nil => intro d; cases k <;> simp
  | cons n rest ih =>
    intro d
    simp only [List.foldl]
    rw [ih]
    cases k with
    | temp kw i nm => simp only; rw [get?_set_ne]; intro h; cases h
    | name s =>
      simp only
      by_cases h1 : s ∈ rest
      · have : s ∈ n :: rest := List.mem_cons_of_mem _ h1
        simp [h1]
      · by_cases h2 : s = n
        · subst h2
          simp only [h1, if_false, List.mem_cons, true_or, if_true]
          rw [get?_set_self]
        · have h3 : ¬ (s ∈ n :: rest) := by
            intro h; rcases List.mem_cons.mp h with h | h
            · exact h2 h
            · exact h1 h
          simp only [h1, h3, if_false]
          rw [get?_set_ne]
          intro h; cases h; exact h2 rfl

theorem startExecution_get? (mc : MockCfg) (ov : String → Nat) (d : NS) (k : Key) :
    NS.get? (startExecution mc ov d) k =
      match mockedValue mc ov k with
      | some v => some v
      | none => NS.get? d k := by
  unfold startExecution
  cases k with
  | temp kw i nm =>
    simp only [mockedValue]
    have e1 : ∀ d' v s, NS.get? (NS.set d' (.name s) v) (.temp kw i nm) = NS.get? d' (.temp kw i nm) := by
      intro d' v s; rw [get?_set_ne]; intro h; cases h
    have hfold : ∀ d', NS.get? (mc.overrideNames.foldl (fun d n => NS.set d (.name n) (ov n)) d') (.temp kw i nm)
        = NS.get? d' (.temp kw i nm) := by
      intro d'; rw [foldl_overrides_get?]
    cases mc.setsMainName <;> cases mc.writesNamespace <;> cases mc.resetsBuiltins <;> simp [e1, hfold]
  | name s =>
    simp only [mockedValue]
    have hname : ∀ d' v s', NS.get? (NS.set d' (.name s') v) (.name s) = if s = s' then some v else NS.get? d' (.name s) := by
      intro d' v s'
      rw [get?_set]
      by_cases h : s = s'
      · subst h; simp
      · have : (Key.name s = Key.name s') = False := by simp [h]
        simp [h]
    have hfold : ∀ d', NS.get? (mc.overrideNames.foldl (fun d n => NS.set d (.name n) (ov n)) d') (.name s)
        = if mc.overrideNames.contains s then some (ov s) else NS.get? d' (.name s) := by
      intro d'; rw [foldl_overrides_get?]; simp
    by_cases hm : s = "__name__" <;> by_cases hbn : s = "__builtins__" <;>
      cases h1 : mc.setsMainName <;> cases h2 : mc.writesNamespace <;> cases h3 : mc.resetsBuiltins <;>
      by_cases hc : mc.overrideNames.contains s = true <;>
      simp [hname, hfold, hm, hbn, hc] <;> simp_all

theorem mockedValue_temp (mc : MockCfg) (ov : String → Nat) (k : Key) (h : k.isTemp = true) :
    mockedValue mc ov k = none := by
  cases k with
  | temp => rfl
  | name s => cases h

end Pedal.SandboxEquiv

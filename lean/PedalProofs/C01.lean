import PedalProofs.MergeIRLemmas
import PedalProofs.ResolverLemmas
import PedalProofs.SortLemmas
/-
C01 — the resolver shows the highest-priority eligible feedback and nothing ineligible.
Property theorems only; helper lemmas are in ResolverLemmas / SortLemmas.
The model (`Pedal.Resolver.resolve`) is tied to pedal by the generated tables and the
correspondence check (harness/c01.py).
-/
namespace Pedal.Resolver
open Pedal.Gen.Resolver

/-- The order stated in the property text. -/
def specOrder : List String :=
  ["highest", "syntax", "mistakes", "instructor", "algorithmic", "runtime", "student", "specification",
   "positive", "instructions", "uncategorized", "lowest"]

/-- The creation-ordered list `report.feedback + report.ignored_feedback` the sort starts from. -/
def triggeredFirst (fs : List Fb) : List Fb := fs.filter (·.triggered) ++ fs.filter (!·.triggered)

/-- Declarative reading of "suppressed by category, by category+label(+fields), by label(+fields)"
    for one normalised `suppress` call. -/
def SupMatches (s : Sup) (f : Fb) : Prop :=
  match s.category with
  | some c => c = f.cat ∧ (s.label = none ∨ (s.label = some f.label.toLower ∧ fieldsMatch s.fields f.fields = true))
  | none => s.label = some f.label ∧ fieldsMatch s.fields f.fields = true

/-- The generated rank table is the documented one and the one the property states. -/
theorem c01_rank_table_documented :
    categoryPriority = specOrder ∧ documentedOrder = specOrder := by decide

/-- Offsets order high < medium < low inside one rank and never reach the next rank. -/
theorem c01_offsets_within_rank :
    offOther < offHigh ∧ offHigh < offMedium ∧ offMedium < offLow ∧ offLow < 10 := by decide

/-- `merge`'s two suppression blocks are exactly "some suppress call matches". -/
theorem c01_suppressed_iff (sups : List Sup) (f : Fb) :
    suppressed sups f = true ↔ ∃ s ∈ sups, SupMatches s f := by
  simp only [suppressed, catSuppressed, labelSuppressed, Bool.or_eq_true]
  constructor
  · rintro (h | h)
    · split at h
      · rename_i hany
        obtain ⟨s, hs, hl⟩ := List.any_eq_true.mp hany
        obtain ⟨hs, hc⟩ := List.mem_filter.mp hs
        refine ⟨s, hs, ?_⟩
        have hc' : s.category = some f.cat := by simpa using hc
        simp [SupMatches, hc', Option.isNone_iff_eq_none.mp hl]
      · obtain ⟨s, hs, hl⟩ := List.any_eq_true.mp h
        obtain ⟨hs, hc⟩ := List.mem_filter.mp hs
        refine ⟨s, hs, ?_⟩
        have hc' : s.category = some f.cat := by simpa using hc
        simp only [Bool.and_eq_true, beq_iff_eq] at hl
        simp [SupMatches, hc', hl.1, hl.2]
    · obtain ⟨s, hs, hl⟩ := List.any_eq_true.mp h
      simp only [Bool.and_eq_true, beq_iff_eq] at hl
      refine ⟨s, hs, ?_⟩
      have hn : s.category = none := Option.isNone_iff_eq_none.mp hl.1.1
      simp [SupMatches, hn, hl.1.2, hl.2]
  · rintro ⟨s, hs, hm⟩
    unfold SupMatches at hm
    split at hm
    · rename_i c hc
      left
      obtain ⟨hcat, hlab⟩ := hm
      have hmine : s ∈ sups.filter (fun s => s.category == some f.cat) := by
        apply List.mem_filter.mpr; exact ⟨hs, by simp [hc, hcat]⟩
      split
      · rfl
      · apply List.any_eq_true.mpr
        rcases hlab with hnone | ⟨hl, hf⟩
        · rename_i hno
          exfalso; apply hno
          exact List.any_eq_true.mpr ⟨s, hmine, by simp [hnone]⟩
        · exact ⟨s, hmine, by simp [hl, hf]⟩
    · rename_i hc
      right
      exact List.any_eq_true.mpr ⟨s, hs, by simp [hc, hm.1, hm.2]⟩

theorem finalize_used (sups : List Sup) (st : Final) : (finalize sups st).used = st.used := by
  unfold finalize
  dsimp only
  split
  · rfl
  · split <;> rfl

/-- Resolving raises only through `Score.parse` on a score outside the score grammar. -/
theorem c01_resolve_never_raises (fs : List Fb) (raw : List Sup)
    (hscore : badScore (raw.map Sup.norm) fs = false) : ∃ r, resolve fs raw = .ok r := by
  simp [resolve, hscore]

/-- What `resolve` returns, field by field, in terms of the first showable feedback of the sorted list. -/
theorem resolve_ok_iff (fs : List Fb) (raw : List Sup) (r : Result) :
    resolve fs raw = .ok r ↔
      badScore (raw.map Sup.norm) fs = false ∧
      r = finalize (raw.map Sup.norm) ((ordered fs).foldl (merge (raw.map Sup.norm)) {}) := by
  unfold resolve
  cases hb : badScore (raw.map Sup.norm) fs
  · simp only [hb, Bool.false_eq_true, ↓reduceIte, Except.ok.injEq, true_and]
    exact ⟨fun h => h.symm, fun h => h.symm⟩
  · simp [hb]

theorem c01_used_is_first_shown (fs : List Fb) (raw : List Sup) (r : Result) (h : resolve fs raw = .ok r) :
    r.used = (ordered fs).find? (shown (raw.map Sup.norm)) := by
  obtain ⟨_, rfl⟩ := (resolve_ok_iff fs raw r).mp h
  have s := summary_fold (raw.map Sup.norm) (ordered fs)
  rw [finalize_used, s.used]

/-- The delivered label/title/message/category are those of the used feedback; it is eligible; and
    no eligible (showable) feedback ranks strictly higher, ties going to the one created first. -/
theorem c01_shown_is_eligible_and_best (fs : List Fb) (raw : List Sup) (r : Result) (f : Fb)
    (h : resolve fs raw = .ok r) (hu : r.used = some f) :
    f ∈ fs ∧ eligible (raw.map Sup.norm) f = true ∧
    r.label = f.label ∧ r.title = f.shownTitle ∧ some r.message = f.message ∧ r.category = f.category ∧
    ∃ i : Nat, (triggeredFirst fs)[i]? = some f ∧
      ∀ (j : Nat) (g : Fb), (triggeredFirst fs)[j]? = some g → shown (raw.map Sup.norm) g = true →
        key f ≤ key g ∧ (key g ≤ key f → i ≤ j) := by
  have hfind := c01_used_is_first_shown fs raw r h
  rw [hu] at hfind
  obtain ⟨_, hr⟩ := (resolve_ok_iff fs raw r).mp h
  have s := summary_fold (raw.map Sup.norm) (ordered fs)
  have hmin := Pedal.Sort.find_mergeSort_min key (shown (raw.map Sup.norm)) (triggeredFirst fs) f hfind.symm
  obtain ⟨hsh, i, hi, hbest⟩ := hmin
  have hmem : f ∈ fs := by
    have : f ∈ triggeredFirst fs := List.mem_of_getElem? hi
    simp only [triggeredFirst, List.mem_append, List.mem_filter] at this
    rcases this with h1 | h1 <;> exact h1.1
  have hel : eligible (raw.map Sup.norm) f = true := by
    simp only [shown, Bool.and_eq_true] at hsh; exact hsh.1
  have hms : f.message.isSome = true := by
    simp only [shown, Bool.and_eq_true] at hsh; exact hsh.2
  refine ⟨hmem, hel, ?_, ?_, ?_, ?_, i, hi, hbest⟩
  all_goals
    subst hr
    have hused : ((ordered fs).foldl (merge (raw.map Sup.norm)) {}).used = some f := by
      rw [s.used]; exact hfind.symm
    have hl := s.label; have ht := s.title; have hm := s.message; have hc := s.category
    rw [← hfind] at hl ht hm hc
    obtain ⟨m, hm'⟩ := Option.isSome_iff_exists.mp hms
    unfold finalize
    simp [hused, hl, ht, hm, hc, hm']

/-- With no eligible feedback the learner gets the default result: "complete", or "no errors" when
    correctness is hidden. -/
theorem c01_default_when_none_eligible (fs : List Fb) (raw : List Sup) (r : Result)
    (h : resolve fs raw = .ok r) (hnone : ∀ g ∈ fs, shown (raw.map Sup.norm) g = false) :
    r.used = none ∧ r.label = defaultLabel ∧ r.category = some completeCategory ∧
    (hideCorrectness (raw.map Sup.norm) = false → r.title = completeTitle ∧ r.message = completeMessage) ∧
    (hideCorrectness (raw.map Sup.norm) = true → r.title = noFeedbackTitle ∧ r.message = noFeedbackMessage) := by
  have hfind := c01_used_is_first_shown fs raw r h
  have hn : (ordered fs).find? (shown (raw.map Sup.norm)) = none := by
    apply (Pedal.Sort.find_mergeSort_none key (shown (raw.map Sup.norm)) (triggeredFirst fs)).mpr
    intro g hg
    simp only [triggeredFirst, List.mem_append, List.mem_filter] at hg
    rcases hg with h1 | h1 <;> exact hnone g h1.1
  obtain ⟨_, hr⟩ := (resolve_ok_iff fs raw r).mp h
  have s := summary_fold (raw.map Sup.norm) (ordered fs)
  have hl := s.label; have ht := s.title; have hm := s.message; have hc := s.category; have hus := s.used
  rw [hn] at hl ht hm hc hus
  subst hr
  unfold finalize
  cases hh : hideCorrectness (raw.map Sup.norm) <;> simp [hl, hm, hc, hus]

/-- A priority that (after aliasing) names a rank-table entry re-ranks the feedback as that entry at
    the medium offset, whatever its category. -/
theorem c01_priority_rerank (f : Fb) (p : String) (i : Nat)
    (hp : f.priority = some p) (hr : rankOf (lookupAlias p.toLower) = some i) :
    key f = i * 10 + offMedium := by
  simp [key, Fb.prio, hp, hr, offset]

/-- Any other priority keeps the category's rank and only shifts within it. -/
theorem c01_priority_shift (f : Fb) (p : String)
    (hp : f.priority = some p) (hr : rankOf (lookupAlias p.toLower) = none) :
    key f = catRank f * 10 + offset (lookupAlias p.toLower) := by
  simp [key, Fb.prio, hp, hr]

theorem c01_no_priority_is_medium (f : Fb) (hp : f.priority = none) :
    key f = catRank f * 10 + offMedium := by
  have : rankOf "medium" = none := by decide
  simp [key, Fb.prio, hp, this, offset]

/-- Non-vacuity (an evaluated test, not a theorem): a concrete report with three eligible feedbacks
    and a biting, aliased, case-differing category+label+fields suppression. -/
def exampleReport : List Fb × List Sup :=
  let a : Fb := { uid := 0, label := "a", category := some "runtime", priority := none, kind := none,
                  muted := false, unscored := false, triggered := true, elseMsg := false,
                  message := some "ma", title := none, correct := false, negative := false,
                  score := none, fields := [("k", "1")] }
  let b : Fb := { a with uid := 1, label := "b", category := some "Syntax", message := some "mb" }
  let c : Fb := { a with uid := 2, label := "c", category := some "syntax", message := some "mc" }
  ([a, b, c], [{ category := some "parser", label := some "B", fields := [("k", "1")] }])

#guard (resolve exampleReport.1 exampleReport.2).toOption.map (fun r => (r.label, r.message, r.correct))
        = some ("c", "mc", false)

end Pedal.Resolver

import PedalProofs.MergeIRLemmas
import PedalProofs.C01
/-
C02 — a submission is marked correct exactly when no shown negative feedback fired.
-/
namespace Pedal.Resolver
open Pedal.Gen.Resolver

/-- C20's invariant, imported as a hypothesis: a triggered feedback always carries a message
    (`_get_message` falls back to DEFAULT_FEEDBACK_MESSAGE). -/
def HasMessages (fs : List Fb) : Prop := ∀ g ∈ fs, g.triggered = true → g.message.isSome = true

theorem mem_ordered (fs : List Fb) (g : Fb) : g ∈ ordered fs ↔ g ∈ fs := by
  unfold ordered
  rw [List.mem_mergeSort]
  simp only [List.mem_append, List.mem_filter]
  constructor
  · rintro (h | h) <;> exact h.1
  · intro h
    by_cases ht : g.triggered = true
    · left; exact ⟨h, ht⟩
    · right; exact ⟨h, by simpa using ht⟩

theorem eligible_shown (sups : List Sup) (fs : List Fb) (hm : HasMessages fs) (g : Fb) (hg : g ∈ fs) :
    shown sups g = eligible sups g := by
  unfold shown
  cases he : eligible sups g
  · rfl
  · have : g.triggered = true := by
      simp only [eligible, Bool.and_eq_true] at he; exact he.1.1.1
    simp [hm g hg this]

/-- The resolved result is correct iff every eligible feedback declares the submission correct. -/
theorem c02_correct_iff (fs : List Fb) (raw : List Sup) (r : Result)
    (h : resolve fs raw = .ok r) (hm : HasMessages fs) :
    r.correct = true ↔ ∀ f ∈ fs, eligible (raw.map Sup.norm) f = true → f.correct = true := by
  obtain ⟨_, hr⟩ := (resolve_ok_iff fs raw r).mp h
  have s := summary_fold (raw.map Sup.norm) (ordered fs)
  have hall : ((ordered fs).foldl (merge (raw.map Sup.norm)) {}).correct = true ↔
      ∀ f ∈ fs, eligible (raw.map Sup.norm) f = true → f.correct = true := by
    rw [s.correct, List.all_eq_true]
    simp only [List.mem_filter, mem_ordered]
    exact ⟨fun h f hf he => h f ⟨hf, he⟩, fun h f hf => h f hf.1 hf.2⟩
  subst hr
  unfold finalize
  dsimp only
  split
  · -- the default branch: nothing was used, hence (by `hm`) nothing is eligible
    rename_i hcond
    simp only [Bool.and_eq_true] at hcond
    have hnone : (ordered fs).find? (shown (raw.map Sup.norm)) = none := by
      rw [← s.used]; exact Option.isNone_iff_eq_none.mp hcond.2
    simp only [true_iff]
    intro f hf he
    have := List.find?_eq_none.mp hnone f ((mem_ordered fs f).mpr hf)
    rw [eligible_shown _ fs hm f hf, he] at this
    simp at this
  · exact hall

/-- An explicit success marker cannot outvote a triggered, visible mistake. -/
theorem c02_success_marker_cannot_outvote (fs : List Fb) (raw : List Sup) (r : Result)
    (h : resolve fs raw = .ok r) (hm : HasMessages fs)
    (bad : Fb) (hb : bad ∈ fs) (he : eligible (raw.map Sup.norm) bad = true) (hc : bad.correct = false) :
    r.correct = false := by
  cases hr : r.correct
  · rfl
  · have := (c02_correct_iff fs raw r h hm).mp hr bad hb he
    simp [hc] at this

/-- With no eligible feedback at all the submission is correct. -/
theorem c02_correct_when_none (fs : List Fb) (raw : List Sup) (r : Result)
    (h : resolve fs raw = .ok r) (hm : HasMessages fs)
    (hnone : ∀ f ∈ fs, eligible (raw.map Sup.norm) f = false) : r.correct = true := by
  apply (c02_correct_iff fs raw r h hm).mpr
  intro f hf he
  rw [hnone f hf] at he
  cases he

end Pedal.Resolver

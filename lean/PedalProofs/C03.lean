import PedalProofs.MergeIRLemmas
import PedalProofs.C02
/-
C03 — the final score follows the documented valence/trigger arithmetic.
Scores are exact decimals in millionths; `round(total, 2)` is `roundHundredths`.
-/
namespace Pedal.Resolver
open Pedal.Gen.Resolver

/-- The documented table: a positive/neutral feedback awards its score when triggered,
    a negative one when *not* triggered. -/
def awards (f : Fb) : Bool := (f.triggered && !f.negative) || (!f.triggered && f.negative)

/-- Signed value (millionths) of a parsed score, ignoring inversion: `+N`/`N` add, `-N` subtracts,
    `N%` is N/100 (already folded into `decimals` by `parseScore`). -/
def ScoreTok.signed (t : ScoreTok) : Option Int := ({ t with invert := false } : ScoreTok).contrib

/-- What the property says one feedback contributes, from its own score text. -/
def specContribution (f : Fb) : Option Int :=
  (parseScore (f.score.getD "")).bind fun t =>
    t.signed.map fun v => if awards f != t.invert then v else 0

/-- The property's total: over unsuppressed, not-unscored feedback carrying a score, in creation order. -/
def specScore (sups : List Sup) (fs : List Fb) : Option Rounded :=
  let cs := (fs.filter (counted sups)).map specContribution
  if cs.all Option.isSome then some (roundHundredths ((cs.map fun o => o.getD 0).foldl (· + ·) 0)) else none

/-- What the model's `merge`/`combine` make one feedback contribute. -/
def modelContribution (f : Fb) : Option Int :=
  (parseScore (scoreText (invertLogic f, f.score.getD ""))).bind ScoreTok.contrib

theorem awards_eq_not_invert (f : Fb) : awards f = !invertLogic f := by
  cases ht : f.triggered <;> cases hn : f.negative <;> simp [awards, invertLogic, ht, hn]

/-- One more leading `!` flips the parsed inversion flag and nothing else. -/
theorem parseScore_bang (s : String) :
    parseScore ("!" ++ s) = (parseScore s).map fun t => { t with invert := !t.invert } := by
  unfold parseScore
  have h1 : ("!" ++ s).toList = '!' :: s.toList := by simp
  simp only [h1, List.takeWhile_cons, List.dropWhile_cons, beq_self_eq_true, ↓reduceIte, List.length_cons]
  have hpar : ∀ n : Nat, ((n + 1) % 2 == 1) = !(n % 2 == 1) := by
    intro n
    rcases Nat.mod_two_eq_zero_or_one n with h | h <;> simp [h, Nat.add_mod]
  generalize (List.dropWhile (fun x => x == '!') s.toList) = rest
  generalize (List.takeWhile (fun x => x == '!') s.toList).length = n
  rw [hpar]
  split <;> (split <;> simp <;> try (split <;> simp))

theorem modelContribution_eq_spec (f : Fb) : modelContribution f = specContribution f := by
  unfold modelContribution specContribution scoreText
  rw [awards_eq_not_invert]
  cases hi : invertLogic f
  · simp only [Bool.false_eq_true, ↓reduceIte, String.empty_append, Bool.not_false]
    cases parseScore (f.score.getD "") with
    | none => rfl
    | some t =>
      simp only [Option.bind_some, ScoreTok.signed, ScoreTok.contrib]
      cases t.invert <;> split <;> (try rfl) <;> (split <;> simp)
  · simp only [↓reduceIte, Bool.not_true]
    rw [parseScore_bang]
    cases parseScore (f.score.getD "") with
    | none => rfl
    | some t =>
      simp only [Option.map_some, Option.bind_some, ScoreTok.signed, ScoreTok.contrib]
      cases t.invert <;> split <;> (try rfl) <;> (split <;> simp)

/-- Summing does not depend on the order the resolver visits feedback in. -/
theorem combineList_perm (l₁ l₂ : List (Option Int)) (h : l₁.Perm l₂) :
    (l₁.all Option.isSome = l₂.all Option.isSome) ∧
    ((l₁.map fun o => o.getD 0).foldl (· + ·) 0 = (l₂.map fun o => o.getD 0).foldl (· + ·) 0) := by
  constructor
  · rw [Bool.eq_iff_iff, List.all_eq_true, List.all_eq_true]
    exact ⟨fun H x hx => H x (h.mem_iff.mpr hx), fun H x hx => H x (h.mem_iff.mp hx)⟩
  · apply List.Perm.foldl_eq' (h.map _)
    intro x _ y _ z
    omega

/-- C03: unless the result is the all-correct default, the score is the documented sum. -/
theorem c03_score_formula (fs : List Fb) (raw : List Sup) (r : Result)
    (h : resolve fs raw = .ok r) (hd : r.isDefault = false) :
    r.score = specScore (raw.map Sup.norm) fs := by
  obtain ⟨_, hr⟩ := (resolve_ok_iff fs raw r).mp h
  have s := summary_fold (raw.map Sup.norm) (ordered fs)
  subst hr
  unfold finalize at hd ⊢
  dsimp only at hd ⊢
  split at hd
  · simp at hd
  · rename_i hcond
    simp only [hcond, Bool.false_eq_true, ↓reduceIte]
    unfold combine specScore
    rw [s.scores]
    simp only [List.map_map]
    have hperm : ((ordered fs).filter (counted (raw.map Sup.norm))).Perm (fs.filter (counted (raw.map Sup.norm))) := by
      apply List.Perm.filter
      unfold ordered
      refine (List.mergeSort_perm _ _).trans ?_
      exact List.filter_append_perm (fun f => f.triggered) fs
    have hfun : ((fun p : Bool × String => (parseScore (scoreText p)).bind ScoreTok.contrib) ∘
        fun f : Fb => (invertLogic f, f.score.getD "")) = specContribution := by
      funext f
      exact modelContribution_eq_spec f
    rw [hfun]
    obtain ⟨hall, hsum⟩ := combineList_perm _ _ (hperm.map specContribution)
    simp only [List.map_map] at hsum
    rw [hall, hsum]

/-- The default all-correct result has score 1. -/
theorem c03_default_score (fs : List Fb) (raw : List Sup) (r : Result)
    (h : resolve fs raw = .ok r) (hd : r.isDefault = true) : r.score = some (.exact 100) := by
  obtain ⟨_, hr⟩ := (resolve_ok_iff fs raw r).mp h
  subst hr
  unfold finalize at hd ⊢
  dsimp only at hd ⊢
  split at hd
  · rename_i hcond; simp [hcond]
  · simp at hd

/-- Muting hides a feedback but does not remove its score: `counted` does not look at `muted`. -/
theorem c03_muted_still_scores (sups : List Sup) (f : Fb) (b : Bool) :
    counted sups { f with muted := b } = counted sups f ∧
    specContribution { f with muted := b } = specContribution f := by
  constructor <;> rfl

/- `N%` equals N/100, `-` subtracts (evaluated instances of the grammar; tests, not theorems). -/
#guard (parseScore "+10%").bind ScoreTok.contrib == some 100000
#guard (parseScore "10%").bind ScoreTok.contrib == some 100000
#guard (parseScore "-10%").bind ScoreTok.contrib == some (-100000)
#guard (parseScore "0.25").bind ScoreTok.contrib == some 250000
#guard (parseScore "!0.25").bind ScoreTok.contrib == some 0
#guard (parseScore ".5").bind ScoreTok.contrib == some 500000
#guard (parseScore "1.2.3") == none
#guard roundHundredths 333333 == .nearest 33
#guard roundHundredths (-125000) == .tie

end Pedal.Resolver

import PedalModel.TimeoutMachine
/-
C14 — the invariant of the interleaving machine under the claim protocol (`fixed`) and its
preservation by every step of either thread.  The invariant says that the shared sandbox
state is a FUNCTION of the control state (who holds the claim, where each thread is): the
claim sequentialises the finalization of E1 although the threads interleave freely.
-/
namespace Pedal.Timeout


/-- the protocol as repaired -/
def fixed : Cfg := { claim := true, handlerPops := true, handlerBumps := true, termTolerant := true }
/-- the pinned tree -/
def pinned : Cfg := { claim := false, handlerPops := false, handlerBumps := false, termTolerant := false }
/-- the claim protocol without the tolerant `terminate()` -/
def intolerant : Cfg := { fixed with termTolerant := false }

def GPc.rank : GPc → Nat
  | .join => 0 | .check => 1 | .term => 2 | .hStop => 3 | .hPop => 4 | .hCap => 5 | .hBump => 6
  | .wait => 7 | .ret => 8 | .n0 => 9 | .nPush => 10 | .nPatch => 11 | .nW1 => 12 | .nW2 => 13
  | .nStop => 14 | .nPop => 15 | .nBump => 16 | .done => 17

def TPc.rank : TPc → Nat
  | .start => 0 | .run => 1 | .fClaim => 2 | .fStop => 3 | .fPop => 4 | .fCap => 5 | .fBump => 6
  | .dead => 7

/-- which (claim, grader pc, student pc) combinations occur -/
def legal : Option Who → GPc → TPc → Bool
  | none, g, t => (g == .join && decide (t.rank ≤ 2)) || (g == .check && (t == .run || t == .fClaim))
  | some .t, g, t =>
    decide (t.rank ≥ 3) && (g == .join || g == .check || g == .wait || (t == .dead && decide (g.rank ≥ 8)))
  | some .g, g, t => decide (g.rank ≥ 2) && g != .wait && (t == .run || t == .fClaim || t == .dead)

/-- the patch stack, the stdout stack and `sys.stdout` as a function of the control state -/
def expStacks (g : GPc) (t : TPc) : List Target × List Target × Target :=
  match g with
  | .join | .check | .wait =>
    (match t with
     | .start => ([], [], .real)
     | .run | .fClaim | .fStop => ([.real], [.b1], .b1)
     | .fPop => ([], [.b1], .real)
     | .fCap | .fBump | .dead => ([], [], .real))
  | .term | .hStop => ([.real], [.b1], .b1)
  | .hPop => ([], [.b1], .real)
  | .hCap | .hBump | .ret | .n0 | .nPush => ([], [], .real)
  | .nPatch => ([], [.b2], .real)
  | .nW1 | .nW2 | .nStop => ([.real], [.b2], .b2)
  | .nPop => ([], [.b2], .real)
  | .nBump | .done => ([], [], .real)

/-- the exception E1 ends with -/
def e1Exc (c : Option Who) (k : ExitKind) : Exc :=
  match c with
  | some .g => .timeout
  | _ => excOfExit k

def expFb (c : Option Who) (g : GPc) (t : TPc) (k : ExitKind) : List (Exc × Ex) :=
  match c with
  | some .g => if g.rank ≥ 6 then [(.timeout, .one)] else []
  | some .t => if t.rank ≥ 6 ∧ k ≠ .normal then [(excOfExit k, .one)] else []
  | none => []

def expExc (c : Option Who) (g : GPc) (t : TPc) (k : ExitKind) : Exc :=
  if g.rank ≥ 10 then .none
  else match c with
    | some .g => if g.rank ≥ 6 then .timeout else .none
    | some .t => if t.rank ≥ 6 then excOfExit k else .none
    | none => .none

def expNext (c : Option Who) (g : GPc) (t : TPc) : Nat :=
  (match c with
   | some .g => if g.rank ≥ 8 then 1 else 0
   | some .t => if t = .dead then 1 else 0
   | none => 0) + (if g = .done then 1 else 0)

/-- has E1's output been appended yet -/
def e1Appended (c : Option Who) (g : GPc) (t : TPc) : Bool :=
  match c with
  | some .g => decide (g.rank ≥ 5)
  | some .t => decide (t.rank ≥ 5)
  | none => false

structure Inv (s : St) : Prop where
  hl : legal s.claim s.gpc s.tpc = true
  hstk : (s.patches, s.stdouts, s.sysStdout) = expStacks s.gpc s.tpc
  hpend : s.pending = true → s.claim = some .g
  htimed : s.timedOut = (s.claim == some .g && s.gpc != .term)
  hexit : s.tExit = .sysExit → s.claim = some .g
  hcap : s.tpc = .fCap → s.tExit ≠ .normal
  hfb : s.feedback = expFb s.claim s.gpc s.tpc s.tExit
  hexc : s.exc = expExc s.claim s.gpc s.tpc s.tExit
  hnext : s.nextId = expNext s.claim s.gpc s.tpc
  hid1 : s.tpc ≠ .start → s.id1 = 0
  hid2 : s.gpc.rank ≥ 10 → s.id2 = 1
  hctx : s.ctxs = (if s.tpc = .start then 0 else 1) + (if s.gpc.rank ≥ 10 then 1 else 0)
  hraw : s.raw = s.out1 ++ s.out2
  hout1 : e1Appended s.claim s.gpc s.tpc = false → s.out1 = []
  hout2 : s.gpc.rank ≤ 15 → s.out2 = []
  hret : s.excAtReturn = (if s.gpc.rank ≥ 9 then some (e1Exc s.claim s.tExit) else none)
  hdepth : s.depthAtReturn = (if s.gpc.rank ≥ 9 then some (0, 0) else none)
  hbefore : s.excBeforeNext = (if s.gpc.rank ≥ 10 then some (e1Exc s.claim s.tExit) else none)
  hesc : s.e2Escaped = false
  hesc1 : s.e1Escaped = false

theorem inv_init : Inv init := by
  constructor <;> simp [init, legal, expStacks, expFb, expExc, expNext, e1Appended, GPc.rank, TPc.rank]

/-! ### what E2 wrote stays E2's: the data part (needs `swallows → ¬ prints`) -/

def expBuf2 (g : GPc) : List Tok :=
  if g.rank ≤ 12 then [] else if g.rank = 13 then [.n] else [.n, .x]

structure InvData (p : Prog) (s : St) : Prop where
  hbuf2 : s.buf2 = expBuf2 s.gpc
  hout2v : s.out2 = if s.gpc.rank ≥ 16 then [.n, .x] else []
  hreal : ∀ k ∈ s.real, k = Tok.e1
  /-- once the grader has told T to terminate, a T that is still in student code either has the
  SystemExit pending, or swallowed it, or is blocked -/
  haux : s.claim = some .g → s.gpc ≠ .term → s.tpc = .run →
    (s.pending = true ∨ p.swallows = true ∨ p.blocked = true)

theorem invd_init (p : Prog) : InvData p init := by
  constructor <;> simp [init, expBuf2, GPc.rank]

end Pedal.Timeout

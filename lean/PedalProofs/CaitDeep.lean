import PedalProofs.CaitLemmas
/-
C10 core: every map returned by the model's `deep` (deep_find_match) is a good embedding of the pattern
node at the student node (`Good`), by structural induction on the pattern.
-/
namespace Pedal.Cait

/-! ### paths -/

theorem prefix_snoc_inj {pp k : Path} {i i' : Nat} (h1 : (pp ++ [i]) <+: k) (h2 : (pp ++ [i']) <+: k) : i = i' := by
  obtain ⟨t1, e1⟩ := h1
  obtain ⟨t2, e2⟩ := h2
  rw [← e2, List.append_assoc, List.append_assoc] at e1
  have := List.append_cancel_left e1
  simp only [List.singleton_append, List.cons.injEq] at this
  exact this.1

theorem not_snoc_prefix_self (pp : Path) (i : Nat) : ¬ (pp ++ [i]) <+: pp := by
  intro h
  have := h.length_le
  simp at this
  omega

theorem prefix_of_snoc_prefix {pp k : Path} {i : Nat} (h : (pp ++ [i]) <+: k) : pp <+: k :=
  (List.prefix_append pp [i]).trans h

/-! ### small facts about the checker -/

theorem embAt_root {m : AstMap} {pp sp : Path} {p s : T} (h : embAt m pp p sp s = true) :
    dictGet pp m.mappings = some sp := by
  cases p with
  | mk k f fl ks =>
    rw [embAt] at h
    simp only [Bool.and_eq_true, decide_eq_true_eq] at h
    exact h.1

theorem embKids_used_irrel (m : AstMap) (pp sp : Path) (s : T) (kids : List T) :
    ∀ i mj u1 u2, embKids m pp i kids sp s true mj u1 = embKids m pp i kids sp s true mj u2 := by
  induction kids with
  | nil => intro i mj u1 u2; rw [embKids, embKids]
  | cons pc rest ih =>
    intro i mj u1 u2
    rw [embKids, embKids]
    cases dictGet (pp ++ [i]) m.mappings with
    | none => rfl
    | some q =>
      simp only
      cases q.getLast? with
      | none => rfl
      | some j =>
        simp only [if_true]
        rw [ih (i + 1) (j + 1) (j :: u1) (j :: u2)]

/-! ### the helpers of the child loop -/

theorem candsFrom_mem {f : Nat → T → List AstMap} {ys : Nat} :
    ∀ (l : List T) (j0 : Nat) (c : Nat × List AstMap), c ∈ candsFrom f ys j0 l →
      ∃ sj, l[c.1 - j0]? = some sj ∧ j0 ≤ c.1 ∧ c.2 = f c.1 sj := by
  intro l
  induction l with
  | nil => intro j0 c hc; simp [candsFrom] at hc
  | cons s ss ih =>
    intro j0 c hc
    rw [candsFrom] at hc
    rw [List.mem_append] at hc
    rcases hc with hc | hc
    · split at hc
      · cases hc
      · simp only at hc
        split at hc
        · cases hc
        · simp only [List.mem_singleton] at hc
          subst hc
          exact ⟨s, by simp, Nat.le_refl _, rfl⟩
    · obtain ⟨sj, h1, h2, h3⟩ := ih (j0 + 1) c hc
      refine ⟨sj, ?_, by omega, h3⟩
      have : c.1 - j0 = (c.1 - (j0 + 1)) + 1 := by omega
      rw [this, List.getElem?_cons_succ]
      exact h1

theorem extendOne_mem {b : AstMap} {mn : Nat} {cands : List (Nat × List AstMap)} {x : AstMap × Nat}
    (h : x ∈ extendOne b mn cands) :
    ∃ c ∈ cands, mn ≤ c.1 ∧ ∃ r ∈ c.2, x.1 = b.merged r ∧ x.1.hasConflicts = false ∧ x.2 = c.1 + 1 := by
  simp only [extendOne, List.mem_flatMap] at h
  obtain ⟨c, hc, hx⟩ := h
  split at hx
  · rename_i hge
    simp only [List.mem_filterMap] at hx
    obtain ⟨r, hr, hx⟩ := hx
    split at hx
    · cases hx
    · rename_i hcf
      cases hx
      exact ⟨c, hc, hge, r, hr, rfl, by simpa using hcf, rfl⟩
  · cases hx

theorem mapMerge_mem {st : List (AstMap × Nat)} {cands : List (Nat × List AstMap)}
    {st' : List (AstMap × Nat)} {y' : Nat} (h : mapMerge st cands = some (st', y')) :
    ∀ x' ∈ st', ∃ x ∈ st, ∃ c ∈ cands, x.2 ≤ c.1 ∧ ∃ r ∈ c.2,
      x'.1 = x.1.merged r ∧ x'.1.hasConflicts = false ∧ x'.2 = c.1 + 1 := by
  intro x' hx'
  cases cands with
  | nil => simp [mapMerge] at h
  | cons c0 cs =>
    simp only [mapMerge] at h
    split at h
    · cases h
    · simp only [Option.some.injEq, Prod.mk.injEq] at h
      obtain ⟨h1, _⟩ := h
      subst h1
      simp only [List.mem_flatMap] at hx'
      obtain ⟨x, hx, hx2⟩ := hx'
      obtain ⟨c, hc, h3⟩ := extendOne_mem hx2
      exact ⟨x, hx, c, hc, h3⟩

theorem binflexHelper_mem {base : AstMap} {L R : List AstMap} {m : AstMap} (h : m ∈ binflexHelper base L R) :
    ∃ lm ∈ L, ∃ rm ∈ R, m = (base.merged lm).merged rm ∧ m.hasConflicts = false := by
  simp only [binflexHelper, List.mem_flatMap, List.mem_filterMap] at h
  obtain ⟨lm, hl, rm, hr, hm⟩ := h
  split at hm
  · cases hm
  · rename_i hc
    cases hm
    exact ⟨lm, hl, rm, hr, rfl, by simpa using hc⟩

end Pedal.Cait

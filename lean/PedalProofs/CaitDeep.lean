import PedalProofs.CaitLemmas
/-
C10 core: every map returned by the model's `deep` (deep_find_match) is a good embedding of the pattern
node at the student node (`Good`), by structural induction on the pattern.
-/
namespace Pedal.Cait

/-! ### paths -/

theorem prefix_snoc_inj {pp k : Path} {i i' : Nat} (h1 : (pp ++ [i]) <+: k) (h2 : (pp ++ [i']) <+: k) : i = i' := by
  obtain ⟨t1, e1⟩ := h1
  obtain ⟨t2, e2⟩ := h2
  rw [← e2, List.append_assoc, List.append_assoc] at e1
  have := List.append_cancel_left e1
  simp only [List.singleton_append, List.cons.injEq] at this
  exact this.1

theorem not_snoc_prefix_self (pp : Path) (i : Nat) : ¬ (pp ++ [i]) <+: pp := by
  intro h
  have := h.length_le
  simp at this
  omega

theorem prefix_of_snoc_prefix {pp k : Path} {i : Nat} (h : (pp ++ [i]) <+: k) : pp <+: k :=
  (List.prefix_append pp [i]).trans h

/-! ### small facts about the checker -/

theorem embAt_root {m : AstMap} {pp sp : Path} {p s : T} (h : embAt m pp p sp s = true) :
    dictGet pp m.mappings = some sp := by
  cases p with
  | mk k f fl ks =>
    rw [embAt] at h
    simp only [Bool.and_eq_true, decide_eq_true_eq] at h
    exact h.1

theorem embKids_used_irrel (m : AstMap) (pp sp : Path) (s : T) (kids : List T) :
    ∀ i mj u1 u2, embKids m pp i kids sp s true mj u1 = embKids m pp i kids sp s true mj u2 := by
  induction kids with
  | nil => intro i mj u1 u2; rw [embKids, embKids]
  | cons pc rest ih =>
    intro i mj u1 u2
    rw [embKids, embKids]
    cases dictGet (pp ++ [i]) m.mappings with
    | none => rfl
    | some q =>
      simp only
      cases q.getLast? with
      | none => rfl
      | some j =>
        simp only [if_true]
        rw [ih (i + 1) (j + 1) (j :: u1) (j :: u2)]

/-! ### the helpers of the child loop -/

theorem candsFrom_mem {f : Nat → T → List AstMap} {ys : Nat} :
    ∀ (l : List T) (j0 : Nat) (c : Nat × List AstMap), c ∈ candsFrom f ys j0 l →
      ∃ sj, l[c.1 - j0]? = some sj ∧ j0 ≤ c.1 ∧ c.2 = f c.1 sj := by
  intro l
  induction l with
  | nil => intro j0 c hc; simp [candsFrom] at hc
  | cons s ss ih =>
    intro j0 c hc
    rw [candsFrom] at hc
    rw [List.mem_append] at hc
    rcases hc with hc | hc
    · split at hc
      · cases hc
      · simp only at hc
        split at hc
        · cases hc
        · simp only [List.mem_singleton] at hc
          subst hc
          exact ⟨s, by simp, Nat.le_refl _, rfl⟩
    · obtain ⟨sj, h1, h2, h3⟩ := ih (j0 + 1) c hc
      refine ⟨sj, ?_, by omega, h3⟩
      have : c.1 - j0 = (c.1 - (j0 + 1)) + 1 := by omega
      rw [this, List.getElem?_cons_succ]
      exact h1

theorem extendOne_mem {b : AstMap} {mn : Nat} {cands : List (Nat × List AstMap)} {x : AstMap × Nat}
    (h : x ∈ extendOne b mn cands) :
    ∃ c ∈ cands, mn ≤ c.1 ∧ ∃ r ∈ c.2, x.1 = b.merged r ∧ x.1.hasConflicts = false ∧ x.2 = c.1 + 1 := by
  simp only [extendOne, List.mem_flatMap] at h
  obtain ⟨c, hc, hx⟩ := h
  split at hx
  · rename_i hge
    simp only [List.mem_filterMap] at hx
    obtain ⟨r, hr, hx⟩ := hx
    split at hx
    · cases hx
    · rename_i hcf
      cases hx
      exact ⟨c, hc, hge, r, hr, rfl, by simpa using hcf, rfl⟩
  · cases hx

theorem mapMerge_mem {st : List (AstMap × Nat)} {cands : List (Nat × List AstMap)}
    {st' : List (AstMap × Nat)} {y' : Nat} (h : mapMerge st cands = some (st', y')) :
    ∀ x' ∈ st', ∃ x ∈ st, ∃ c ∈ cands, x.2 ≤ c.1 ∧ ∃ r ∈ c.2,
      x'.1 = x.1.merged r ∧ x'.1.hasConflicts = false ∧ x'.2 = c.1 + 1 := by
  intro x' hx'
  cases cands with
  | nil => simp [mapMerge] at h
  | cons c0 cs =>
    simp only [mapMerge] at h
    split at h
    · cases h
    · simp only [Option.some.injEq, Prod.mk.injEq] at h
      obtain ⟨h1, _⟩ := h
      subst h1
      simp only [List.mem_flatMap] at hx'
      obtain ⟨x, hx, hx2⟩ := hx'
      obtain ⟨c, hc, h3⟩ := extendOne_mem hx2
      exact ⟨x, hx, c, hc, h3⟩

theorem binflexHelper_mem {base : AstMap} {L R : List AstMap} {m : AstMap} (h : m ∈ binflexHelper base L R) :
    ∃ lm ∈ L, ∃ rm ∈ R, m = (base.merged lm).merged rm ∧ m.hasConflicts = false := by
  simp only [binflexHelper, List.mem_flatMap, List.mem_filterMap] at h
  obtain ⟨lm, hl, rm, hr, hm⟩ := h
  split at hm
  · cases hm
  · rename_i hc
    cases hm
    exact ⟨lm, hl, rm, hr, rfl, by simpa using hc⟩

/-! ### what `deepPre` decides -/

theorem isVar_false_of_isExp {cs : List Char} (h : isExpChars cs = true) : isVarChars cs = false := by
  simp only [isExpChars, Bool.and_eq_true, decide_eq_true_eq] at h
  match cs, h with
  | [], h => by simp at h
  | [_], h => by simp at h
  | a :: b :: rest, h =>
    have h2 := h.1.2
    simp only [List.take_succ_cons, List.take_zero, List.cons.injEq, and_true] at h2
    obtain ⟨rfl, rfl⟩ := h2
    simp [isVarChars]

theorem nameClass_of_isExp {n : String} (h : isExpChars n.toList = true) : nameClass n = .exp := by
  simp [nameClass, isVar_false_of_isExp h, h]

theorem nameClass_of_isWild {n : String} (h : isWildChars n.toList = true) : nameClass n = .wild := by
  simp only [isWildChars, decide_eq_true_eq] at h
  simp [nameClass, h, isVarChars, isExpChars, isWildChars]

theorem isExp_of_nameClass {n : String} (h : nameClass n = .exp) : isExpChars n.toList = true := by
  simp only [nameClass] at h
  split at h
  · cases h
  · split at h
    · assumption
    · split at h <;> cases h

theorem isWild_of_nameClass {n : String} (h : nameClass n = .wild) :
    isWildChars n.toList = true ∧ isExpChars n.toList = false := by
  simp only [nameClass] at h
  split at h
  · cases h
  · split at h
    · cases h
    · rename_i h2
      split at h
      · exact ⟨by assumption, by simpa using h2⟩
      · cases h

def expMap (pp sp : Path) (name : String) : AstMap := { pairMap pp sp with exps := [(name, sp)] }

theorem deepPre_done {cm : Bool} {pp sp : Path} {p s : T} {r : List AstMap}
    (h : deepPre cm pp p sp s = .done r) : ∀ m ∈ r,
      (m = pairMap pp sp ∧ role p = .wildcard) ∨
      (∃ name, m = expMap pp sp name ∧ role p = .expPh name) := by
  intro m hm
  simp only [deepPre] at h
  split at h
  · rename_i hk
    cases hc : nameClass (p.strAttr "id") with
    | exp =>
      simp only [hc] at h
      split at h
      · cases h
        simp only [List.mem_singleton] at hm
        exact Or.inr ⟨_, hm, role_ne_concrete_of_name_exp hk hc⟩
      · cases h
    | wild =>
      simp only [hc] at h
      split at h
      · cases h
        simp only [List.mem_singleton] at hm
        exact Or.inl ⟨hm, role_of_name_wild hk hc⟩
      · cases h
    | var => simp only [hc] at h; cases h
    | plain => simp only [hc] at h; cases h
  · rename_i hnn
    split at h
    · split at h <;> cases h
    · split at h
      · rename_i hk
        split at h
        · cases h; cases hm
        · cases hv : p.kids.head? with
          | none => simp only [hv] at h; cases h
          | some v =>
            simp only [hv] at h
            split at h
            · rename_i hvk
              split at h
              · rename_i he
                cases h
                simp only [List.mem_singleton] at hm
                refine Or.inr ⟨_, hm, ?_⟩
                simp only [role, hk]
                simp only [show ("Expr" : String) ≠ "Pass" from by decide,
                  show ("Expr" : String) ≠ "Name" from by decide,
                  show ("Expr" : String) ≠ "arg" from by decide, if_false, if_true, hv, hvk,
                  nameClass_of_isExp he]
              · split at h
                · rename_i hw
                  cases h
                  simp only [List.mem_singleton] at hm
                  refine Or.inl ⟨hm, ?_⟩
                  simp only [role, hk]
                  simp only [show ("Expr" : String) ≠ "Pass" from by decide,
                    show ("Expr" : String) ≠ "Name" from by decide,
                    show ("Expr" : String) ≠ "arg" from by decide, if_false, if_true, hv, hvk,
                    nameClass_of_isWild hw]
                · cases h
            · cases h
      · cases h

theorem deepPre_generic {cm : Bool} {pp sp : Path} {p s : T} {ig : List String}
    (h : deepPre cm pp p sp s = .generic ig) :
    (ig = [] ∨ (ig = ["ctx"] ∧ p.kind = "Name")) ∧ flexOp p = false ∧
      (∀ k, role p = .expPh k → p.kind = "Name") := by
  simp only [deepPre] at h
  split at h
  · rename_i hk
    have hig : ig = ["ctx"] := by
      cases hc : nameClass (p.strAttr "id") <;> simp only [hc] at h
      · cases h; rfl
      · split at h <;> cases h; rfl
      · split at h <;> cases h; rfl
      · cases h; rfl
    refine ⟨Or.inr ⟨hig, hk⟩, ?_, fun _ _ => hk⟩
    simp [flexOp, hk]
  · rename_i hnn
    split at h
    · rename_i hk
      split at h
      · cases h
      · rename_i hop
        cases h
        refine ⟨Or.inl rfl, ?_, ?_⟩
        · simp only [flexOp, hk, decide_true, Bool.true_and]
          simpa using hop
        · intro k hr
          exact absurd hr (role_not_exp_of_kind hnn (by rw [hk]; decide) k)
    · rename_i hnb
      split at h
      · rename_i hk
        split at h
        · cases h
        · rename_i hmm
          have hflex : flexOp p = false := by simp [flexOp, hnb]
          cases hv : p.kids.head? with
          | none =>
            simp only [hv] at h; cases h
            refine ⟨Or.inl rfl, hflex, ?_⟩
            intro k hr
            simp only [role, hk] at hr
            simp only [show ("Expr" : String) ≠ "Pass" from by decide,
              show ("Expr" : String) ≠ "Name" from by decide,
              show ("Expr" : String) ≠ "arg" from by decide, if_false, if_true, hv] at hr
            cases hr
          | some v =>
            simp only [hv] at h
            have hrole : ∀ k, role p = .expPh k → v.kind = "Name" ∧ nameClass (v.strAttr "id") = .exp := by
              intro k hr
              simp only [role, hk] at hr
              simp only [show ("Expr" : String) ≠ "Pass" from by decide,
                show ("Expr" : String) ≠ "Name" from by decide,
                show ("Expr" : String) ≠ "arg" from by decide, if_false, if_true, hv] at hr
              split at hr
              · rename_i hvk
                refine ⟨hvk, ?_⟩
                cases hc : nameClass (v.strAttr "id") <;> simp only [hc] at hr <;> first | rfl | cases hr
              · cases hr
            split at h
            · rename_i hvk
              split at h
              · cases h
              · rename_i hne
                split at h
                · cases h
                · cases h
                  refine ⟨Or.inl rfl, hflex, ?_⟩
                  intro k hr
                  exfalso
                  exact hne (isExp_of_nameClass (hrole k hr).2)
            · rename_i hvk
              cases h
              refine ⟨Or.inl rfl, hflex, ?_⟩
              intro k hr
              exact absurd (hrole k hr).1 hvk
      · rename_i hne
        cases h
        refine ⟨Or.inl rfl, by simp [flexOp, hnb], ?_⟩
        intro k hr
        exact absurd hr (role_not_exp_of_kind hnn hne k)

theorem deepPre_binflex {cm : Bool} {pp sp : Path} {p s : T}
    (h : deepPre cm pp p sp s = .binflex) : p.kind = "BinOp" ∧ flexOp p = true := by
  simp only [deepPre] at h
  split at h
  · cases hc : nameClass (p.strAttr "id") <;> simp only [hc] at h
    · cases h
    · split at h <;> cases h
    · split at h <;> cases h
    · cases h
  · split at h
    · rename_i hk
      split at h
      · rename_i hop
        refine ⟨hk, ?_⟩
        simp only [flexOp, hk, decide_true, Bool.true_and]
        simpa using hop
      · cases h
    · split at h
      · split at h
        · cases h
        · cases hv : p.kids.head? with
          | none => simp only [hv] at h; cases h
          | some v =>
            simp only [hv] at h
            split at h
            · split at h
              · cases h
              · split at h <;> cases h
            · cases h
      · cases h

end Pedal.Cait
